(** C16N — no duplicated and no skipped range for NESTED error handling, every
    tree, every handler script, every method, any fuel.

    The nested error-handling readers satisfy C16's carrier law
    (Buffer/EHFullCarry.v): an errorHandlingChunkReader opened at offset [off]
    on a buffer whose plain buffers all carry the object [C] carries
    [C[off..]]; its field [off] is the ABSOLUTE position (start offset plus the
    bytes it has handed out), so a replacement opened at [r.off] carries the
    rest again - at every level of the nesting. *)
From Coq Require Import List ZArith NArith Bool Lia.
From BBS Require Import Buffer.Source Buffer.Validate Buffer.Convert Buffer.ErrHandler
  Buffer.StreamProofs Buffer.ValidateProofs Buffer.ValidateReaderProofs Buffer.ConvertProofs
  Buffer.ReaderBufferProofs Buffer.ConvertProofs2 Buffer.ErrHandlerProofs
  Buffer.EHFullCarry Buffer.EHFullReader Buffer.EHFullMethods Buffer.EHFullStack Buffer.EHFullPrefix
  Buffer.EHNest.
Import ListNotations.
Open Scope N_scope.

Section NestCarry.
  Variable C : bytes.

  (** every plain buffer of the tree (original and replacements at any depth) carries [C] *)
  Fixpoint tcarry (t : nbuf) : Prop :=
    match t with
    | NB b => carries_full C b
    | NW inner ans => tcarry inner /\ acarry ans
    end
  with acarry (a : nanss) : Prop :=
    match a with
    | ANil => True
    | ARep b r => tcarry b /\ acarry r
    | AFail _ r => acarry r
    end.

  Lemma hn_on_error_carry h e a h' :
    hn_on_error h e = (a, h') -> acarry (hn_ans h) ->
    match a with NReplace t => tcarry t | NFailWith _ => True end /\ acarry (hn_ans h').
  Proof.
    unfold hn_on_error. destruct (hn_ans h) as [|b r|c r]; intros Ho Hc; inv Ho; cbn in *; tauto.
  Qed.

  Variable ifuel : nat.

  Fixpoint I_ncr (Crem : bytes) (r : ncr) : Prop :=
    match r with
    | CL u => I_ucr Crem u
    | CE cur off h => I_ncr Crem cur /\ Crem = dropN off C /\ off <= lenN C /\ acarry (hn_ans h)
    end.

  Lemma nopen_carries : forall t k, tcarry t -> k <= lenN C -> I_ncr (dropN k C) (nopen ifuel t k).
  Proof.
    induction t as [b|inner IH ans]; intros k Hc Hk; cbn [nopen I_ncr].
    - apply ucr_open_carries; assumption.
    - destruct Hc as (Hi & Ha). rsplit; auto.
  Qed.

  Lemma nread_claw max : forall fuel, claw (nread ifuel fuel max) I_ncr.
  Proof.
    induction fuel as [|f IH]; intros r c e r' Crem Hr Hi; cbn [nread] in Hr.
    - inv Hr. eexists. rsplit; [reflexivity|..]; congruence.
    - destruct r as [u|cur off h].
      + destruct (ucr_read ifuel max u) as [x u'] eqn:Hu. destruct x as [c0 e0]. inv Hr. cbn [I_ncr] in *.
        destruct (ucr_claw ifuel max _ _ _ _ _ Hu Hi) as (C' & E & Hn & He & Hc).
        exists C'. rsplit; auto.
      + destruct Hi as (Hi & HC & Hoff & Hh).
        destruct (nread ifuel f max cur) as [[chunk e0] cur'] eqn:Hu.
        destruct (IH _ _ _ _ _ Hu Hi) as (C' & E & Hn & He & Hc).
        assert (Hother : e0 <> ENone -> e0 <> EEof ->
          (let '(a, h') := hn_on_error h e0 in
           match a with
           | NFailWith c0 => (([], ECode c0), CE cur' off h')
           | NReplace t' => nread ifuel f max (CE (nopen ifuel t' off) off (hn_retire h' (nobs (nclose cur'))))
           end) = ((c, e), r') ->
          exists C'0, Crem = c ++ C'0 /\ (e = ENone -> I_ncr C'0 r') /\ (e = EEof -> C'0 = []) /\ (e <> ENone -> c = [])).
        { intros Hne Hnf Hx. destruct (hn_on_error h e0) as [a h'] eqn:Ho.
          destruct (hn_on_error_carry _ _ _ _ Ho Hh) as (Ha & Hh').
          destruct a as [t'|c0].
          - apply (IH _ _ _ _ _ Hx). cbn [I_ncr hn_retire hn_ans]. rsplit; auto.
            rewrite HC. apply nopen_carries; assumption.
          - inv Hx. exists (dropN off C). rsplit; auto; congruence. }
        destruct e0; try (apply Hother; [congruence|congruence|exact Hr]).
        * inv Hr. exists C'. rsplit; auto; try congruence. intros _. cbn [I_ncr].
          destruct (piece_arith _ _ _ _ Hoff E) as (A & B & _).
          rsplit; auto. rewrite E in B. apply app_inv_head in B. exact B.
        * inv Hr. rewrite (Hc ltac:(congruence)) in E. exists C'. rsplit; auto; congruence.
  Qed.

  (** ** the io.Reader path *)
  Fixpoint I_nrd (Crem : bytes) (r : nrd) : Prop :=
    match r with
    | RL u => I_urd Crem u
    | RE cur off h => I_nrd Crem cur /\ Crem = dropN off C /\ off <= lenN C /\ acarry (hn_ans h)
    end.

  Lemma nropen_carries : forall t k, tcarry t -> k <= lenN C -> I_nrd (dropN k C) (nropen ifuel t k).
  Proof.
    induction t as [b|inner IH ans]; intros k Hc Hk; cbn [nropen I_nrd].
    - apply urd_open_carries; assumption.
    - destruct Hc as (Hi & Ha). rsplit; auto.
  Qed.

  Lemma nrread_rlaw : forall r cap c e r' Crem,
    nrread ifuel cap r = ((c, e), r') -> I_nrd Crem r ->
    exists C', Crem = c ++ C' /\ (e = ENone -> I_nrd C' r') /\ (e = EEof -> C' = []).
  Proof.
    induction r as [u|cur IH off h]; intros cap c e r' Crem Hr Hi; cbn [nrread] in Hr.
    - destruct (urd_read ifuel cap u) as [x u'] eqn:Hu. destruct x as [c0 e0]. inv Hr. cbn [I_nrd] in *.
      exact (urd_rlaw ifuel _ _ _ _ _ _ Hu Hi).
    - destruct Hi as (Hi & HC & Hoff & Hh).
      destruct (nrread ifuel cap cur) as [[data e0] cur'] eqn:Hu.
      destruct (IH _ _ _ _ _ Hu Hi) as (C' & E & Hn & He).
      destruct (piece_arith _ _ _ _ Hoff ltac:(rewrite <- HC; exact E)) as (A & B & _).
      assert (HC' : C' = dropN (off + lenN data) C).
      { rewrite <- HC, E in B. apply app_inv_head in B. exact B. }
      assert (Hother : e0 <> ENone -> e0 <> EEof ->
        (let '(a, h') := hn_on_error h e0 in
         match a with
         | NFailWith c0 => ((data, ECode c0), RE cur' (off + lenN data) h')
         | NReplace t' => ((data, ENone), RE (nropen ifuel t' (off + lenN data)) (off + lenN data)
                                            (hn_retire h' (nrobs (nrclose cur'))))
         end) = ((c, e), r') ->
        exists C'0, Crem = c ++ C'0 /\ (e = ENone -> I_nrd C'0 r') /\ (e = EEof -> C'0 = [])).
      { intros Hne Hnf Hx. destruct (hn_on_error h e0) as [a h'] eqn:Ho.
        destruct (hn_on_error_carry _ _ _ _ Ho Hh) as (Ha & Hh').
        destruct a as [t'|c0]; injection Hx as Ec Ee Er; subst c e r'; exists C'; rsplit; auto; try congruence.
        intros _. cbn [I_nrd hn_retire hn_ans]. rsplit; auto.
        rewrite HC'. apply nropen_carries; assumption. }
      destruct e0; try (apply Hother; [congruence|congruence|exact Hr]).
      + injection Hr as Ec Ee Er; subst c e r'. exists C'. rsplit; auto; try congruence.
        intros _. cbn [I_nrd]. rsplit; auto.
      + injection Hr as Ec Ee Er; subst c e r'. exists C'. rsplit; auto; congruence.
  Qed.
  Lemma nrread_is_rlaw : rlaw (nrread ifuel) I_nrd.
  Proof. intros cap s c e s' Crem Hr Hi. eapply nrread_rlaw; eassumption. Qed.

  (** the nested unvalidated io.Readers never say io.ErrUnexpectedEOF *)
  Fixpoint nrd_nu (r : nrd) : Prop :=
    match r with
    | RL u => urd_nu u
    | RE cur _ _ => nrd_nu cur
    end.
  Lemma nropen_nu : forall t k, nrd_nu (nropen ifuel t k).
  Proof. induction t as [b|inner IH ans]; intros k; cbn; [apply urd_open_nu|apply IH]. Qed.
  Lemma nrread_nu : forall r cap c e r',
    nrd_nu r -> nrread ifuel cap r = ((c, e), r') -> e <> EUnexp /\ (e = ENone -> nrd_nu r').
  Proof.
    induction r as [u|cur IH off h]; intros cap c e r' Hn Hr; cbn [nrread] in Hr.
    - destruct (urd_read ifuel cap u) as [x u'] eqn:Hu. destruct x as [c0 e0]. inv Hr.
      destruct (urd_read_nu _ _ _ _ _ _ Hu Hn) as (A & B). split; [exact A|intros _; exact B].
    - destruct (nrread ifuel cap cur) as [[data e0] cur'] eqn:Hu.
      destruct (IH _ _ _ _ Hn Hu) as (He0 & Hn').
      destruct (hn_on_error h e0) as [a h'] eqn:Ho.
      destruct e0; try congruence.
      + inv Hr. split; [congruence|intros _; cbn; auto].
      + inv Hr. split; congruence.
      + destruct a; inv Hr; (split; [congruence|intros E; cbn; first [discriminate E|apply nropen_nu]]).
      + destruct a; inv Hr; (split; [congruence|intros E; cbn; first [discriminate E|apply nropen_nu]]).
  Qed.
End NestCarry.

Section NestMethods.
  Variable H : bytes -> bytes.
  Variable cfg : vcfg.
  Variable fuel : nat.
  Variable C : bytes.

  Lemma nopen_init_carries t : tcarry C t -> I_ncr C C (nopen fuel t 0).
  Proof. intros Hc. rewrite <- (dropN_0 C) at 2. apply nopen_carries; [assumption|lia]. Qed.
  Lemma nropen_init_carries t : tcarry C t -> I_nrd C C (nropen fuel t 0).
  Proof. intros Hc. rewrite <- (dropN_0 C) at 2. apply nropen_carries; [assumption|lia]. Qed.

  Lemma nv_complete_is_object max t out st' :
    tcarry C t -> drains (nv_read H cfg fuel max) (vinit cfg (nopen fuel t 0)) out EEof st' -> out = C.
  Proof.
    intros Hc Hd. unfold nv_read in Hd.
    destruct (vcr_complete_implies_valid _ _ _ _ _ _ _ _ Hd) as ((u & Hdu) & _).
    destruct (claw_drains _ _ _ (nread_claw C fuel max fuel) _ _ _ _ Hdu _ (nopen_init_carries _ Hc)) as (C' & E & He).
    rewrite (He eq_refl), app_nil_r in E. auto.
  Qed.

  Lemma nrv_complete_is_object t out st' :
    tcarry C t -> rdrains (nrv_read H cfg fuel) (vinit cfg (nropen fuel t 0)) out EEof st' -> out = C.
  Proof.
    intros Hc Hd. unfold nrv_read in Hd.
    assert (HP : forall cap s c e s', nrd_nu s -> nrread fuel cap s = ((c, e), s') ->
                   e <> EUnexp /\ (e = ENone -> nrd_nu s'))
      by (intros; eapply nrread_nu; eauto).
    destruct (vr_complete_under_init H cfg _ (nrread fuel) fuel nrd_nu HP (nropen fuel t 0) _ _
                (nropen_nu fuel t 0) Hd) as (Hu & _).
    destruct (rlaw_rdrains _ _ _ (nrread_is_rlaw C fuel) _ _ _ _ Hu _ (nropen_init_carries _ Hc)) as (C' & E & He).
    rewrite (He eq_refl), app_nil_r in E. auto.
  Qed.

  (** whole-operation retries on a tree *)
  Definition wres_ok (m : meth) (r : wres) : Prop :=
    completed m (snd (fst (fst r))) = true -> fst (fst (fst r)) = expected_slice m C.

  Lemma whole_try_no_dup m : m <> MDiscard ->
    (forall t, tcarry C t -> wres_ok m (whole H cfg fuel m t)) /\
    (forall ans, acarry C ans -> forall r offers dead cbs, wres_ok m r ->
       wres_ok m (try_ans H cfg fuel m ans r offers dead cbs)).
  Proof.
    intros Hm. apply nbuf_nanss_ind.
    - intros b Hc. cbn [whole]. unfold wres_ok. cbn [fst snd]. intros Hcomp.
      apply plain_complete; assumption.
    - intros inner IHi ans IHa (Hci & Hca). cbn [whole]. apply IHa; [exact Hca|]. apply IHi. exact Hci.
    - intros _ r offers dead cbs Hr. destruct r as [[[d e] cb] o]. unfold wres_ok in *. cbn [try_ans fst snd] in *.
      destruct e; cbn [fst snd]; auto; intros Hcomp; rewrite completed_code in Hcomp; discriminate.
    - intros t' IHt rest IHr (Hct & Hcr) r offers dead cbs Hr. destruct r as [[[d e] cb] o].
      unfold wres_ok in Hr. cbn [fst snd] in Hr. cbn [try_ans].
      destruct e; try (unfold wres_ok; cbn [fst snd]; exact Hr); apply IHr; auto.
    - intros c rest IHr Hcr r offers dead cbs Hr. destruct r as [[[d e] cb] o].
      unfold wres_ok in *. cbn [try_ans fst snd] in *.
      destruct e; cbn [fst snd]; auto; intros Hcomp; rewrite completed_code in Hcomp; discriminate.
  Qed.

  (** The property's first sentence for trees of any depth: a call / stream
      that completes has handed the consumer exactly the expected slice of the
      object, every byte once and in order. *)
  Theorem run_tree_no_dup_no_skip t m :
    tcarry C t -> m <> MDiscard ->
    completed m (z_err (run_tree H cfg fuel t m)) = true ->
    z_data (run_tree H cfg fuel t m) = expected_slice m C.
  Proof.
    intros Hc Hm. destruct t as [b|inner ans].
    - cbn [run_tree z_err z_data]. apply plain_complete; assumption.
    - remember (NW inner ans) as t eqn:Et. destruct m; try congruence; rewrite Et; cbn [run_tree]; rewrite <- Et.
      + destruct (whole H cfg fuel (MToByteSlice max) t) as [[[d e] cbs] o] eqn:Hw. cbn [z_err z_data]. intros Hcomp.
        pose proof (proj1 (whole_try_no_dup (MToByteSlice max) Hm) t Hc) as Hx. rewrite Hw in Hx. apply Hx. exact Hcomp.
      + unfold into_writer_cr. destruct (drain _ fuel [] _) as [[out e] st] eqn:Hd. cbn [z_err z_data expected_slice].
        intros Hcomp.
        assert (He : e = EEof).
        { destruct e; try discriminate; [|reflexivity]. exfalso.
          destruct (drain_drains _ _ _ _ _ _ _ _ Hd) as (bs & _ & Hds); [congruence|].
          exact (drains_not_none _ _ _ _ _ _ Hds eq_refl). }
        subst e.
        destruct (drain_drains _ _ _ _ _ _ _ _ Hd) as (bs & -> & Hds); [congruence|]. cbn [app].
        eapply nv_complete_is_object; eauto.
      + destruct (whole H cfg fuel (MReadAt plen off) t) as [[[d e] cbs] o] eqn:Hw. cbn [z_err z_data]. intros Hcomp.
        pose proof (proj1 (whole_try_no_dup (MReadAt plen off) Hm) t Hc) as Hx. rewrite Hw in Hx. apply Hx. exact Hcomp.
      + destruct (valid_offset (g_size cfg) off) eqn:Hv; [|cbn; discriminate].
        destruct (drain _ fuel [] _) as [[out e] o] eqn:Hd.
        destruct (extra_reads _ extra o) as [ex o2]. cbn [z_err z_data expected_slice completed].
        intros Hcomp. destruct e; try discriminate.
        destruct (drain_drains _ _ _ _ _ _ _ _ Hd) as (bs & -> & Hds); [congruence|]. cbn [app].
        destruct (offset_complete_generic _ _ _ _ _ _ _ _ Hds) as (_ & full & u & Hfull & ->).
        rewrite (nv_complete_is_object _ _ _ _ Hc Hfull). reflexivity.
      + destruct (rconsume _ fuel caps _ [] _) as [[out e] st] eqn:Hr.
        destruct (rextra _ extra _ st) as [ex st2]. cbn [z_err z_data expected_slice completed].
        intros Hcomp. destruct e; try discriminate.
        destruct (rconsume_rdrains _ _ _ _ _ _ _ _ _ _ Hr) as (bs & -> & Hds); [congruence|]. cbn [app].
        eapply nrv_complete_is_object; eauto.
      + destruct (whole H cfg fuel (MToByteSlice max) t) as [[[d e] cbs] o] eqn:Hw. cbn [z_err z_data]. intros Hcomp.
        assert (Hm' : MToByteSlice max <> MDiscard) by congruence.
        pose proof (proj1 (whole_try_no_dup (MToByteSlice max) Hm') t Hc) as Hx. rewrite Hw in Hx. apply Hx. exact Hcomp.
  Qed.

  (** "... or an error": whatever the outcome of a streaming method on a
      wrapped tree (validation failure, a handler's error at any level, out of
      fuel), the bytes handed out are a PREFIX of the expected slice. *)
  Theorem run_tree_delivered_prefix inner ans m :
    tcarry C (NW inner ans) -> streaming m ->
    exists rest, expected_slice m C = z_data (run_tree H cfg fuel (NW inner ans) m) ++ rest.
  Proof.
    intros Hc Hm. remember (NW inner ans) as t eqn:Et. destruct m; try contradiction; rewrite Et; cbn [run_tree expected_slice]; rewrite <- Et.
    - unfold into_writer_cr. destruct (drain _ fuel [] _) as [[out e] st] eqn:Hd. cbn [z_data].
      unfold nv_read in Hd.
      destruct (drain_law _ _ _ (vcr_claw H cfg _ _ fuel _ (nread_claw C fuel 65536 fuel)) _ _ _ _ _ _ _ Hd
                  (I_v_init cfg _ _ _ _ (nopen_init_carries _ Hc))) as (d & C' & -> & E).
      cbn [app]. eauto.
    - destruct (valid_offset (g_size cfg) off) eqn:Hv; [|cbn; eauto].
      destruct (drain _ fuel [] _) as [[out e] o] eqn:Hd.
      destruct (extra_reads _ extra o) as [ex o2]. cbn [z_data].
      unfold valid_offset in Hv. apply andb_true_iff in Hv. destruct Hv as (Hpos & _). apply Z.leb_le in Hpos.
      unfold nv_read in Hd.
      pose proof (vcr_claw H cfg _ _ fuel _ (nread_claw C fuel max fuel)) as Hcl.
      destruct (drain_law _ _ _ (offset_claw2 _ _ _ Hcl) _ _ _ _ _ _ _ Hd
                  (offset_init_law2 _ _ nv_close _ Hcl fuel off _ _
                     (I_v_init cfg _ _ _ _ (nopen_init_carries _ Hc)) Hpos)) as (d & C' & -> & E).
      cbn [app]. eauto.
    - destruct (rconsume _ fuel caps _ [] _) as [[out e] st] eqn:Hr.
      destruct (rextra _ extra _ st) as [ex st2]. cbn [z_data].
      unfold nrv_read in Hr.
      assert (HP : forall cap s c e s', nrd_nu s -> nrread fuel cap s = ((c, e), s') ->
                     e <> EUnexp /\ (e = ENone -> nrd_nu s'))
        by (intros; eapply nrread_nu; eauto).
      destruct (rconsume_law _ _ _ (vr_rlaw H cfg _ _ fuel _ (nrread_is_rlaw C fuel) _ HP) _ _ _ _ _ _ _ _ _ Hr
                  (I_vr_init cfg _ _ _ _ _ (nropen_init_carries _ Hc) (nropen_nu fuel t 0)))
        as (d & C' & -> & E).
      cbn [app]. eauto.
  Qed.
End NestMethods.
