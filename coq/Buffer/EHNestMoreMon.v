(** C16N — the monitor on the model's own observation, all clauses.

    Clause 2 of [mon16N] ("the outermost handler's last answer was an error:
    that error is what the consumer gets") FIRES on the model for an input of
    [dom16N] ([clause2_fires_on_the_model]; replayed on the real code: the
    implementation's observation is the model's): with ToReader, a chunk-reader
    backed leaf hands out data together with its I/O error, the handler answers
    with an error, and the casValidatingReader finds the data longer than the
    digest's size BEFORE it looks at the error, so the consumer gets the
    validator's INVALID_ARGUMENT / INTERNAL instead of the handler's error.
    C16's monitor has an exception for this ([toolong] in Run/R16.v), C16N's
    has none: a false alarm of the monitor, not a defect of the code.

    Outside that situation the clause is silent: [mon16N inp (run16N inp) = []]
    for every input of [dom16N] whose model run does not end in the out-of-fuel
    marker and, for ToReader, does not end in the validator's own error code. *)
From Coq Require Import List ZArith NArith Bool Lia.
From BBS Require Import Common.Sx Buffer.Source Buffer.Validate Buffer.Convert Buffer.ErrHandler
  Buffer.StreamProofs Buffer.ValidateProofs Buffer.ConvertProofs Buffer.C09FullMonitor
  Buffer.EHNest Buffer.EHNestCarry Buffer.EHNestRules Buffer.EHNestMoreRet Buffer.EHNestMoreRoot
  Run.R09 Run.R16 Run.R16N Run.R16NProofs.
Import ListNotations.
Open Scope Z_scope.

Definition w2_inp : sx := L [A 1; L [A 3; L [A 73; A 17; A 229; A 22; A 229; A 170; A 33; A 211; A 39; A 81; A 46; A 12; A 139; A 25; A 118; A 22]; A 1]; L [A 4; L [A 0; L [L [A 0; L [A 97; A 98]]; L [A 1; A 4]]]; L [L [A 1; A 7]]]; L [A 4; L [A 8]; A 0]; L [L [L [A 97; A 98; A 100]; L [A 73; A 17; A 229; A 22; A 229; A 170; A 33; A 211; A 39; A 81; A 46; A 12; A 139; A 25; A 118; A 22]]; L [L [A 97]; L [A 12; A 193; A 117; A 185; A 192; A 241; A 182; A 168; A 49; A 195; A 153; A 226; A 105; A 119; A 38; A 97]]; L [L [A 97; A 98]; L [A 24; A 126; A 244; A 67; A 97; A 34; A 209; A 204; A 47; A 64; A 220; A 43; A 146; A 240; A 235; A 160]]; L [L []; L [A 212; A 29; A 140; A 217; A 143; A 0; A 178; A 4; A 233; A 128; A 9; A 152; A 236; A 248; A 66; A 126]]]; L [A 97; A 98; A 100]].

Example w2_in_domain : dom16N w2_inp.
Proof.
  unfold dom16N. repeat match goal with |- _ /\ _ => split end.
  - vm_compute. reflexivity.
  - vm_compute. exact I.
  - vm_compute. reflexivity.
  - intros x E. vm_compute in E. inversion E. lia.
  - apply Nat.leb_le. vm_compute. reflexivity.
Qed.
Example clause2_fires_on_the_model :
  run16N w2_inp = L [L []; A 13; L []; L [A 0]; L []; L [A 1; L [A 4]; A 1; L [L [A 0; A 1]]]] /\
  mon16N w2_inp (run16N w2_inp) = [2].
Proof. vm_compute. split; reflexivity. Qed.

Lemma In_one {A} (x y : A) : In x [y] -> x = y.
Proof. intros [E|[]]; auto. Qed.

Lemma clause2_core H cfg fuel inner ans m C out :
  out = run_tree H cfg fuel (NW inner ans) m ->
  z_err out <> EFuel ->
  (is_to_reader m = true -> z_err out <> ECode (g_code cfg)) ->
  ~ In 2 (monN_data (NW inner ans) m C (z_data out) (C09FullMonitor.code_of (z_err out)) (codes_of (z_tree out))).
Proof.
  intros Eout Hnf Htr Hin.
  pose proof (run_tree_clause2 H cfg fuel inner ans m) as Hc. rewrite <- Eout in Hc. specialize (Hc Hnf).
  clear Eout. unfold monN_data in Hin.
  apply in_app_or in Hin. destruct Hin as [Hin|Hin].
  { destruct (t_done1 _); [contradiction|]. apply In_one in Hin. discriminate. }
  destruct (is_discard m); [contradiction|].
  apply in_app_or in Hin. destruct Hin as [Hin|Hin].
  - destruct (z_tree out) as [n|offs d kids]; cbn [codes_of] in Hin; [contradiction|].
    rewrite map_length in Hin.
    destruct (returnedN ans (length offs)) as [c'|] eqn:Er; [|contradiction].
    assert (Hcode : C09FullMonitor.code_of (z_err out) = c').
    { destruct (Hc c' eq_refl) as [E|(E1 & E2)]; [rewrite E; reflexivity|]. exfalso. exact (Htr E1 E2). }
    rewrite Hcode, Z.eqb_refl in Hin. cbn [negb] in Hin. rewrite andb_false_r in Hin. contradiction.
  - repeat (apply in_app_or in Hin; destruct Hin as [Hin|Hin]);
      match type of Hin with In _ (if ?x then _ else _) => destruct x end; try contradiction;
      apply In_one in Hin; discriminate.
Qed.

Definition dom16N2 (inp : sx) : Prop :=
  dom16N inp /\ z_err (out16N inp) <> EFuel /\
  (is_to_reader (n_meth (dec_case16N inp)) = true ->
   z_err (out16N inp) <> ECode (g_code (n_cfg (dec_case16N inp)))).

Theorem mon16N_silent_on_model inp : dom16N2 inp -> mon16N inp (run16N inp) = [].
Proof.
  intros (Hdom & Hnf & Htr).
  pose proof (mon16N_on_model inp Hdom) as Hall.
  destruct Hdom as (Hok & Hroot & Hnfo & Hpos & Hdepth).
  destruct (mon16N inp (run16N inp)) as [|k l] eqn:Hmon; [reflexivity|]. exfalso.
  assert (Hk : k = 2) by (apply Hall; left; reflexivity). subst k.
  assert (Hin : In 2 (mon16N inp (run16N inp))) by (rewrite Hmon; left; reflexivity).
  rewrite (mon16N_decoded inp Hdepth) in Hin.
  destruct (n_tree (dec_case16N inp)) as [b|inner ans] eqn:Et; [contradiction|].
  pose proof (out16N_eq inp) as Eo. rewrite Et in Eo.
  exact (clause2_core _ _ _ _ _ _ _ _ Eo Hnf Htr Hin).
Qed.
