(** C16 — applying the handlers ([WithErrorHandler] on buffers in a known
    state consults the handler at once) is part of the level-wise specification
    too: after stacking, [stitch_stack] of the ORIGINAL buffer and all scripts
    is [stitch_stack] of the buffer in use and the scripts of the active levels,
    with the offers made so far in front.  Together with the closed form of the
    nested readers: the stream of a whole stack, its final error and every
    level's OnError log are [stitch_stack (piece_of b0 0) anss]. *)
From Coq Require Import List ZArith NArith Bool Lia.
From BBS Require Import Common.Sx Buffer.Source Buffer.Validate Buffer.Convert Buffer.ErrHandler
  Buffer.StreamProofs Buffer.ValidateProofs Buffer.ValidateReaderProofs Buffer.ErrHandlerProofs
  Buffer.EHFullCarry Buffer.EHFullReader Buffer.EHFullExact Buffer.EHFullStackExact Run.R09 Run.R16.
Import ListNotations.
Open Scope N_scope.

Lemma stitch_stack_length : forall anss x t, length (snd (stitch_stack x t anss)) = length anss.
Proof.
  induction anss as [|a r IH]; intros x t; cbn [stitch_stack]; [reflexivity|].
  destruct (stitch_from x t a) as [[p1 t1] offs]. specialize (IH p1 t1).
  destruct (stitch_stack p1 t1 r) as [[p2 t2] offss]. cbn in *. now rewrite IH.
Qed.

Definition piece0 (b : bufscript) : bytes * err := piece_of b 0.
Definition sf (b : bufscript) (ans : list answer) : bytes * err * list err :=
  let '(p, t) := piece0 b in stitch_from p t ans.

Lemma piece0_known b : match b with BBytes d => piece0 b = (d, EEof) | BError c => piece0 b = ([], ECode c) | _ => True end.
Proof.
  destruct b; try exact I; unfold piece0, piece_of, ucontent.
  - assert (E : 0 <=? lenN data = true) by (apply N.leb_le; lia). rewrite E, dropN_0. reflexivity.
  - reflexivity.
Qed.

(** one level *)
Lemma weh_spec : forall n b h r h',
  with_error_handler n b h = (r, h') -> (length (h_answers h) < n)%nat ->
  exists new, oel h' = oel h ++ new /\
    match r with
    | inl b' => sf b (h_answers h) = (let '(d, e, offs) := sf b' (h_answers h') in (d, e, new ++ offs))
    | inr b' => sf b (h_answers h) = (fst (piece0 b'), snd (piece0 b'), new) /\
                match b' with BBytes _ | BError _ => True | _ => False end
    end.
Proof.
  induction n as [|n IH]; intros b h r h' Hw Hl; [lia|].
  destruct b as [evs|evs a|d|c]; cbn [with_error_handler] in Hw.
  - inv Hw. exists []. rewrite app_nil_r. split; [reflexivity|]. destruct (sf _ _) as [[d e] offs]. reflexivity.
  - inv Hw. exists []. rewrite app_nil_r. split; [reflexivity|]. destruct (sf _ _) as [[d e] offs]. reflexivity.
  - inv Hw. exists []. rewrite oel_done, app_nil_r. split; [reflexivity|]. split; [|exact I].
    unfold sf. rewrite (piece0_known (BBytes d)). reflexivity.
  - destruct (on_error h (ECode c)) as [a h1] eqn:Ho.
    pose proof (oel_on_error h (ECode c)) as Hoe. rewrite Ho in Hoe. cbn [snd] in Hoe.
    destruct a as [b1|c1].
    + pose proof (on_error_len_replace _ _ _ _ Ho) as Hlen.
      destruct (IH _ _ _ _ Hw ltac:(lia)) as (new & Hn & Hm).
      exists (ECode c :: new). split; [rewrite Hn, Hoe, <- app_assoc; reflexivity|].
      assert (Hsf : sf (BError c) (h_answers h) =
                    let '(d, e, offs) := sf b1 (h_answers h1) in (d, e, ECode c :: offs)).
      { unfold sf at 1. rewrite (piece0_known (BError c)). rewrite (on_error_replace _ _ _ _ Ho). cbn [stitch_from].
        unfold sf. destruct (piece0 b1) as [p1 t1] eqn:Hp1. unfold piece0 in Hp1.
        pose proof (stitch_as_from [] b1 0 (h_answers h1) p1 t1 eq_refl Hp1) as Has. cbn [app] in Has.
        rewrite Has. cbn [lenN length N.of_nat]. change (lenN []) with 0.
        destruct (stitch b1 0 (h_answers h1)) as [[d e] offs]. reflexivity. }
      rewrite Hsf. destruct r as [b'|b'].
      * rewrite Hm. destruct (sf b' (h_answers h')) as [[d e] offs]. reflexivity.
      * destruct Hm as (Hm & Hk). rewrite Hm. split; [reflexivity|exact Hk].
    + inv Hw. exists [ECode c]. rewrite oel_done. split; [exact Hoe|]. split; [|exact I].
      unfold sf. rewrite (piece0_known (BError c)), (piece0_known (BError c1)). cbn [fst snd].
      apply stitch_from_fail; [congruence|rewrite Ho; reflexivity].
Qed.

Lemma stitch_stack_addl x t a r new d e offs :
  stitch_from x t a = (d, e, new ++ offs) ->
  forall x' t' a', stitch_from x' t' a' = (d, e, offs) ->
  stitch_stack x t (a :: r) =
  (let '(D, E, offss) := stitch_stack x' t' (a' :: r) in
   (D, E, match offss with o :: os => (new ++ o) :: os | [] => [] end)).
Proof.
  intros H1 x' t' a' H2. cbn [stitch_stack]. rewrite H1, H2.
  destruct (stitch_stack d e r) as [[D E] offss]. reflexivity.
Qed.

(** pushing further levels on a stack that has an active level *)
Lemma stack_push : forall hs b w b' w',
  stack_handlers b w hs = (b', w') -> w_act w <> [] ->
  b' = b /\ w_dn w' = w_dn w /\ w_act w' = w_act w ++ hs.
Proof.
  induction hs as [|h rest IH]; intros b w b' w' Hs Hn; cbn [stack_handlers] in Hs.
  - inv Hs. rewrite app_nil_r. auto.
  - destruct (w_act w) as [|a0 act0] eqn:Ea; [congruence|].
    destruct (IH _ _ _ _ Hs ltac:(cbn; discriminate)) as (-> & Hd & Ha). cbn in Hd, Ha.
    rsplit; auto. rewrite Ha, <- app_assoc. reflexivity.
Qed.

Definition fresh (hs : list hst) : Prop := Forall (fun h => h_log h = []) hs.
Lemma fresh_oel hs : fresh hs -> map oel hs = map (fun _ => []) hs.
Proof. intros Hf. apply map_ext_in. intros h Hin. unfold fresh in Hf. rewrite Forall_forall in Hf. unfold oel. now rewrite (Hf h Hin). Qed.

Lemma zipo_nils : forall (hs : list hst) offss, length offss = length hs -> zipo (map (fun _ => []) hs) offss = offss.
Proof.
  induction hs as [|h r IH]; intros [|o os] Hl; cbn in *; try reflexivity; try discriminate.
  f_equal. apply IH. lia.
Qed.

(** The handlers applied one after the other to a buffer without active level. *)
Theorem stacking_spec : forall hs b w b' w',
  stack_handlers b w hs = (b', w') -> w_act w = [] -> fresh hs ->
  exists newdn,
    w_dn w' = w_dn w ++ newdn /\
    stitch_stack (fst (piece0 b)) (snd (piece0 b)) (map h_answers hs) =
    (let '(D, E, offss) := stitch_stack (fst (piece0 b')) (snd (piece0 b')) (map h_answers (w_act w')) in
     (D, E, map oel newdn ++ zipo (map oel (w_act w')) offss)).
Proof.
  induction hs as [|h rest IH]; intros b w b' w' Hs Hw Hf.
  - cbn [stack_handlers] in Hs. inv Hs. exists []. rewrite app_nil_r, Hw. cbn. split; reflexivity.
  - inversion Hf as [|x l Hh Hrest]; subst. cbn [stack_handlers] in Hs. rewrite Hw in Hs.
    destruct (with_error_handler _ b h) as [r h'] eqn:Hweh.
    destruct (weh_spec _ _ _ _ _ Hweh ltac:(lia)) as (new & Hn & Hm).
    assert (Hoh : oel h = []) by (unfold oel; rewrite Hh; reflexivity). rewrite Hoh in Hn. cbn [app] in Hn.
    destruct r as [b1|b1].
    + (* the level becomes active; the others are pushed *)
      destruct (stack_push _ _ _ _ _ Hs ltac:(cbn; discriminate)) as (-> & Hd & Ha). cbn [w_dn w_act] in Hd, Ha.
      exists []. rewrite app_nil_r. split; [exact Hd|]. rewrite Ha. cbn [map app].
      unfold sf in Hm. destruct (piece0 b) as [p t]. destruct (piece0 b1) as [p1 t1]. cbn [fst snd].
      destruct (stitch_from p1 t1 (h_answers h')) as [[d e] offs] eqn:Hsf1.
      rewrite (stitch_stack_addl _ _ _ _ new d e offs Hm _ _ _ Hsf1).
      pose proof (stitch_stack_length (h_answers h' :: map h_answers rest) p1 t1) as Hlen.
      destruct (stitch_stack p1 t1 (h_answers h' :: map h_answers rest)) as [[D E] offss]. cbn [snd] in Hlen.
      destruct offss as [|o os]; [discriminate|]. cbn [zipo]. rewrite Hn.
      rewrite (fresh_oel _ Hrest), zipo_nils; [reflexivity|]. cbn in Hlen. rewrite map_length in Hlen. lia.
    + (* the level is finished at once; go on with the buffer it left *)
      destruct Hm as (Hm & _).
      destruct (IH _ _ _ _ Hs eq_refl Hrest) as (newdn & Hd & Hspec). cbn [w_dn] in Hd.
      exists (h' :: newdn). split; [rewrite Hd, <- app_assoc; reflexivity|].
      cbn [map stitch_stack]. unfold sf in Hm. destruct (piece0 b) as [p t]. cbn [fst snd]. rewrite Hm, Hspec.
      destruct (stitch_stack _ _ (map h_answers (w_act w'))) as [[D E] offss]. cbn [map app]. rewrite Hn. reflexivity.
Qed.

(** well-formedness is preserved by stacking *)
Lemma weh_wf : forall n b h r h',
  with_error_handler n b h = (r, h') -> wf_buf b -> Forall wf_ans (h_answers h) ->
  wf_buf (match r with inl b' | inr b' => b' end) /\ Forall wf_ans (h_answers h').
Proof.
  induction n as [|n IH]; intros b h r h' Hw Hc Hall; destruct b; cbn [with_error_handler] in Hw;
    try (inv Hw; auto; fail).
  - destruct (on_error h (ECode c)) as [a h1] eqn:Ho. destruct (on_error_wf _ _ _ _ Ho Hall) as (Ha & Hh1).
    destruct a as [b'|c']; inv Hw; cbn; auto.
  - destruct (on_error h (ECode c)) as [a h1] eqn:Ho. destruct (on_error_wf _ _ _ _ Ho Hall) as (Ha & Hh1).
    destruct a as [b'|c']; [eapply IH; eauto|inv Hw; cbn; auto].
Qed.

Lemma stack_handlers_wf : forall hs b w b' w',
  stack_handlers b w hs = (b', w') -> wf_buf b -> hs_wf (w_act w) -> hs_wf hs ->
  wf_buf b' /\ hs_wf (w_act w').
Proof.
  induction hs as [|h rest IH]; intros b w b' w' Hs Hc Hw Hh; cbn [stack_handlers] in Hs.
  - inv Hs. auto.
  - inversion Hh as [|x l Hh1 Hrest]; subst. destruct (w_act w) as [|a0 act0] eqn:Ea.
    + destruct (with_error_handler _ b h) as [r h'] eqn:Hw'.
      destruct (weh_wf _ _ _ _ _ Hw' Hc Hh1) as (Hc' & Hh').
      destruct r as [b1|b1]; eapply IH; try exact Hs; cbn [w_act]; auto;
        try (constructor; [exact Hh'|constructor]); try constructor.
    + eapply IH; try exact Hs; cbn [w_act]; auto. rewrite <- Ea in *.
      apply Forall_app. split; [exact Hw|constructor; [exact Hh1|constructor]].
Qed.

(** * The whole run of a stack in closed form *)
Definition wf_case (b0 : bufscript) (anss : list (list answer)) : Prop :=
  wf_buf b0 /\ Forall (Forall wf_ans) anss.

Lemma stacked_spec b0 anss b w :
  stack_handlers b0 (mkW [] [] []) (map (fun a => mkHst a []) anss) = (b, w) ->
  wf_case b0 anss ->
  wf_buf b /\ hs_wf (w_act w) /\
  (let '(p0, t0) := piece_of b0 0 in stitch_stack p0 t0 anss) =
  (let '(D, E, offss) := (let '(p, t) := piece_of b 0 in stitch_stack p t (map h_answers (w_act w))) in
   (D, E, map oel (w_dn w) ++ zipo (map oel (w_act w)) offss)).
Proof.
  intros Hs (Hwb & Hwa).
  assert (Hhs : hs_wf (map (fun a => mkHst a []) anss)).
  { unfold hs_wf. rewrite Forall_map. cbn. exact Hwa. }
  destruct (stack_handlers_wf _ _ _ _ _ Hs Hwb ltac:(constructor) Hhs) as (Hb & Hw).
  rsplit; auto.
  assert (Hf : fresh (map (fun a => mkHst a []) anss)) by (unfold fresh; rewrite Forall_map; apply Forall_forall; auto).
  destruct (stacking_spec _ _ _ _ _ Hs eq_refl Hf) as (newdn & Hd & Hspec). cbn [w_dn app] in Hd.
  rewrite map_map in Hspec. cbn [h_answers] in Hspec. rewrite map_id in Hspec.
  unfold piece0 in Hspec. destruct (piece_of b0 0) as [p0 t0]. destruct (piece_of b 0) as [p t]. cbn [fst snd] in Hspec.
  rewrite Hspec, Hd. reflexivity.
Qed.

Theorem whole_stack_chunk_stream ifuel fuel max b0 anss b w out e r' :
  stack_handlers b0 (mkW [] [] []) (map (fun a => mkHst a []) anss) = (b, w) -> w_act w <> [] ->
  drains (sch_read ifuel fuel max) (sch_init ifuel b w) out e r' ->
  wf_case b0 anss -> e <> EFuel -> Forall (fun h => ~ In EFuel (oel h)) (lv (sc_w r')) ->
  (let '(p0, t0) := piece_of b0 0 in stitch_stack p0 t0 anss) = (out, e, oews (sc_w r')).
Proof.
  intros Hs Hnn Hd Hwf Hne Hnf. destruct (stacked_spec _ _ _ _ Hs Hwf) as (Hb & Hw & Hspec).
  destruct (stack_chunk_stream_is_stitch_stack _ _ _ _ _ _ _ _ Hd Hb Hw Hnn Hne Hnf) as (offss & Hss & Ho & _).
  rewrite Hspec, Hss, Ho. reflexivity.
Qed.

Theorem whole_stack_reader_stream fuel b0 anss b w out e r' :
  stack_handlers b0 (mkW [] [] []) (map (fun a => mkHst a []) anss) = (b, w) -> w_act w <> [] ->
  rdrains (shr_read fuel) (shr_init fuel b w) out e r' ->
  wf_case b0 anss -> e <> EFuel -> Forall (fun h => ~ In EFuel (oel h)) (lv (sr_w r')) ->
  (let '(p0, t0) := piece_of b0 0 in stitch_stack p0 t0 anss) = (out, e, oews (sr_w r')).
Proof.
  intros Hs Hnn Hd Hwf Hne Hnf. destruct (stacked_spec _ _ _ _ Hs Hwf) as (Hb & Hw & Hspec).
  destruct (stack_reader_stream_is_stitch_stack _ _ _ _ _ _ Hd Hb Hw Hnn Hne Hnf) as (offss & Hss & Ho & _).
  rewrite Hspec, Hss, Ho. reflexivity.
Qed.
