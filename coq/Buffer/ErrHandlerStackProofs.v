(** C16 — stacks of error handlers ([run_stack]): on every path Done is
    reported exactly once to the handler of every level and the scripted
    source of every stream-backed buffer (the original and every replacement
    supplied by any level) is closed exactly once; the offering rule.

    The invariant of the world ([winv d]): the finished levels have received
    exactly one Done, the active levels none, every source given up so far has
    been closed exactly once, [d] levels in all; the plain reader in use owns
    a source that will have been closed exactly once after its Close()
    ([ucr_ok], [urd_ok] of Buffer/ClosedOnceProofs.v).  Close() of the
    outermost reader / the end of a whole operation leads to [wpost d]: all
    [d] levels finished, every source closed once. *)
From Coq Require Import List ZArith NArith Bool Lia.
From BBS Require Import Buffer.Source Buffer.Validate Buffer.Convert Buffer.ErrHandler
  Buffer.StreamProofs Buffer.ValidateProofs Buffer.ConvertProofs Buffer.PreserveProofs
  Buffer.ErrHandlerProofs Buffer.ClosedOnceProofs.
Import ListNotations.
Open Scope N_scope.

Definition finished (h : hst) : Prop := count_done (h_log h) = 1%nat.

Lemma done_finished h : quiet h -> finished (done h).
Proof. unfold quiet, finished. intros Hq. cbn. rewrite count_done_done. lia. Qed.
Lemma Forall_done l : Forall quiet l -> Forall finished (map done l).
Proof. induction 1; cbn; constructor; auto using done_finished. Qed.
Lemma all_one_app a b : all_one a -> all_one b -> all_one (a ++ b).
Proof. unfold all_one. intros. apply Forall_app. split; assumption. Qed.

Record winv (d : nat) (w : world) : Prop := mkWinv {
  wi_dn : Forall finished (w_dn w);
  wi_act : Forall quiet (w_act w);
  wi_cl : all_one (w_closed w);
  wi_len : (length (w_dn w) + length (w_act w) = d)%nat
}.
Definition wpost (d : nat) (w : world) : Prop :=
  Forall finished (w_dn w) /\ w_act w = [] /\ all_one (w_closed w) /\ length (w_dn w) = d.

Lemma all_done_post d w : winv d w -> wpost d (all_done w).
Proof.
  intros [Hd Ha Hc Hl]. unfold wpost, all_done. cbn. rsplit.
  - apply Forall_app. split; [exact Hd|apply Forall_done; exact Ha].
  - reflexivity.
  - exact Hc.
  - rewrite app_length, map_length. exact Hl.
Qed.
Lemma retire_inv d w c : winv d w -> all_one c -> winv d (retire w c).
Proof. intros [Hd Ha Hc Hl] H1. constructor; cbn; auto using all_one_app. Qed.
Lemma retire_post d w c : wpost d w -> all_one c -> wpost d (retire w c).
Proof. intros (Hd & Ha & Hc & Hl) H1. unfold wpost. cbn. rsplit; auto using all_one_app. Qed.

(** * escalate *)
Lemma escalate_facts : forall act e ob e' passed act',
  escalate e act = ((ob, e'), passed, act') -> Forall quiet act ->
  Forall quiet passed /\ Forall quiet act' /\
  match ob with
  | Some _ => (length passed + length act' = length act)%nat /\ (answers_left act' < answers_left act)%nat
  | None => length passed = length act /\ act' = []
  end.
Proof.
  induction act as [|h rest IH]; intros e ob e' passed act' He Hq; cbn [escalate] in He.
  - inv He. rsplit; auto.
  - inversion Hq as [|h0 l0 Hqh Hqr]; subst.
    pose proof (on_error_count h e) as Hc. destruct (on_error h e) as [a h'] eqn:Ho. cbn [snd] in Hc.
    assert (Hq' : quiet h') by (unfold quiet in *; lia).
    destruct a as [b|c].
    + inv He. rsplit; auto. cbn [length answers_left fold_right].
      pose proof (on_error_len_replace _ _ _ _ Ho). unfold answers_left. lia.
    + destruct (escalate (ECode c) rest) as [[r p] a'] eqn:Hr. inv He.
      destruct (IH _ _ _ _ _ Hr Hqr) as (Hp & Ha & Hm). rsplit; auto.
      destruct ob.
      * destruct Hm as (Hl & Hlt). cbn [length]. split; [lia|].
        unfold answers_left in *. cbn [fold_right]. lia.
      * destruct Hm as (Hl & ->). cbn [length]. split; [lia|reflexivity].
Qed.

Lemma after_replace_inv d w b e e' passed act' c :
  escalate e (w_act w) = ((Some b, e'), passed, act') -> winv d w -> all_one c ->
  winv d (after_replace w passed act' c) /\ (answers_left act' < answers_left (w_act w))%nat.
Proof.
  intros He [Hd Ha Hc Hl] H1. destruct (escalate_facts _ _ _ _ _ _ He Ha) as (Hp & Hq & Hlen & Hlt).
  split; [|exact Hlt]. constructor; cbn.
  - apply Forall_app. split; [exact Hd|apply Forall_done; exact Hp].
  - exact Hq.
  - apply all_one_app; assumption.
  - rewrite app_length, map_length. lia.
Qed.
Lemma after_failure_inv d w e e' passed act' :
  escalate e (w_act w) = ((None, e'), passed, act') -> winv d w -> winv d (after_failure w passed).
Proof.
  intros He [Hd Ha Hc Hl]. destruct (escalate_facts _ _ _ _ _ _ He Ha) as (Hp & Hq & Hlen & _).
  constructor; cbn; auto. lia.
Qed.

(** * the nested readers *)
Definition sinv (d : nat) (r : sch) : Prop := winv d (sc_w r) /\ ucr_ok (sc_cur r).
Definition rinv (d : nat) (r : shr) : Prop := winv d (sr_w r) /\ urd_ok (sr_cur r).

Lemma sch_read_inv d ifuel max : forall f r x r',
  sch_read ifuel f max r = (x, r') -> sinv d r -> sinv d r'.
Proof.
  induction f as [|f IH]; intros r x r' Hr [Hw Hu]; cbn [sch_read] in Hr; [inv Hr; split; assumption|].
  destruct (ucr_read ifuel max (sc_cur r)) as [[chunk t] cur'] eqn:Hrd.
  pose proof (ucr_read_ok _ _ _ _ _ Hrd Hu) as Hu'.
  assert (Hother :
    (let '(ob, e', passed, act') := escalate t (w_act (sc_w r)) in
     match ob with
     | None => (([], e'), mkSch cur' (sc_off r) (after_failure (sc_w r) passed))
     | Some b =>
         sch_read ifuel f max
           (mkSch (ucr_open ifuel b (sc_off r)) (sc_off r)
                  (after_replace (sc_w r) passed act' (ucr_closes (ucr_close cur'))))
     end) = (x, r') -> sinv d r').
  { destruct (escalate t (w_act (sc_w r))) as [[[ob e'] passed] act'] eqn:He. destruct ob as [b|].
    - intros Hx. eapply IH; [exact Hx|]. split; cbn [sc_w sc_cur].
      + eapply after_replace_inv; [exact He|exact Hw|apply ucr_close_ok; exact Hu'].
      + apply ucr_open_ok.
    - intros Hx. inv Hx. split; cbn [sc_w sc_cur]; [eapply after_failure_inv; eassumption|exact Hu']. }
  destruct t; try (inv Hr; split; assumption); apply Hother; exact Hr.
Qed.
Lemma sch_close_post d r : sinv d r -> wpost d (sc_w (sch_close r)).
Proof.
  intros [Hw Hu]. unfold sch_close. cbn [sc_w]. apply retire_post; [apply all_done_post; exact Hw|].
  apply ucr_close_ok. exact Hu.
Qed.

Lemma shr_read_inv d fuel cap r x r' : shr_read fuel cap r = (x, r') -> rinv d r -> rinv d r'.
Proof.
  unfold shr_read. intros Hr [Hw Hu].
  destruct (urd_read fuel cap (sr_cur r)) as [[data t] cur'] eqn:Hrd.
  pose proof (urd_read_ok _ _ _ _ _ Hrd Hu) as Hu'.
  assert (Hother :
    (let '(ob, e', passed, act') := escalate t (w_act (sr_w r)) in
     match ob with
     | None => ((data, e'), mkShr cur' (sr_off r + lenN data) (after_failure (sr_w r) passed))
     | Some b => ((data, ENone), mkShr (urd_open fuel b (sr_off r + lenN data)) (sr_off r + lenN data)
                                      (after_replace (sr_w r) passed act' (urd_closes (urd_close cur'))))
     end) = (x, r') -> rinv d r').
  { destruct (escalate t (w_act (sr_w r))) as [[[ob e'] passed] act'] eqn:He. destruct ob as [b|].
    - intros Hx. inv Hx. split; cbn [sr_w sr_cur].
      + eapply after_replace_inv; [exact He|exact Hw|apply urd_close_ok; exact Hu'].
      + apply urd_open_ok.
    - intros Hx. inv Hx. split; cbn [sr_w sr_cur]; [eapply after_failure_inv; eassumption|exact Hu']. }
  destruct t; try (inv Hr; split; assumption); apply Hother; exact Hr.
Qed.
Lemma shr_close_post d r : rinv d r -> wpost d (sr_w (shr_close r)).
Proof.
  intros [Hw Hu]. unfold shr_close. cbn [sr_w]. apply retire_post; [apply all_done_post; exact Hw|].
  apply urd_close_ok. exact Hu.
Qed.

(** * the outcome *)
Definition good (d : nat) (o : outcome16s) : Prop :=
  length (y_logs o) = d /\ Forall (fun log => count_done log = 1%nat) (y_logs o) /\ all_one (y_closes o).

Lemma wpost_logs d w : wpost d w ->
  length (logs_of w) = d /\ Forall (fun log => count_done log = 1%nat) (logs_of w) /\ all_one (w_closed w).
Proof.
  intros (Hd & Ha & Hc & Hl). unfold logs_of. rewrite Ha, app_nil_r, map_length. rsplit; auto.
  apply Forall_map. exact Hd.
Qed.

Section StackProofs.
  Variable H : bytes -> bytes.
  Variable cfg : vcfg.
  Variable fuel : nat.

  Lemma try_stack_post d : forall n m b w cbs d0 e cbs' w',
    try_stack H cfg fuel n m b w cbs = (d0, e, cbs', w') ->
    winv d w -> (answers_left (w_act w) < n)%nat -> wpost d w'.
  Proof.
    induction n as [|n IH]; intros m b w cbs d0 e cbs' w' Ht Hw Hn; [lia|].
    cbn [try_stack] in Ht.
    set (o := plain H cfg fuel b m) in *.
    pose proof (retire_inv d w (closes_of b o) Hw (plain_closed_once H cfg fuel b m)) as Hw1.
    set (w1 := retire w (closes_of b o)) in *.
    assert (Hact : w_act w1 = w_act w) by reflexivity.
    assert (Hother :
      (let '(ob, e', passed, act') := escalate (o_err o) (w_act w1) in
       match ob with
       | None => ([], e', cbs ++ o_cbs o, all_done (after_failure w1 passed))
       | Some b' => try_stack H cfg fuel n m b' (after_replace w1 passed act' []) (cbs ++ o_cbs o)
       end) = (d0, e, cbs', w') -> wpost d w').
    { destruct (escalate (o_err o) (w_act w1)) as [[[ob e'] passed] act'] eqn:He. destruct ob as [b'|].
      - intros Hx. destruct (after_replace_inv d w1 _ _ _ _ _ [] He Hw1 (Forall_nil _)) as (Hw2 & Hlt).
        eapply IH; [exact Hx|exact Hw2|]. cbn [after_replace w_act]. rewrite Hact in Hlt. lia.
      - intros Hx. inv Hx. apply all_done_post. eapply after_failure_inv; eassumption. }
    destruct (o_err o) eqn:Ee; try (inv Ht; apply all_done_post; exact Hw1); apply Hother; exact Ht.
  Qed.

  Lemma shv_read_inv d max s r s' :
    shv_read H cfg fuel max s = (r, s') -> sinv d (v_u s) -> sinv d (v_u s').
  Proof.
    intros Hr Hq. unfold shv_read in Hr.
    exact (vcr_read_pres _ _ (sinv d)
             (fun s0 r0 s0' Hr0 => sch_read_inv d _ _ _ _ _ _ Hr0) _ _ _ _ _ _ Hr Hq).
  Qed.
  Lemma shrv_read_inv d cap s r s' :
    shrv_read H cfg fuel cap s = (r, s') -> rinv d (v_u s) -> rinv d (v_u s').
  Proof.
    intros Hr Hq. unfold shrv_read in Hr.
    exact (vr_read_pres _ _ (rinv d)
             (fun cap0 s0 r0 s0' Hr0 => shr_read_inv d _ _ _ _ _ Hr0) _ _ _ _ _ _ _ Hr Hq).
  Qed.

  Lemma discarded_post d b w : winv d w -> wpost d (discarded H cfg fuel b w).
  Proof.
    intros Hw. unfold discarded. apply retire_post; [apply all_done_post; exact Hw|apply plain_closed_once].
  Qed.

  Lemma ehs_method_good d b w m : winv d w -> good d (ehs_method H cfg fuel b w m).
  Proof.
    intros Hw. unfold good.
    set (P0 := fun st : shv => sinv d (v_u st)).
    set (P1 := fun st : shv => wpost d (sc_w (v_u st))).
    assert (Hs0 : sinv d (sch_init fuel b w)) by (split; [exact Hw|apply ucr_open_ok]).
    assert (Hr0 : rinv d (shr_init fuel b w)) by (split; [exact Hw|apply urd_open_ok]).
    assert (Hcl : forall st, P0 st -> P1 (shv_close st)).
    { intros st Hp. unfold P1, shv_close. cbn. apply sch_close_post. exact Hp. }
    destruct m; cbn [ehs_method].
    - destruct (try_stack _ _ _ _ _ _ _ _) as [[[d0 e] cbs] w'] eqn:Ht. cbn [y_logs y_closes].
      apply wpost_logs. eapply try_stack_post; [exact Ht|exact Hw|lia].
    - destruct (into_writer_cr _ _ fuel _) as [[out e] st] eqn:Ht. cbn [y_logs y_closes].
      apply wpost_logs.
      eapply (into_writer_cr_ok _ _ _ P0 P1 (fun s r s' => shv_read_inv d _ s r s') Hcl) in Ht; [exact Ht|exact Hs0].
    - destruct (try_stack _ _ _ _ _ _ _ _) as [[[d0 e] cbs] w'] eqn:Ht. cbn [y_logs y_closes].
      apply wpost_logs. eapply try_stack_post; [exact Ht|exact Hw|lia].
    - destruct (valid_offset (g_size cfg) off).
      + assert (Hrd : forall s r s', shv_read H cfg fuel max s = (r, s') -> P0 s -> P0 s')
          by (intros s r s'; apply shv_read_inv).
        pose proof (offset_init_ok _ _ (shv_close) P0 P1 Hrd Hcl fuel off (vinit cfg (sch_init fuel b w)) Hs0) as Hi.
        assert (Hor := offset_read_ok _ (shv_read H cfg fuel max) P0 P1 Hrd).
        destruct (drain _ fuel [] _) as [[out e] o] eqn:Hd.
        eapply (drain_pres _ _ (ost_ok P0 P1) Hor) in Hd; [|exact Hi].
        destruct (extra_reads _ extra o) as [ex o2] eqn:He.
        eapply (extra_reads_pres _ _ (ost_ok P0 P1) Hor) in He; [|exact Hd].
        cbn [y_logs y_closes]. apply wpost_logs.
        apply (offset_close_ok _ shv_close P0 P1 Hcl). exact He.
      + cbn [y_logs y_closes]. apply wpost_logs. apply discarded_post. exact Hw.
    - destruct (rconsume _ fuel caps _ [] _) as [[out e] st] eqn:Hc.
      assert (Hrd : forall cap s r s', shrv_read H cfg fuel cap s = (r, s') ->
                                       rinv d (v_u s) -> rinv d (v_u s'))
        by (intros cap s r s'; apply shrv_read_inv).
      eapply (rconsume_pres _ _ (fun st : shrv => rinv d (v_u st)) Hrd) in Hc; [|exact Hr0].
      destruct (rextra _ extra _ st) as [ex st2] eqn:He.
      eapply (rextra_pres _ _ (fun st : shrv => rinv d (v_u st)) Hrd) in He; [|exact Hc].
      cbn [y_logs y_closes]. apply wpost_logs. cbn. apply shr_close_post. exact He.
    - destruct (try_stack _ _ _ _ _ _ _ _) as [[[d0 e] cbs] w'] eqn:Ht.
      assert (Hp : wpost d w') by (eapply try_stack_post; [exact Ht|exact Hw|lia]).
      destruct e; cbn [y_logs y_closes]; apply wpost_logs; exact Hp.
    - cbn [y_logs y_closes]. apply wpost_logs. apply discarded_post. exact Hw.
  Qed.

  Lemma stack_handlers_inv : forall hs b w b' w' d,
    stack_handlers b w hs = (b', w') -> winv d w -> Forall quiet hs ->
    winv (d + length hs) w'.
  Proof.
    induction hs as [|h rest IH]; intros b w b' w' d Hs Hw Hq; cbn [stack_handlers] in Hs.
    - inv Hs. cbn. rewrite Nat.add_0_r. exact Hw.
    - inversion Hq as [|h0 l0 Hqh Hqr]; subst. destruct Hw as [Hd Ha Hc Hl].
      cbn [length]. replace (d + S (length rest))%nat with (S d + length rest)%nat by lia.
      destruct (w_act w) as [|a0 arest] eqn:Eact.
      + destruct (with_error_handler _ b h) as [r h'] eqn:Hweh.
        pose proof (weh_done _ _ _ _ _ Hweh ltac:(lia) Hqh) as Hcnt.
        destruct r as [b1|b1]; eapply IH; try exact Hs; try exact Hqr.
        * constructor; cbn [w_dn w_act w_closed];
            [exact Hd|constructor; [exact Hcnt|constructor]|exact Hc|cbn [length] in *; lia].
        * constructor; cbn [w_dn w_act w_closed];
            [apply Forall_app; split; [exact Hd|constructor; [exact Hcnt|constructor]]
            |constructor|exact Hc|rewrite app_length; cbn [length] in *; lia].
      + eapply IH; [exact Hs| |exact Hqr]. constructor; cbn [w_dn w_act w_closed];
          [exact Hd|apply Forall_app; split; [exact Ha|constructor; [exact Hqh|constructor]]
          |exact Hc|rewrite app_length; cbn [length] in *; lia].
  Qed.

  Theorem run_stack_good b0 anss m : good (length anss) (run_stack H cfg fuel b0 anss m).
  Proof.
    unfold run_stack.
    destruct (stack_handlers b0 _ _) as [b w] eqn:Hs.
    eapply (stack_handlers_inv _ _ _ _ _ 0%nat) in Hs.
    - rewrite map_length in Hs. cbn [Nat.add] in Hs. destruct (w_act w) eqn:Eact.
      + destruct Hs as [Hd Ha Hc Hl]. unfold good. cbn [y_logs y_closes]. unfold logs_of.
        rewrite Eact in *. rewrite app_nil_r, map_length. cbn in Hl. rsplit.
        * lia.
        * apply Forall_map. exact Hd.
        * apply all_one_app; [exact Hc|apply plain_closed_once].
      + apply ehs_method_good. exact Hs.
    - constructor; cbn; auto; constructor.
    - apply Forall_map. apply Forall_forall. intros a _. reflexivity.
  Qed.

  Corollary run_stack_done_every_level b0 anss m :
    length (y_logs (run_stack H cfg fuel b0 anss m)) = length anss /\
    Forall (fun log => count_done log = 1%nat) (y_logs (run_stack H cfg fuel b0 anss m)).
  Proof. destruct (run_stack_good b0 anss m) as (Hl & Hd & _). split; assumption. Qed.
  Corollary run_stack_closed_once b0 anss m :
    Forall (fun n => n = 1%nat) (y_closes (run_stack H cfg fuel b0 anss m)).
  Proof. destruct (run_stack_good b0 anss m) as (_ & _ & Hc). exact Hc. Qed.
End StackProofs.

(** * The offering rule for stacks ([escalate]).

    [offering e act r passed act']: [e] is offered to the innermost active
    handler; an error answer [c] of a handler is what the next outer handler
    is offered; the handlers above one that answers with a replacement are
    not asked; each handler asked is asked once (its log grows by exactly this
    one call); the error answer of the outermost handler is the result. *)
Inductive offering : err -> list hst -> option bufscript * err -> list hst -> list hst -> Prop :=
| of_none e : offering e [] (None, e) [] []
| of_replace e h b rest :
    fst (on_error h e) = Replace b ->
    offering e (h :: rest) (Some b, e) [] (snd (on_error h e) :: rest)
| of_fail e h c rest r passed act' :
    fst (on_error h e) = Fail c ->
    offering (ECode c) rest r passed act' ->
    offering e (h :: rest) r (snd (on_error h e) :: passed) act'.

Theorem escalate_offering : forall act e,
  let '(r, passed, act') := escalate e act in offering e act r passed act'.
Proof.
  induction act as [|h rest IH]; intros e; cbn [escalate]; [constructor|].
  destruct (on_error h e) as [a h'] eqn:Ho. destruct a as [b|c].
  - replace h' with (snd (on_error h e)) by (rewrite Ho; reflexivity).
    apply of_replace. rewrite Ho. reflexivity.
  - specialize (IH (ECode c)). destruct (escalate (ECode c) rest) as [[r p] a'].
    replace h' with (snd (on_error h e)) by (rewrite Ho; reflexivity).
    eapply of_fail; [rewrite Ho; reflexivity|exact IH].
Qed.

(** what the handlers asked have been offered, innermost first: the chain
    [e], then the error answer of each handler in turn *)
Fixpoint offer_chain (e : err) (act : list hst) : list err :=
  match act with
  | [] => []
  | h :: rest => e :: match fst (on_error h e) with Fail c => offer_chain (ECode c) rest | Replace _ => [] end
  end.
Fixpoint grow (hs : list hst) (es : list err) : list (list hev) :=
  match hs, es with
  | h :: hs', e :: es' => (h_log h ++ [HOnError e]) :: grow hs' es'
  | _, _ => map h_log hs
  end.
(** the logs of all handlers after [escalate]: every handler asked has
    received exactly one further OnError, with the error of the chain; the
    others none *)
Theorem escalate_logs : forall act e r passed act',
  escalate e act = (r, passed, act') ->
  map h_log (passed ++ act') = grow act (offer_chain e act) \/
  (fst r = None /\ act' = [] /\ map h_log passed = grow act (offer_chain e act)).
Proof.
  induction act as [|h rest IH]; intros e r passed act' He; cbn [escalate] in He.
  - inv He. left. reflexivity.
  - pose proof (on_error_log h e) as Hl. destruct (on_error h e) as [a h'] eqn:Ho. cbn [snd] in Hl.
    cbn [offer_chain grow]. rewrite Ho. cbn [fst].
    destruct a as [b|c].
    + inv He. left. cbn [app map]. rewrite Hl. f_equal. destruct rest; reflexivity.
    + destruct (escalate (ECode c) rest) as [[r0 p] a'] eqn:Hr. inv He.
      destruct (IH _ _ _ _ Hr) as [Hx|(Hn & -> & Hx)].
      * left. cbn [app map]. rewrite Hl, Hx. reflexivity.
      * left. cbn [app map]. rewrite app_nil_r in *. rewrite Hl, Hx. reflexivity.
Qed.
