(** C09 — the validating chunk reader over ANY underlying chunk reader:
    completion implies validity, the final portion is withheld, callbacks
    are sound, errors are sticky and have one of three origins. *)
From Coq Require Import List ZArith NArith Bool Lia.
From BBS Require Import Buffer.Source Buffer.Validate Buffer.StreamProofs.
Import ListNotations.
Open Scope N_scope.

Ltac inv H := inversion H; subst; clear H.
Ltac rsplit := repeat match goal with |- _ /\ _ => split end.

Section VcrProofs.
  Variable H : bytes -> bytes.
  Variable cfg : vcfg.
  Variable S : Type.
  Variable rd : S -> (bytes * err) * S.
  Variable fuel : nat.

  Notation vrd := (vcr_read H cfg rd fuel).

  (** The stream of the underlying reader, read from [s0] to its first
      error, ends with io.EOF and has the digest's size and hash. *)
  Definition valid_stream (s0 : S) : Prop :=
    exists bs s', drains rd s0 bs EEof s' /\ lenN bs = g_size cfg /\ g_hash cfg = H bs.

  Definition cb_ok (s0 : S) (cbs : list bool) : Prop :=
    (In true cbs -> valid_stream s0) /\ (In false cbs -> ~ valid_stream s0).

  (** where a failure [e] of the validated stream can come from *)
  Definition origin (s0 : S) (e : err) : Prop :=
    e = EFuel \/ (e = ECode (g_code cfg) /\ ~ valid_stream s0) \/
    (e <> EEof /\ exists bs u', drains rd s0 bs e u').

  Lemma cb_ok_true s0 cbs : cb_ok s0 cbs -> valid_stream s0 -> cb_ok s0 (cbs ++ [true]).
  Proof.
    intros [Ht Hf] Hv. split; intros Hin; [exact Hv|].
    apply in_app_or in Hin. destruct Hin as [Hin|[Hin|[]]]; [auto|discriminate].
  Qed.
  Lemma cb_ok_false s0 cbs : cb_ok s0 cbs -> ~ valid_stream s0 -> cb_ok s0 (cbs ++ [false]).
  Proof.
    intros [Ht Hf] Hv. split; intros Hin; [|exact Hv].
    apply in_app_or in Hin. destruct Hin as [Hin|[Hin|[]]]; [auto|discriminate].
  Qed.

  Lemma too_long_invalid s0 bs u : pulls rd s0 bs u -> g_size cfg < lenN bs -> ~ valid_stream s0.
  Proof.
    intros Hp Hl (full & s' & Hd & Hs & _).
    destruct (pulls_prefix_drains _ _ _ _ _ _ _ _ Hp Hd) as (rest & -> & _).
    rewrite lenN_app in Hs. lia.
  Qed.

  Lemma finalize_loop_spec s0 : forall f st e st',
    finalize_loop H cfg rd f st = (e, st') ->
    pulls rd s0 (v_acc st) (v_u st) -> lenN (v_acc st) = g_size cfg -> v_rem st = 0 ->
    cb_ok s0 (v_cbs st) ->
    e <> ENone /\ v_acc st' = v_acc st /\ v_rem st' = v_rem st /\ v_err st' = v_err st /\
    cb_ok s0 (v_cbs st') /\
    (e = EEof -> drains rd s0 (v_acc st) EEof (v_u st') /\ g_hash cfg = H (v_acc st)) /\
    (e <> EEof -> origin s0 e).
  Proof.
    induction f as [|f IH]; intros st e st' Hf Hp Hl Hr Hc; cbn [finalize_loop] in Hf.
    - inv Hf. rsplit; auto; try congruence. intros _. left. reflexivity.
    - destruct (rd (v_u st)) as [[chunk e0] u'] eqn:Hrd.
      destruct e0.
      + (* another chunk *)
        cbn [v_set_u v_rem] in Hf. rewrite Hr in Hf.
        destruct (0 <? lenN chunk) eqn:Hlt.
        * apply N.ltb_lt in Hlt. unfold v_fail in Hf. inv Hf. cbn.
          assert (Hnv : ~ valid_stream s0).
          { eapply too_long_invalid; [eapply pulls_snoc; eassumption|]. rewrite lenN_app. lia. }
          rsplit; auto; try congruence.
          -- apply cb_ok_false; assumption.
          -- intros _. right. left. auto.
        * apply N.ltb_ge in Hlt. assert (chunk = []) by (apply lenN_zero; lia). subst chunk.
          apply IH in Hf; cbn; auto.
          rewrite <- (app_nil_r (v_acc st)). eapply pulls_snoc; eassumption.
      + (* EOF: compare checksums *)
        assert (Hd : drains rd s0 (v_acc st) EEof u').
        { rewrite <- (app_nil_r (v_acc st)). eapply pulls_drains; [eassumption|].
          eapply drains_end; [eassumption|congruence]. }
        cbn [v_set_u v_acc] in Hf.
        destruct (bytes_eqb (g_hash cfg) (H (v_acc st))) eqn:Hh.
        * apply bytes_eqb_eq in Hh. inv Hf. cbn. rsplit; auto; try congruence.
          apply cb_ok_true; [assumption|]. exists (v_acc st), u'. auto.
        * unfold v_fail in Hf. inv Hf. cbn.
          assert (Hnv : ~ valid_stream s0).
          { intros (full & s' & Hd' & _ & Hh').
            destruct (drains_det _ _ _ _ _ _ _ _ _ Hd Hd') as (<- & _).
            apply bytes_eqb_eq in Hh'. congruence. }
          rsplit; auto; try congruence.
          -- apply cb_ok_false; assumption.
          -- intros _. right. left. auto.
      + inv Hf. cbn. rsplit; auto; try congruence. intros _. right. right.
        split; [congruence|]. exists (v_acc st ++ []), u'.
        eapply pulls_drains; [eassumption|]. eapply drains_end; [eassumption|congruence].
      + inv Hf. cbn. rsplit; auto; try congruence. intros _. right. right.
        split; [congruence|]. exists (v_acc st ++ []), u'.
        eapply pulls_drains; [eassumption|]. eapply drains_end; [eassumption|congruence].
      + inv Hf. cbn. rsplit; auto; try congruence. intros _. left. reflexivity.
  Qed.

  (** The invariant that links a validator state to what its consumer has
      received so far ([out]) and to the underlying stream from [s0]. *)
  Definition Inv (s0 : S) (st : vst S) (out : bytes) : Prop :=
    cb_ok s0 (v_cbs st) /\
    match v_err st with
    | ENone => pulls rd s0 out (v_u st) /\ v_acc st = out /\
               v_rem st + lenN out = g_size cfg /\ (0 < v_rem st \/ out = [])
    | EEof => (exists u, drains rd s0 out EEof u) /\ lenN out = g_size cfg /\ g_hash cfg = H out
    | e => (lenN out < g_size cfg \/ out = []) /\ origin s0 e
    end.

  Lemma Inv_init u0 : Inv u0 (vinit cfg u0) [].
  Proof.
    split; [split; intros []|]. cbn. rsplit; auto; [apply pulls_nil|unfold lenN; cbn; lia].
  Qed.

  Lemma maybe_finalize_spec s0 st e st' :
    maybe_finalize H cfg rd fuel st = (e, st') ->
    pulls rd s0 (v_acc st) (v_u st) -> v_rem st + lenN (v_acc st) = g_size cfg ->
    cb_ok s0 (v_cbs st) ->
    v_acc st' = v_acc st /\ v_rem st' = v_rem st /\ v_err st' = v_err st /\ cb_ok s0 (v_cbs st') /\
    match e with
    | ENone => st' = st /\ 0 < v_rem st
    | EEof => v_rem st = 0 /\ drains rd s0 (v_acc st) EEof (v_u st') /\ g_hash cfg = H (v_acc st)
    | _ => v_rem st = 0 /\ origin s0 e
    end.
  Proof.
    unfold maybe_finalize. intros Hf Hp Hl Hc.
    destruct (0 <? v_rem st) eqn:Hlt.
    - inv Hf. apply N.ltb_lt in Hlt. rsplit; auto.
    - apply N.ltb_ge in Hlt. assert (Hr : v_rem st = 0) by lia.
      destruct (finalize_loop_spec s0 _ _ _ _ Hf Hp) as (Hne & Ha & Hr' & He & Hc' & Heof & Hor); auto; [lia|].
      rsplit; auto.
      destruct e; try congruence; try (split; [assumption|apply Hor; congruence]).
      destruct Heof; auto.
  Qed.

  Lemma vcr_read_step s0 st out c e st' :
    Inv s0 st out -> vrd st = ((c, e), st') ->
    match e with
    | ENone => Inv s0 st' (out ++ c)
    | _ => c = [] /\ v_err st' = e /\ Inv s0 st' out
    end.
  Proof.
    intros [Hc Hi] Hr. unfold vcr_read in Hr.
    destruct (v_err st) eqn:Herr;
      try (inv Hr; rsplit; auto; unfold Inv; rewrite Herr; auto).
    destruct Hi as (Hp0 & <- & Hl0 & Hpos).
    unfold vcr_do_read in Hr.
    destruct (maybe_finalize H cfg rd fuel st) as [e0 st0] eqn:Hmf.
    destruct (maybe_finalize_spec s0 _ _ _ Hmf Hp0 Hl0 Hc) as (Ha0 & Hr0 & He0 & Hc0 & Hm).
    assert (Hbound : lenN (v_acc st) < g_size cfg \/ v_acc st = [])
      by (destruct Hpos; [left; lia|right; assumption]).
    destruct e0.
    - (* no finalization yet: read the next chunk *)
      destruct Hm as (-> & Hrem).
      destruct (rd (v_u st)) as [[chunk e1] u'] eqn:Hrd.
      destruct e1.
      + cbn [v_set_u v_rem v_u v_acc v_err v_cbs] in Hr.
        destruct (v_rem st <? lenN chunk) eqn:Hlt.
        * (* too big *)
          apply N.ltb_lt in Hlt. cbn in Hr. inv Hr. cbn.
          assert (Hnv : ~ valid_stream s0).
          { eapply too_long_invalid; [eapply pulls_snoc; eassumption|]. rewrite lenN_app. lia. }
          rsplit; auto. split; [apply cb_ok_false; assumption|]. cbn.
          split; [assumption|]. right. left. auto.
        * apply N.ltb_ge in Hlt.
          set (st1 := mkVst u' (v_rem st - lenN chunk) (v_acc st ++ chunk) (v_err st) (v_cbs st)) in *.
          destruct (maybe_finalize H cfg rd fuel st1) as [e2 st2] eqn:Hmf2.
          assert (Hp1 : pulls rd s0 (v_acc st1) (v_u st1)).
          { subst st1. cbn. eapply pulls_snoc; eassumption. }
          assert (Hl1 : v_rem st1 + lenN (v_acc st1) = g_size cfg).
          { subst st1. cbn. rewrite lenN_app. lia. }
          assert (Hc1 : cb_ok s0 (v_cbs st1)) by (subst st1; exact Hc).
          destruct (maybe_finalize_spec s0 _ _ _ Hmf2 Hp1 Hl1 Hc1) as (Ha2 & Hr2 & He2 & Hc2 & Hm2).
          assert (Eacc : v_acc st1 = v_acc st ++ chunk) by reflexivity.
          assert (Erem : v_rem st1 = v_rem st - lenN chunk) by reflexivity.
          assert (Eerr : v_err st1 = ENone) by exact Herr.
          clearbody st1.
          destruct e2; inv Hr.
          -- destruct Hm2 as (-> & Hpos2). split; [exact Hc1|].
             cbn [v_set_err v_err v_u v_acc v_rem].
             rewrite <- Eacc. rsplit; auto.
          -- destruct Hm2 as (Hz & Hd & Hh). split; [exact Hc2|]. cbn [v_set_err v_err].
             rewrite Eacc in *. split; [eauto|]. split; [|assumption]. rewrite lenN_app in *. lia.
          -- destruct Hm2 as (Hz & Hor). rsplit; auto. split; [exact Hc2|]. cbn [v_set_err v_err]. auto.
          -- destruct Hm2 as (Hz & Hor). rsplit; auto. split; [exact Hc2|]. cbn [v_set_err v_err]. auto.
          -- destruct Hm2 as (Hz & Hor). rsplit; auto. split; [exact Hc2|]. cbn [v_set_err v_err]. auto.
      + (* premature EOF *)
        cbn in Hr. inv Hr. cbn.
        assert (Hd : drains rd s0 (v_acc st) EEof u').
        { rewrite <- (app_nil_r (v_acc st)). eapply pulls_drains; [eassumption|].
          eapply drains_end; [eassumption|congruence]. }
        assert (Hnv : ~ valid_stream s0).
        { intros (full & s' & Hd' & Hs' & _).
          destruct (drains_det _ _ _ _ _ _ _ _ _ Hd Hd') as (<- & _). lia. }
        rsplit; auto. split; [apply cb_ok_false; assumption|]. cbn.
        split; [assumption|]. right. left. auto.
      + inv Hr. cbn. rsplit; auto. split; [assumption|]. cbn. split; [assumption|].
        right. right. split; [congruence|]. exists (v_acc st ++ []), u'.
        eapply pulls_drains; [eassumption|]. eapply drains_end; [eassumption|congruence].
      + inv Hr. cbn. rsplit; auto. split; [assumption|]. cbn. split; [assumption|].
        right. right. split; [congruence|]. exists (v_acc st ++ []), u'.
        eapply pulls_drains; [eassumption|]. eapply drains_end; [eassumption|congruence].
      + inv Hr. cbn. rsplit; auto. split; [assumption|]. cbn. split; [assumption|].
        left. reflexivity.
    - (* finalized at once: an empty blob *)
      destruct Hm as (Hz & Hd & Hh). inv Hr. cbn. rsplit; auto.
      split; [assumption|]. cbn. split; [eauto|]. split; [lia|assumption].
    - destruct Hm as (Hz & Hor). inv Hr. cbn. rsplit; auto. split; [assumption|]. cbn. auto.
    - destruct Hm as (Hz & Hor). inv Hr. cbn. rsplit; auto. split; [assumption|]. cbn. auto.
    - destruct Hm as (Hz & Hor). inv Hr. cbn. rsplit; auto. split; [assumption|]. cbn. auto.
  Qed.

  Lemma vcr_pulls s0 st out bs st' :
    Inv s0 st out -> pulls vrd st bs st' -> Inv s0 st' (out ++ bs).
  Proof.
    intros Hi Hp. revert out Hi. induction Hp as [st|st c st1 bs st2 Hr _ IH]; intros out Hi.
    - now rewrite app_nil_r.
    - rewrite app_assoc. apply IH. exact (vcr_read_step _ _ _ _ _ _ Hi Hr).
  Qed.

  Lemma vcr_drains s0 st out bs e st' :
    Inv s0 st out -> drains vrd st bs e st' -> Inv s0 st' (out ++ bs) /\ v_err st' = e.
  Proof.
    intros Hi Hd. revert out Hi. induction Hd as [st c e st1 Hr Hne|st c st1 bs e st2 Hr _ IH]; intros out Hi.
    - pose proof (vcr_read_step _ _ _ _ _ _ Hi Hr) as Hs. rewrite app_nil_r.
      destruct e; try congruence; destruct Hs as (_ & He & Hi'); auto.
    - rewrite app_assoc. apply IH. exact (vcr_read_step _ _ _ _ _ _ Hi Hr).
  Qed.

  (** ** The theorems *)

  (** Completion: the validated stream reaches io.EOF after handing out
      [out] only if the underlying stream is exactly [out], ends with io.EOF,
      and has the digest's size and hash. *)
  Theorem vcr_complete_implies_valid u0 out st' :
    drains vrd (vinit cfg u0) out EEof st' ->
    (exists u, drains rd u0 out EEof u) /\ lenN out = g_size cfg /\ g_hash cfg = H out.
  Proof.
    intros Hd. destruct (vcr_drains _ _ _ _ _ _ (Inv_init u0) Hd) as [[_ Hi] He].
    rewrite He in Hi. exact Hi.
  Qed.

  (** Withholding: whatever number of reads the consumer performs, if the
      underlying stream is not valid it has received fewer than [size] bytes
      (nothing at all for an empty digest). *)
  Theorem vcr_withhold u0 out st' :
    pulls vrd (vinit cfg u0) out st' -> ~ valid_stream u0 -> lenN out < g_size cfg \/ out = [].
  Proof.
    intros Hp Hnv. destruct (vcr_pulls _ _ _ _ _ (Inv_init u0) Hp) as [_ Hi]. cbn [app] in Hi.
    destruct (v_err st').
    - destruct Hi as (_ & _ & Hl & [Hpos|Hn]); [left; lia|right; assumption].
    - destruct Hi as ((u & Hd) & Hl & Hh). exfalso. apply Hnv. exists out, u. auto.
    - tauto.
    - tauto.
    - tauto.
  Qed.

  (** Callback soundness in every reachable state. *)
  Theorem vcr_callback_sound u0 out st' :
    pulls vrd (vinit cfg u0) out st' ->
    (In true (v_cbs st') -> valid_stream u0) /\ (In false (v_cbs st') -> ~ valid_stream u0).
  Proof. intros Hp. exact (proj1 (vcr_pulls _ _ _ _ _ (Inv_init u0) Hp)). Qed.

  Theorem vcr_callback_sound_end u0 out e st' :
    drains vrd (vinit cfg u0) out e st' ->
    (In true (v_cbs st') -> valid_stream u0) /\ (In false (v_cbs st') -> ~ valid_stream u0).
  Proof. intros Hd. exact (proj1 (proj1 (vcr_drains _ _ _ _ _ _ (Inv_init u0) Hd))). Qed.

  (** Where a failure comes from: the source's own first error is passed
      through; otherwise the code is the Source's and the stream is invalid. *)
  Theorem vcr_error_origin u0 out e st' :
    drains vrd (vinit cfg u0) out e st' -> e <> EEof ->
    e = EFuel \/ (e = ECode (g_code cfg) /\ ~ valid_stream u0) \/
    (exists bs u', drains rd u0 bs e u').
  Proof.
    intros Hd Hne. pose proof (drains_not_none _ _ _ _ _ _ Hd) as Hnn.
    destruct (vcr_drains _ _ _ _ _ _ (Inv_init u0) Hd) as [[_ Hi] He]. rewrite He in Hi.
    destruct e; try congruence; destruct Hi as (_ & [?|[?|[_ ?]]]); auto.
  Qed.

  (** A stream that ends cleanly but is invalid fails with the Source's code. *)
  Theorem vcr_mismatch_code u0 content uend out e st' :
    drains rd u0 content EEof uend -> ~ valid_stream u0 ->
    drains vrd (vinit cfg u0) out e st' -> e = ECode (g_code cfg) \/ e = EFuel.
  Proof.
    intros Hsrc Hnv Hd.
    destruct (err_eqb e EEof) eqn:Ee.
    - destruct e; try discriminate. exfalso. apply Hnv.
      destruct (vcr_complete_implies_valid _ _ _ Hd) as ((u & Hdu) & Hl & Hh). exists out, u. auto.
    - assert (Hne : e <> EEof) by (intros ->; discriminate).
      destruct (vcr_error_origin _ _ _ _ Hd Hne) as [->|[[-> _]|(bs & u' & Hd')]]; auto.
      destruct (drains_det _ _ _ _ _ _ _ _ _ Hsrc Hd') as (_ & <- & _). congruence.
  Qed.

  (** Stickiness: once a read has reported an error (io.EOF included) every
      later read reports the same error and no data. *)
  Theorem vcr_sticky st c e st' :
    vrd st = ((c, e), st') -> e <> ENone ->
    c = [] /\ vrd st' = (([], e), st').
  Proof.
    intros Hr Hne. unfold vcr_read in Hr.
    destruct (v_err st) eqn:Herr.
    - destruct (vcr_do_read H cfg rd fuel st) as [[chunk e1] st1].
      destruct e1.
      + destruct (maybe_finalize H cfg rd fuel st1) as [e2 st2].
        destruct e2; inv Hr; try congruence; split; auto.
      + inv Hr. split; auto.
      + inv Hr. split; auto.
      + inv Hr. split; auto.
      + inv Hr. split; auto.
    - inv Hr. split; auto. unfold vcr_read. now rewrite Herr.
    - inv Hr. split; auto. unfold vcr_read. now rewrite Herr.
    - inv Hr. split; auto. unfold vcr_read. now rewrite Herr.
    - inv Hr. split; auto. unfold vcr_read. now rewrite Herr.
  Qed.
End VcrProofs.
Arguments valid_stream H cfg {S}. Arguments cb_ok H cfg {S}. Arguments origin H cfg {S}.
