(** C09 (completion) — NewCASBufferFromReader, the "otherwise" half for EVERY
    consumption method: callback verdicts sound in every case; for invalid
    content the error is [expected_err] and fewer than [size] bytes (counted
    from the method's offset) are handed out; bad parameters are rejected. *)
From Coq Require Import List ZArith NArith Bool Lia.
From BBS Require Import Common.Sx Buffer.Source Buffer.Validate Buffer.Convert Buffer.StreamProofs
  Buffer.ValidateProofs Buffer.ValidateReaderProofs Buffer.ConvertProofs Buffer.ReaderBufferProofs
  Buffer.C09FullValidate Buffer.C09FullCombinators Buffer.C09FullReader Buffer.C09FullChunk Run.R09.
Import ListNotations.
Open Scope N_scope.

(** * Every method depends on the validated reader only through its reads *)
Section ReaderAgree.
  Variables H1 H2 : bytes -> bytes.
  Variable cfg : vcfg.
  Variable fuel : nat.
  Variable P : rvs -> Prop.
  Hypothesis Hag : ragree P (rv_read H1 cfg fuel) (rv_read H2 cfg fuel).
  Hypothesis Hcl : forall s, P s -> P (rv_close s).

  Lemma to_byte_slice_r_agree max st : P st ->
    same P (to_byte_slice_r H1 cfg fuel max st) (to_byte_slice_r H2 cfg fuel max st).
  Proof.
    intros Hs. unfold to_byte_slice_r. destruct (max <? g_size cfg); [apply same_refl; cbn [snd]; auto|].
    destruct (0 <? g_size cfg).
    - destruct (read_full_agree _ P _ _ Hag fuel (g_size cfg) st Hs) as [E Hp]. rewrite <- E.
      destruct (read_full (rv_read H1 cfg fuel) fuel (g_size cfg) st) as [[data e] st1]. cbn [snd] in Hp.
      apply same_refl. cbn [snd]. auto.
    - destruct (Hag 0 st Hs) as [E Hp]. rewrite <- E.
      destruct (rv_read H1 cfg fuel 0 st) as [[d e] st1]. cbn [snd] in Hp.
      apply same_refl. cbn [snd]. auto.
  Qed.

  Lemma cas_reader_agree evs attach m : P (rv_init cfg evs attach) ->
    cas_reader H1 cfg fuel evs attach m = cas_reader H2 cfg fuel evs attach m /\
    exists stf, P stf /\ o_cbs (cas_reader H1 cfg fuel evs attach m) = v_cbs stf.
  Proof.
    intros H0. destruct m; cbn [cas_reader].
    - destruct (to_byte_slice_r_agree max _ H0) as [E Hp]. rewrite <- E.
      destruct (to_byte_slice_r H1 cfg fuel max (rv_init cfg evs attach)) as [[out e] st].
      split; [reflexivity|]. exists st. split; [exact Hp|reflexivity].
    - destruct (copy_agree _ P _ _ Hag fuel _ H0) as [E Hp]. rewrite <- E.
      destruct (copy (rv_read H1 cfg fuel) fuel (rv_init cfg evs attach)) as [[out e] st]. cbn [snd] in Hp.
      split; [reflexivity|]. exists (rv_close st). split; [auto|reflexivity].
    - destruct (discard_from_reader_agree _ P _ _ Hag fuel off _ H0) as [E Hp]. rewrite <- E.
      destruct (discard_from_reader (rv_read H1 cfg fuel) fuel off (rv_init cfg evs attach)) as [e0 st]. cbn [snd] in Hp.
      destruct e0; try (split; [reflexivity|]; exists (rv_close st); split; [auto|reflexivity]).
      destruct (read_full_agree _ P _ _ Hag fuel plen st Hp) as [E2 Hp2]. rewrite <- E2.
      destruct (read_full (rv_read H1 cfg fuel) fuel plen st) as [[got e] st1]. cbn [snd] in Hp2.
      destruct e; try (split; [reflexivity|]; exists (rv_close st1); split; [auto|reflexivity]).
      destruct (copy_agree _ P _ _ Hag fuel st1 Hp2) as [E3 Hp3]. rewrite <- E3.
      destruct (copy (rv_read H1 cfg fuel) fuel st1) as [[w e2] st2]. cbn [snd] in Hp3.
      destruct e2; (split; [reflexivity|]; exists (rv_close st2); split; [auto|reflexivity]).
    - destruct (valid_offset (g_size cfg) off).
      + destruct (discard_from_reader_agree _ P _ _ Hag fuel off _ H0) as [E Hp]. rewrite <- E.
        destruct (discard_from_reader (rv_read H1 cfg fuel) fuel off (rv_init cfg evs attach)) as [e0 st]. cbn [snd] in Hp.
        destruct e0; try (split; [reflexivity|]; exists (rv_close st); split; [auto|reflexivity]).
        pose proof (rb_read_agree _ P _ _ Hag fuel max) as Hagb.
        destruct (drain_agree _ _ _ _ Hagb fuel [] (mkRbst st ENone) Hp) as [E2 Hs]. rewrite <- E2.
        destruct (drain (rb_read (rv_read H1 cfg fuel) fuel max) fuel [] (mkRbst st ENone)) as [[out e] s]. cbn [snd] in Hs.
        destruct (extra_reads_agree _ _ _ _ Hagb extra s Hs) as [E3 Hs2]. rewrite <- E3.
        destruct (extra_reads (rb_read (rv_read H1 cfg fuel) fuel max) extra s) as [ex s2]. cbn [snd] in Hs2.
        split; [reflexivity|]. exists (rv_close (rb_u s2)). split; [apply Hcl; exact Hs2|reflexivity].
      + split; [reflexivity|]. exists (rv_close (rv_init cfg evs attach)). split; [auto|reflexivity].
    - destruct (rconsume_agree _ P _ _ Hag fuel caps (last_cap caps) [] _ H0) as [E Hs]. rewrite <- E.
      destruct (rconsume (rv_read H1 cfg fuel) fuel caps (last_cap caps) [] (rv_init cfg evs attach)) as [[out e] st].
      cbn [snd] in Hs.
      destruct (rextra_agree _ P _ _ Hag extra (last_cap caps) st Hs) as [E2 Hs2]. rewrite <- E2.
      destruct (rextra (rv_read H1 cfg fuel) extra (last_cap caps) st) as [ex st2]. cbn [snd] in Hs2.
      split; [reflexivity|]. exists (rv_close st2). split; [auto|reflexivity].
    - destruct (to_byte_slice_r_agree max _ H0) as [E Hp]. rewrite <- E.
      destruct (to_byte_slice_r H1 cfg fuel max (rv_init cfg evs attach)) as [r st].
      split; [reflexivity|]. exists st. split; [exact Hp|].
      unfold clone_copy_of. destruct (snd r); reflexivity.
    - split; [reflexivity|]. exists (rv_close (rv_init cfg evs attach)). split; [auto|reflexivity].
  Qed.
End ReaderAgree.

Section ReaderTheorems.
  Variable H : bytes -> bytes.
  Variable cfg : vcfg.
  Variable fuel : nat.
  Notation vrd := (rv_read H cfg fuel).
  Notation expected evs := (expected_err cfg (fst (content evs)) (snd (content evs))).
  Notation RI3 := (RInv3 H cfg rsrc rcont).
  Notation RI2 := (RInv2 H cfg rsrc rcont).

  (** the set of validator states no consumption method leaves *)
  Definition Pr (evs : list ev) (attach : bool) (st : rvs) : Prop :=
    exists out, RI3 (mkRsrc evs attach 0) st out.

  Lemma Pr_init evs attach : Pr evs attach (rv_init cfg evs attach).
  Proof. exists []. apply RInv3_init. Qed.
  Lemma Pr_close evs attach st : Pr evs attach st -> Pr evs attach (rv_close st).
  Proof. intros (out & Hi). exists out. exact Hi. Qed.
  Lemma Pr_read evs attach : ragree (Pr evs attach) vrd vrd.
  Proof.
    intros cap st (out & Hi). split; [reflexivity|].
    destruct (vrd cap st) as [[d e] st'] eqn:Hr. cbn [snd]. exists (out ++ d). unfold rv_read in Hr.
    exact (vr_step3 H cfg rsrc rsrc_read fuel rcont rsrc_spec rsrc_no_unexp rsrc_cap _ _ _ _ _ _ _ Hi Hr).
  Qed.
  Lemma Pr_cbs evs attach st : Pr evs attach st ->
    (In true (v_cbs st) -> valid_script H cfg evs) /\ (In false (v_cbs st) -> ~ valid_script H cfg evs).
  Proof. intros (out & [[[Hc _] _] _]). exact Hc. Qed.

  (** what such a state says about an invalid script *)
  Lemma Pr_invalid evs attach st :
    Pr evs attach st -> ~ valid_script H cfg evs ->
    v_err st <> EEof /\ v_err st <> EUnexp /\
    (v_err st <> ENone -> v_err st <> EFuel -> v_err st = expected evs).
  Proof.
    intros (out & Hi) Hnv. pose proof Hi as [[_ Hnu] _].
    destruct (RInv3_invalid H cfg rsrc rcont _ _ _ Hi Hnv) as (_ & Hne & Hx). rsplit; auto.
  Qed.

  Lemma RI2_bound evs attach st out :
    RI2 (mkRsrc evs attach 0) st out -> ~ valid_script H cfg evs -> lenN out < g_size cfg \/ out = [].
  Proof.
    intros [[_ Hi] _] Hnv. destruct (v_err st); try tauto.
    - destruct Hi as (_ & _ & _ & Hl & [Hpos|Hn]); [left; lia|right; assumption].
    - exfalso. apply Hnv. destruct Hi as (Hc & Hl & Hh). unfold valid_script. unfold rcont in Hc. cbn in Hc.
      rewrite Hc. auto.
  Qed.

  (** ** callbacks: every method, every script, no hypothesis *)
  Theorem reader_callbacks_sound evs attach m :
    (In true (o_cbs (cas_reader H cfg fuel evs attach m)) -> valid_script H cfg evs) /\
    (In false (o_cbs (cas_reader H cfg fuel evs attach m)) -> ~ valid_script H cfg evs).
  Proof.
    destruct (cas_reader_agree H H cfg fuel (Pr evs attach) (Pr_read evs attach) (Pr_close evs attach) evs attach m
                (Pr_init evs attach)) as (_ & stf & Hp & ->).
    exact (Pr_cbs evs attach stf Hp).
  Qed.

  (** ** the reader-backed chunk reader reports the validator's sticky error *)
  Definition rb_tracks (s : rbst rvs) : Prop :=
    rb_err s = ENone \/ rb_err s = EFuel \/ v_err (rb_u s) = rb_err s.

  Lemma rb_read_tracks (P : rvs -> Prop) max s c e s' :
    (forall st, P st -> v_err st <> EUnexp) -> ragree P vrd vrd ->
    P (rb_u s) -> rb_tracks s -> rb_read vrd fuel max s = ((c, e), s') ->
    P (rb_u s') /\ rb_tracks s' /\ (e <> ENone -> e = rb_err s').
  Proof.
    intros Hnu Hag Hp Ht Hr. unfold rb_read in Hr.
    destruct (rb_err s) eqn:Ee; try (inv Hr; rsplit; auto; intros _; symmetry; exact Ee).
    destruct (read_full vrd fuel max (rb_u s)) as [[data e0] u'] eqn:Hrf.
    pose proof (read_full_agree _ P _ _ Hag fuel max (rb_u s) Hp) as [_ Hp'].
    rewrite Hrf in Hp'. cbn [snd] in Hp'.
    assert (Ht' : rb_tracks (mkRbst u' (match e0 with EUnexp => EEof | _ => e0 end))).
    { unfold rb_tracks. cbn [rb_err rb_u].
      destruct (err_eqb e0 ENone) eqn:E1; [destruct e0; try discriminate; left; reflexivity|].
      destruct (err_eqb e0 EFuel) eqn:E2; [destruct e0; try discriminate; right; left; reflexivity|].
      right. right.
      assert (Hn1 : e0 <> ENone) by (intros ->; discriminate).
      assert (Hn2 : e0 <> EFuel) by (intros ->; discriminate).
      unfold read_full, rv_read in Hrf.
      destruct (read_full_err H cfg rsrc rsrc_read fuel _ _ _ _ _ _ _ Hrf Hn1 Hn2) as [(-> & Hv)|Hv]; [exact Hv|].
      destruct e0; auto. exfalso. exact (Hnu _ Hp' Hv). }
    destruct (negb (is_nil data)); inv Hr; cbn [rb_u]; rsplit; auto; congruence.
  Qed.

  Lemma rb_drain_tracks (P : rvs -> Prop) max :
    (forall st, P st -> v_err st <> EUnexp) -> ragree P vrd vrd ->
    forall f out s out' e s',
    P (rb_u s) -> rb_tracks s -> drain (rb_read vrd fuel max) f out s = ((out', e), s') -> e <> EFuel ->
    P (rb_u s') /\ v_err (rb_u s') = e /\ e <> ENone.
  Proof.
    intros Hnu Hag. induction f as [|f IH]; intros out s out' e s' Hp Ht Hd Hnf; cbn [drain] in Hd; [inv Hd; congruence|].
    destruct (rb_read vrd fuel max s) as [[c e0] s1] eqn:Hr.
    destruct (rb_read_tracks P max _ _ _ _ Hnu Hag Hp Ht Hr) as (Hp1 & Ht1 & He1).
    assert (Hend : e0 <> ENone -> (out, e0, s1) = (out', e, s') -> P (rb_u s') /\ v_err (rb_u s') = e /\ e <> ENone).
    { intros Hne Hx. inv Hx. rsplit; auto. specialize (He1 Hne).
      destruct Ht1 as [Ht1|[Ht1|Ht1]]; congruence. }
    destruct e0; try (apply Hend; [congruence|exact Hd]).
    eapply IH; eassumption.
  Qed.

  (** ** invalid content, sane parameters: the error and the withheld tail *)
  Theorem reader_otherwise evs attach m o :
    m <> MDiscard -> cas_reader H cfg fuel evs attach m = o -> o_err o <> EFuel ->
    ~ valid_script H cfg evs -> bad_param (g_size cfg) m = false ->
    o_err o = expected evs /\
    (o_data o = [] \/ Z.to_N (m_off m) + lenN (o_data o) < g_size cfg) /\
    (streams m = false -> o_data o = []).
  Proof.
    intros Hm Ho Hnf Hnv Hbp.
    destruct (expected_not_done cfg evs) as (Hx1 & Hx2 & Hx3 & Hx4).
    assert (Hdone : completed m (o_err o) = false).
    { destruct (completed m (o_err o)) eqn:Hc; [|reflexivity]. exfalso. apply Hnv.
      exact (proj1 (reader_complete_implies_valid H cfg fuel evs attach m o Hm Ho Hc)). }
    set (s0 := mkRsrc evs attach 0) in *.
    pose proof (Pr_read evs attach) as Hag. pose proof (Pr_init evs attach) as HP0.
    pose proof (RI_init H cfg evs attach) as HI0.
    (* an error remembered by a reachable validator state is the expected one *)
    assert (Hexp : forall st e, Pr evs attach st -> v_err st = e -> e <> ENone -> e <> EFuel -> e = expected evs).
    { intros st e Hp <- Hn1 Hn2. exact (proj2 (proj2 (Pr_invalid _ _ _ Hp Hnv)) Hn1 Hn2). }
    assert (Hnunexp : forall st, Pr evs attach st -> v_err st <> EUnexp).
    { intros st Hp. exact (proj1 (proj2 (Pr_invalid _ _ _ Hp Hnv))). }
    assert (Hneof : forall st, Pr evs attach st -> v_err st <> EEof).
    { intros st Hp. exact (proj1 (Pr_invalid _ _ _ Hp Hnv)). }
    assert (Hslice : forall max r st, (max <? g_size cfg) = false ->
              to_byte_slice_r H cfg fuel max (rv_init cfg evs attach) = (r, st) ->
              snd r <> ENone -> snd r <> EFuel -> snd r = expected evs /\ fst r = []).
    { intros max r st Hmax Ht Hn1 Hn2. unfold to_byte_slice_r in Ht. rewrite Hmax in Ht.
      destruct (0 <? g_size cfg).
      - destruct (read_full vrd fuel (g_size cfg) (rv_init cfg evs attach)) as [[data e] st1] eqn:Hrf.
        pose proof (read_full_agree _ _ _ _ Hag fuel (g_size cfg) _ HP0) as [_ Hp1]. rewrite Hrf in Hp1. cbn [snd] in Hp1.
        inv Ht. cbn [fst snd] in *.
        destruct e; cbn [fst snd] in *; try congruence; (split; [|reflexivity]);
          unfold read_full, rv_read in Hrf;
          (destruct (read_full_err H cfg rsrc rsrc_read fuel _ _ _ _ _ _ _ Hrf ltac:(congruence) ltac:(congruence))
             as [(Hu & Hv)|Hv]; [try congruence; exfalso; exact (Hneof _ Hp1 Hv)|]);
          try (exfalso; exact (Hneof _ Hp1 Hv)); try (exfalso; exact (Hnunexp _ Hp1 Hv));
          eapply Hexp; try eassumption; congruence.
      - destruct (vrd 0 (rv_init cfg evs attach)) as [[d e] st1] eqn:Hv.
        pose proof (Hag 0 _ HP0) as [_ Hp1]. rewrite Hv in Hp1. cbn [snd] in Hp1.
        unfold rv_read in Hv. pose proof (vr_read_err H cfg rsrc rsrc_read fuel _ _ _ _ _ Hv) as He.
        injection Ht as <- <-. cbn [fst snd] in *. split; [|reflexivity].
        destruct e; try congruence; eapply Hexp; try eassumption; congruence. }
    destruct m; try congruence; cbn [cas_reader] in Ho; cbn [bad_param m_off streams completed] in *.
    - (* ToByteSlice *)
      destruct (to_byte_slice_r H cfg fuel max (rv_init cfg evs attach)) as [[out e] st] eqn:Ht. subst o.
      cbn [o_err o_data rv_out] in *.
      destruct (Hslice _ _ _ Hbp Ht) as (He & Hd); cbn [fst snd] in *;
        [destruct e; cbn in Hdone; congruence|exact Hnf|]. subst out. auto.
    - (* IntoWriter *)
      destruct (copy vrd fuel (rv_init cfg evs attach)) as [[out e] st] eqn:Hcp. subst o. cbn [o_err o_data rv_out] in *.
      pose proof (copy_agree _ _ _ _ Hag fuel _ HP0) as [_ Hp1]. rewrite Hcp in Hp1. cbn [snd] in Hp1.
      unfold copy, rv_read in Hcp.
      assert (Hn1 : e <> ENone) by (destruct e; cbn in Hdone; congruence).
      pose proof (copy_err H cfg rsrc rsrc_read fuel _ _ _ _ _ _ _ Hcp Hn1 Hnf) as Hv.
      destruct (copy_vr H cfg _ _ fuel rcont rsrc_spec rsrc_no_unexp rsrc_cap _ _ _ _ _ _ _ _ _ HI0 Hcp) as (R & -> & Hi & _).
      cbn [app] in *. rsplit; [eapply Hexp; eassumption| |discriminate].
      destruct (RI2_bound _ _ _ _ Hi Hnv) as [Hb|Hb]; [right; cbn; lia|left; exact Hb].
    - (* ReadAt *)
      apply Z.ltb_ge in Hbp. unfold discard_from_reader in Ho.
      replace (off <? 0)%Z with false in Ho by (symmetry; apply Z.ltb_ge; exact Hbp).
      destruct (copy_n_loop vrd fuel (Z.to_N off) (rv_init cfg evs attach)) as [e0 st] eqn:Hcn.
      pose proof (copy_n_loop_agree _ _ _ _ Hag fuel (Z.to_N off) _ HP0) as [_ Hp1]. rewrite Hcn in Hp1. cbn [snd] in Hp1.
      unfold rv_read in Hcn.
      assert (Hfirst : e0 <> ENone -> o = rv_out [] e0 [] [] (rv_close st) ->
                o_err o = expected evs /\ (o_data o = [] \/ Z.to_N off + lenN (o_data o) < g_size cfg) /\ (true = false -> o_data o = [])).
      { intros Hn1 ->. cbn [o_err o_data rv_out] in *. rsplit; auto.
        pose proof (copy_n_err H cfg rsrc rsrc_read fuel _ _ _ _ _ Hcn Hn1 Hnf) as Hv. eapply Hexp; eassumption. }
      destruct e0; try (destruct (Hfirst ltac:(congruence) (eq_sym Ho)) as (A & B & _); rsplit; auto;
                        intros _; subst o; reflexivity).
      clear Hfirst.
      destruct (read_full vrd fuel plen st) as [[got e] st1] eqn:Hrf.
      pose proof (read_full_agree _ _ _ _ Hag fuel plen _ Hp1) as [_ Hp2]. rewrite Hrf in Hp2. cbn [snd] in Hp2.
      unfold read_full, rv_read in Hrf.
      destruct e; try (subst o; cbn in Hdone; discriminate).
      + destruct (copy vrd fuel st1) as [[w e2] st2] eqn:Hcp.
        pose proof (copy_agree _ _ _ _ Hag fuel _ Hp2) as [_ Hp3]. rewrite Hcp in Hp3. cbn [snd] in Hp3.
        unfold copy, rv_read in Hcp.
        pose proof (copy_not_eof _ _ _ _ _ _ _ _ _ Hcp) as Hne2.
        destruct e2; try congruence; try (subst o; cbn in Hdone; discriminate); subst o; cbn [o_err o_data rv_out] in *;
          (rsplit; auto; eapply Hexp; [exact Hp3| |congruence|congruence]);
          eapply (copy_err H cfg rsrc rsrc_read fuel); try eassumption; congruence.
      + subst o. cbn [o_err o_data rv_out] in *. rsplit; auto.
        destruct (read_full_err H cfg rsrc rsrc_read fuel _ _ _ _ _ _ _ Hrf ltac:(congruence) ltac:(congruence))
          as [(Hu & _)|Hv]; [congruence|]. eapply Hexp; try eassumption; congruence.
      + subst o. cbn in Hnf. congruence.
    - (* ToChunkReader *)
      apply negb_false_iff in Hbp. rewrite Hbp in Ho.
      unfold valid_offset in Hbp. apply andb_true_iff in Hbp. destruct Hbp as [Hv0 Hv1]. apply Z.leb_le in Hv0.
      unfold discard_from_reader in Ho.
      replace (off <? 0)%Z with false in Ho by (symmetry; apply Z.ltb_ge; exact Hv0).
      destruct (copy_n_loop vrd fuel (Z.to_N off) (rv_init cfg evs attach)) as [e0 st] eqn:Hcn.
      pose proof (copy_n_loop_agree _ _ _ _ Hag fuel (Z.to_N off) _ HP0) as [_ Hp1]. rewrite Hcn in Hp1. cbn [snd] in Hp1.
      unfold rv_read in Hcn.
      destruct (copy_n_vr H cfg _ _ fuel rcont rsrc_spec rsrc_no_unexp rsrc_cap _ _ _ _ _ _ _ HI0 Hcn)
        as (D & HiD & Hok & _). cbn [app] in HiD.
      assert (Hfirst : e0 <> ENone -> o = rv_out [] e0 (repeat e0 extra) [] (rv_close st) ->
                o_err o = expected evs /\ (o_data o = [] \/ Z.to_N off + lenN (o_data o) < g_size cfg) /\ (false = false -> o_data o = [])).
      { intros Hn1 ->. cbn [o_err o_data rv_out] in *. rsplit; auto.
        pose proof (copy_n_err H cfg rsrc rsrc_read fuel _ _ _ _ _ Hcn Hn1 Hnf) as Hv. eapply Hexp; eassumption. }
      destruct e0; try (destruct (Hfirst ltac:(congruence) (eq_sym Ho)) as (A & B & _); rsplit; auto; discriminate).
      clear Hfirst. specialize (Hok eq_refl).
      destruct (drain (rb_read vrd fuel max) fuel [] (mkRbst st ENone)) as [[out e] s] eqn:Hdr.
      destruct (extra_reads (rb_read vrd fuel max) extra s) as [ex s2]. subst o. cbn [o_err o_data rv_out] in *.
      destruct (rb_drain_tracks (Pr evs attach) max Hnunexp Hag fuel [] (mkRbst st ENone) _ _ _ Hp1
                  ltac:(left; reflexivity) Hdr Hnf) as (Hps & Hvs & Hne).
      destruct (rb_drain_vr H cfg fuel _ max fuel [] (mkRbst st ENone) _ _ _ D HiD ltac:(unfold rb_ok; cbn; congruence) Hdr)
        as (R & -> & HiR & _). cbn [app] in *.
      rsplit; [eapply Hexp; eassumption| |discriminate].
      destruct (RI2_bound _ _ _ _ HiR Hnv) as [Hb|Hb].
      + right. rewrite lenN_app in Hb. lia.
      + apply app_eq_nil in Hb. left. exact (proj2 Hb).
    - (* ToReader *)
      destruct (rconsume vrd fuel caps (last_cap caps) [] (rv_init cfg evs attach)) as [[out e] st] eqn:Hrc.
      destruct (rextra vrd extra (last_cap caps) st) as [ex st2]. subst o. cbn [o_err o_data rv_out] in *.
      pose proof (rconsume_agree _ _ _ _ Hag fuel caps (last_cap caps) [] _ HP0) as [_ Hp1]. rewrite Hrc in Hp1. cbn [snd] in Hp1.
      destruct (rconsume_rdrains _ _ _ _ _ _ _ _ _ _ Hrc Hnf) as (bs & -> & Hd). cbn [app].
      pose proof (rdrains_not_none _ _ _ _ _ _ Hd) as Hne.
      unfold rv_read in Hrc.
      pose proof (rconsume_err H cfg rsrc rsrc_read fuel _ _ _ _ _ _ _ _ Hrc Hnf) as Hv.
      rsplit; [eapply Hexp; eassumption| |discriminate].
      unfold rv_read in Hd.
      destruct (vr_withhold H cfg _ _ fuel rcont rsrc_spec rsrc_no_unexp _ _ e _ (or_intror Hd) Hnv) as [Hb|Hb];
        [right; cbn; lia|left; exact Hb].
    - (* CloneCopy *)
      destruct (to_byte_slice_r H cfg fuel max (rv_init cfg evs attach)) as [r st] eqn:Ht. subst o.
      unfold clone_copy_of in *. destruct r as [out e]. cbn [fst snd] in *.
      destruct (Hslice _ _ _ Hbp Ht) as (He & Hd); cbn [fst snd] in *;
        [destruct e; cbn in Hdone; congruence|destruct e; cbn in Hnf; congruence|]. subst out.
      destruct e; cbn in *; auto.
  Qed.

  (** ** a bad parameter is rejected with INVALID_ARGUMENT, nothing is read *)
  Theorem reader_bad_param evs attach m o :
    cas_reader H cfg fuel evs attach m = o -> bad_param (g_size cfg) m = true ->
    o_err o = ECode 3 /\ o_data o = [] /\ o_cbs o = [] /\ o_aux o = [].
  Proof.
    intros Ho Hbp. destruct m; cbn [bad_param] in Hbp; try discriminate; cbn [cas_reader] in Ho.
    - unfold to_byte_slice_r in Ho. rewrite Hbp in Ho. subst o. cbn. auto.
    - unfold discard_from_reader in Ho. rewrite Hbp in Ho. subst o. cbn. auto.
    - apply negb_true_iff in Hbp. rewrite Hbp in Ho. subst o. cbn. auto.
    - unfold to_byte_slice_r in Ho. rewrite Hbp in Ho. subst o. cbn. auto.
  Qed.
End ReaderTheorems.
