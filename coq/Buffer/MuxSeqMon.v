(** C15, model M1: the monitor [mon15_mux] is silent on the model's own
    output [run15_mux], for every input with at least one consumer and a
    terminal code other than 99 (the item -(1+99) = -100 is the harness's
    marker for a panic in a consumer, so the monitor would read it as one). *)
From BBS Require Import Common.Sx Buffer.Mux Buffer.MuxProofs Buffer.MuxSeq Run.R15.
From Coq Require Import Arith Lia.
Local Open Scope nat_scope.

(** ---- sx round trips ---- *)

Lemma sx_eqb_refl : forall a, sx_eqb a a = true.
Proof.
  fix IH 1. destruct a as [z|l].
  - apply Z.eqb_refl.
  - cbn. induction l as [|x t IHt]; [reflexivity|]. rewrite IH. cbn. exact IHt.
Qed.

Lemma sx_Zs_of_Zs l : sx_Zs (of_Zs l) = l.
Proof. unfold sx_Zs, of_Zs. cbn. rewrite map_map. cbn. apply map_id. Qed.

Lemma sx_bool_of_bool b : sx_bool (of_bool b) = b.
Proof. destruct b; reflexivity. Qed.

(** ---- the drain ---- *)
Section Drain.
  Variable nchunks : nat.
  Variable term : Z.
  Notation step := (step nchunks term).
  Notation run_skip := (run_skip nchunks term).
  Notation Inv := (Inv nchunks term).
  Notation items := (items nchunks term).

  Lemma run_skip_app a : forall s b, run_skip s (a ++ b) = run_skip (run_skip s a) b.
  Proof. induction a as [|i a IH]; intros s b; cbn; [reflexivity|apply IH]. Qed.

  Lemma run_skip_rank l : forall s, Inv s -> rank (run_skip s l) <= rank s.
  Proof.
    induction l as [|i l IH]; intros s HI; cbn; [lia|].
    destruct (step s i) as [s1|] eqn:E; [|apply IH; exact HI].
    pose proof (step_decreases nchunks term _ _ _ HI E).
    pose proof (IH s1 (step_inv nchunks term _ _ _ HI E)). lia.
  Qed.

  Lemma run_skip_progress l : forall s i s', Inv s -> In i l -> step s i = Some s' ->
    rank (run_skip s l) < rank s.
  Proof.
    induction l as [|j l IH]; intros s i s' HI Hin Hs; [contradiction|]. cbn.
    destruct (step s j) as [s1|] eqn:E.
    - pose proof (step_decreases nchunks term _ _ _ HI E).
      pose proof (run_skip_rank l s1 (step_inv nchunks term _ _ _ HI E)). lia.
    - destruct Hin as [->|Hin]; [congruence|]. eapply IH; eassumption.
  Qed.

  Lemma step_index s i s' : step s i = Some s' -> i < length (cs s).
  Proof.
    unfold Mux.step. destruct (panicked s); [discriminate|].
    destruct (nth_error (cs s) i) eqn:E; [|discriminate]. intros _.
    apply nth_error_Some. congruence.
  Qed.

  Lemma all_done_rank0 s : all_done s = true -> rank s = 0.
  Proof.
    unfold all_done, rank. induction (cs s) as [|c l IH]; cbn; [reflexivity|].
    intros H. apply andb_true_iff in H. destruct H as [Hc Hl]. rewrite (IH Hl).
    unfold is_st in Hc. unfold rank1. destruct (st c); try discriminate. reflexivity.
  Qed.

  Lemma drain tot k : forall s, Inv s -> Seq tot s -> rank s <= k ->
    all_done (run_skip s (concat (repeat (seq 0 (length tot)) k))) = true.
  Proof.
    induction k as [|k IH]; intros s HI HS Hr.
    - cbn. apply (rank_zero_done nchunks term s HI). lia.
    - cbn [repeat concat]. rewrite run_skip_app.
      set (s' := run_skip s (seq 0 (length tot))).
      assert (HI' : Inv s') by (apply run_skip_inv; exact HI).
      assert (HS' : Seq tot s') by (apply run_skip_seq; exact HS).
      apply IH; [exact HI'|exact HS'|].
      destruct (all_done s) eqn:Ed.
      + pose proof (all_done_rank0 s Ed). pose proof (run_skip_rank (seq 0 (length tot)) s HI). fold s' in H0. lia.
      + destruct (no_stuck nchunks term s HI Ed) as (i & s1 & Hs).
        assert (Hlen : length (cs s) = length tot).
        { destruct HS as [Ht _]. rewrite <- Ht, map_length. reflexivity. }
        assert (Hin : In i (seq 0 (length tot))).
        { apply in_seq. pose proof (step_index _ _ _ Hs). lia. }
        pose proof (run_skip_progress _ _ _ _ HI Hin Hs). fold s' in H. lia.
  Qed.
End Drain.

(** ---- list helpers ---- *)

Lemma existsb_false_forall {A} (f : A -> bool) l : (forall x, In x l -> f x = false) -> existsb f l = false.
Proof.
  induction l as [|h t IH]; intros H; cbn; [reflexivity|].
  rewrite (H h (or_introl eq_refl)), IH; [reflexivity|]. intros x Hx. apply H. right. exact Hx.
Qed.

Lemma items_no_marker nch term k : term <> 99%Z -> existsb (Z.eqb (-100)) (items nch term k) = false.
Proof.
  intros Ht. apply existsb_false_forall. intros x Hx. unfold items in Hx.
  apply in_map_iff in Hx. destruct Hx as (j & <- & _). unfold item_at.
  apply Z.eqb_neq. destruct (Nat.ltb j nch); lia.
Qed.

(** ---- the theorem ---- *)

Theorem mon15_mux_silent inp :
  sx_list (sx_nth inp 3) <> [] -> sx_Z (sx_nth inp 2) <> 99%Z ->
  mon15_mux inp (run15_mux inp) = [].
Proof.
  intros Hne Hterm. unfold mon15_mux, run15_mux.
  set (nch := sx_nat (sx_nth inp 1)). set (term := sx_Z (sx_nth inp 2)).
  set (progs := map dec_cprog (sx_list (sx_nth inp 3))).
  assert (Hpne : progs <> []).
  { unfold progs. destruct (sx_list (sx_nth inp 3)); [contradiction|discriminate]. }
  set (s1 := run_skip nch term (init progs) (sx_nats (sx_nth inp 4))).
  set (s2 := run_skip nch term s1 _).
  assert (HI1 : Inv nch term s1) by (apply run_skip_inv, init_inv; exact Hpne).
  assert (HS1 : Seq (map prog_reads progs) s1) by (apply run_skip_seq, init_seq).
  assert (HI2 : Inv nch term s2) by (apply run_skip_inv; exact HI1).
  assert (HS2 : Seq (map prog_reads progs) s2) by (apply run_skip_seq; exact HS1).
  assert (Hdone : all_done s2 = true).
  { unfold s2. replace (length progs) with (length (map prog_reads progs)) by apply map_length.
    apply drain; [exact HI1|exact HS1|lia]. }
  assert (Hpan : panicked s2 = false) by (apply (no_panic nch term); exact HI2).
  assert (Hcl : closed s2 = 1) by (apply (closed_once_after_all nch term s2 HI2); exact Hdone).
  rewrite Hdone, Hpan, Hcl.
  cbn [sx_list skipn]. unfold sx_nth. cbn [sx_list nth]. rewrite sx_bool_of_bool. cbn [andb negb].
  rewrite map_map.
  assert (Hg : map (fun c => sx_Zs (of_Zs (got c))) (cs s2) = map (spec_seq nch term) progs).
  { apply map_eq_pointwise; [apply (seq_length_cs _ _ HS2)|].
    intros i c p Hc Hp. rewrite sx_Zs_of_Zs.
    destruct (position nch term s2 progs i c p HI2 HS2 Hc Hp) as (_ & _ & _ & _ & Hd).
    assert (Hst : st c = CDone).
    { unfold all_done in Hdone. rewrite forallb_forall in Hdone.
      pose proof (Hdone c (nth_error_In _ _ Hc)) as H. unfold is_st in H. destruct (st c); try discriminate; reflexivity. }
    rewrite (Hd Hst). destruct p as [[r d] z]. cbn. destruct d; reflexivity. }
  rewrite Hg.
  assert (H11 : existsb (fun g => existsb (Z.eqb (-100)) g) (map (spec_seq nch term) progs) = false).
  { apply existsb_false_forall. intros g Hin. apply in_map_iff in Hin. destruct Hin as ([[r d] z] & <- & _).
    cbn. destruct d; [reflexivity|apply items_no_marker; exact Hterm]. }
  rewrite H11. rewrite map_map, sx_eqb_refl. reflexivity.
Qed.
