(** C16 — the stream of the error-handling chunk reader is the stitching of
    the streams of its underlying readers, each opened at the number of bytes
    delivered so far; every I/O error is offered to the handler once, in
    order; an error of the handler ends the stream. *)
From Coq Require Import List ZArith NArith Bool Lia.
From BBS Require Import Buffer.Source Buffer.Validate Buffer.Convert Buffer.ErrHandler
  Buffer.StreamProofs Buffer.ValidateProofs Buffer.ConvertProofs.
Import ListNotations.
Open Scope N_scope.

Lemma on_error_answer h t : fst (on_error h t) = fst (on_error (mkHst (h_answers h) []) t).
Proof. unfold on_error. cbn. destruct (h_answers h); reflexivity. Qed.
Lemma on_error_log h t : h_log (snd (on_error h t)) = h_log h ++ [HOnError t].
Proof. unfold on_error. destruct (h_answers h); reflexivity. Qed.
Lemma on_error_replace h t b h' :
  on_error h t = (Replace b, h') -> h_answers h = Replace b :: h_answers h'.
Proof. unfold on_error. destruct (h_answers h) as [|a r]; intros E; inv E. reflexivity. Qed.

Section Stitch.
  Variable ifuel : nat.
  Variable max : N.
  Notation urd := (ucr_read ifuel max).

  (** [stitched cur k answers out e offered]: from the current underlying
      reader [cur], with [k] bytes delivered so far, the consumer receives [out]
      and then [e]; [offered] are the errors passed to OnError. *)
  Inductive stitched : ucr -> N -> list answer -> bytes -> err -> list err -> Prop :=
  | st_eof cur k ans p cur' :
      drains urd cur p EEof cur' -> stitched cur k ans p EEof []
  | st_fail cur k ans p t cur' c :
      drains urd cur p t cur' -> t <> EEof ->
      fst (on_error (mkHst ans []) t) = Fail c -> stitched cur k ans p (ECode c) [t]
  | st_replace cur k b rest p t cur' p2 e offs :
      drains urd cur p t cur' -> t <> EEof ->
      stitched (ucr_open ifuel b (k + lenN p)) (k + lenN p) rest p2 e offs ->
      stitched cur k (Replace b :: rest) (p ++ p2) e (t :: offs).

  Lemma stitched_cons cur c cur' k ans out e offs :
    urd cur = ((c, ENone), cur') -> stitched cur' (k + lenN c) ans out e offs ->
    stitched cur k ans (c ++ out) e offs.
  Proof.
    intros Hr Hs. inversion Hs; subst.
    - eapply st_eof. eapply drains_step; eassumption.
    - eapply st_fail; [eapply drains_step; eassumption|assumption|assumption].
    - rewrite app_assoc. eapply st_replace; [eapply drains_step; eassumption|assumption|].
      rewrite lenN_app, N.add_assoc. assumption.
  Qed.

  (** replacements performed within one Read: the current reader fails at
      once, the handler supplies another buffer, which is opened at the same offset *)
  Inductive switches : ehc -> ehc -> list err -> Prop :=
  | sw_refl r : switches r r []
  | sw_step r c t cur' b h' r0 offs :
      urd (ec_cur r) = ((c, t), cur') -> t <> ENone -> t <> EEof ->
      on_error (ec_h r) t = (Replace b, h') ->
      switches (mkEhc (ucr_open ifuel b (ec_off r)) (ec_off r) h') r0 offs ->
      switches r r0 (t :: offs).

  Lemma switches_off r r0 offs : switches r r0 offs -> ec_off r0 = ec_off r.
  Proof. induction 1; [reflexivity|]. cbn in *. assumption. Qed.
  Lemma switches_log r r0 offs :
    switches r r0 offs -> h_log (ec_h r0) = h_log (ec_h r) ++ map HOnError offs.
  Proof.
    induction 1 as [r|r c t cur' b h' r0 offs Hr Hn He Ho _ IH]; [now rewrite app_nil_r|].
    rewrite IH. cbn [ec_h map]. pose proof (on_error_log (ec_h r) t) as Hl. rewrite Ho in Hl.
    cbn in Hl. rewrite Hl, <- app_assoc. reflexivity.
  Qed.
  Lemma switches_stitched r r0 offs0 out e offs :
    switches r r0 offs0 ->
    stitched (ec_cur r0) (ec_off r0) (h_answers (ec_h r0)) out e offs ->
    stitched (ec_cur r) (ec_off r) (h_answers (ec_h r)) out e (offs0 ++ offs).
  Proof.
    induction 1 as [r|r c t cur' b h' r0 offs0 Hr Hn He Ho _ IH]; intros Hs; [exact Hs|].
    rewrite (on_error_replace _ _ _ _ Ho). cbn [app].
    change out with ([] ++ out). eapply st_replace.
    - eapply drains_end; eassumption.
    - assumption.
    - rewrite lenN_nil, N.add_0_r. apply IH in Hs. exact Hs.
  Qed.

  Lemma ehc_read_inv : forall f r c e r1,
    ehc_read ifuel f max r = ((c, e), r1) -> e <> EFuel ->
    exists r0 offs0 c0 t cur',
      switches r r0 offs0 /\ urd (ec_cur r0) = ((c0, t), cur') /\
      match e with
      | ENone => t = ENone /\ c = c0 /\ r1 = mkEhc cur' (ec_off r0 + lenN c0) (ec_h r0)
      | EEof => t = EEof /\ c = [] /\ r1 = mkEhc cur' (ec_off r0) (ec_h r0)
      | ECode c' => t <> ENone /\ t <> EEof /\ c = [] /\
                    exists h', on_error (ec_h r0) t = (Fail c', h') /\ r1 = mkEhc cur' (ec_off r0) h'
      | _ => False
      end.
  Proof.
    induction f as [|f IH]; intros r c e r1 Hr Hne; cbn [ehc_read] in Hr; [inv Hr; congruence|].
    destruct (urd (ec_cur r)) as [[c0 t] cur'] eqn:Hu.
    assert (Hother : t <> ENone -> t <> EEof ->
      (let '(a, h') := on_error (ec_h r) t in
       match a with
       | Fail c1 => (([], ECode c1), mkEhc cur' (ec_off r) h')
       | Replace b => ehc_read ifuel f max (mkEhc (ucr_open ifuel b (ec_off r)) (ec_off r) h')
       end) = ((c, e), r1) ->
      exists r0 offs0 c2 t2 cur2,
        switches r r0 offs0 /\ urd (ec_cur r0) = ((c2, t2), cur2) /\
        match e with
        | ENone => t2 = ENone /\ c = c2 /\ r1 = mkEhc cur2 (ec_off r0 + lenN c2) (ec_h r0)
        | EEof => t2 = EEof /\ c = [] /\ r1 = mkEhc cur2 (ec_off r0) (ec_h r0)
        | ECode c' => t2 <> ENone /\ t2 <> EEof /\ c = [] /\
                      exists h', on_error (ec_h r0) t2 = (Fail c', h') /\ r1 = mkEhc cur2 (ec_off r0) h'
        | _ => False
        end).
    { intros Hn He Hx. destruct (on_error (ec_h r) t) as [a h'] eqn:Ho. destruct a as [b|c1].
      - destruct (IH _ _ _ _ Hx Hne) as (r0 & offs0 & c2 & t2 & cur2 & Hsw & Hu2 & Hm).
        exists r0, (t :: offs0), c2, t2, cur2. split; [eapply sw_step; eassumption|]. auto.
      - inv Hx. exists r, [], c0, t, cur'. split; [constructor|]. split; [assumption|].
        rsplit; auto. exists h'. auto. }
    destruct t.
    - inv Hr. exists r, [], c, ENone, cur'. split; [constructor|]. auto.
    - inv Hr. exists r, [], c0, EEof, cur'. split; [constructor|]. auto.
    - apply Hother; [congruence|congruence|exact Hr].
    - apply Hother; [congruence|congruence|exact Hr].
    - apply Hother; [congruence|congruence|exact Hr].
  Qed.

  Theorem ehc_stitched fuel r out e r' :
    drains (ehc_read ifuel fuel max) r out e r' -> e <> EFuel ->
    exists offs,
      stitched (ec_cur r) (ec_off r) (h_answers (ec_h r)) out e offs /\
      h_log (ec_h r') = h_log (ec_h r) ++ map HOnError offs /\
      ec_off r' = ec_off r + lenN out.
  Proof.
    induction 1 as [r c e r1 Hr Hnn|r c r1 bs e r2 Hr _ IH]; intros Hne.
    - destruct (ehc_read_inv _ _ _ _ _ Hr Hne) as (r0 & offs0 & c0 & t & cur' & Hsw & Hu & Hm).
      pose proof (switches_off _ _ _ Hsw) as Hoff. pose proof (switches_log _ _ _ Hsw) as Hlog.
      destruct e; try contradiction; try congruence.
      + destruct Hm as (-> & -> & ->). exists (offs0 ++ []). split.
        * eapply switches_stitched; [eassumption|]. eapply st_eof. eapply drains_end; [eassumption|congruence].
        * cbn [ec_h ec_off]. rewrite app_nil_r. split; [exact Hlog|]. rewrite Hoff. unfold lenN. cbn. lia.
      + destruct Hm as (Hn & He & -> & h' & Ho & ->). exists (offs0 ++ [t]). split.
        * eapply switches_stitched; [eassumption|]. eapply st_fail; [eapply drains_end; eassumption|assumption|].
          rewrite <- on_error_answer, Ho. reflexivity.
        * pose proof (on_error_log (ec_h r0) t) as Hl. rewrite Ho in Hl. cbn [snd] in Hl.
          cbn [ec_h ec_off]. rewrite Hl, Hlog, map_app, <- app_assoc. split; [reflexivity|].
          rewrite Hoff. unfold lenN. cbn. lia.
    - destruct (ehc_read_inv _ _ _ _ _ Hr) as (r0 & offs0 & c0 & t & cur' & Hsw & Hu & Hm); [congruence|].
      destruct Hm as (-> & -> & ->).
      pose proof (switches_off _ _ _ Hsw) as Hoff. pose proof (switches_log _ _ _ Hsw) as Hlog.
      destruct (IH Hne) as (offs & Hs & Hl & Ho). cbn [ec_cur ec_off ec_h] in *.
      exists (offs0 ++ offs). split.
      + eapply switches_stitched; [eassumption|]. eapply stitched_cons; eassumption.
      + rewrite Hl, Hlog, map_app, <- app_assoc, Ho, Hoff, lenN_app. split; [reflexivity|lia].
  Qed.
End Stitch.

(** * Done is reported exactly once *)
From BBS Require Import Buffer.PreserveProofs.

Definition is_done (h : hev) : bool := match h with HDone => true | _ => false end.
Definition count_done (l : list hev) : nat := length (filter is_done l).
Arguments count_done : simpl never.
Lemma count_done_onerror l e : count_done (l ++ [HOnError e]) = count_done l.
Proof. unfold count_done. rewrite filter_app, app_length. cbn. lia. Qed.
Lemma count_done_done l : count_done (l ++ [HDone]) = S (count_done l).
Proof. unfold count_done. rewrite filter_app, app_length. cbn. lia. Qed.

Lemma on_error_count h t : count_done (h_log (snd (on_error h t))) = count_done (h_log h).
Proof. rewrite on_error_log. apply count_done_onerror. Qed.
Lemma on_error_len h t : (length (h_answers (snd (on_error h t))) <= length (h_answers h))%nat.
Proof. unfold on_error. destruct (h_answers h); cbn; lia. Qed.
Lemma on_error_len_replace h t b h' :
  on_error h t = (Replace b, h') -> (S (length (h_answers h')) = length (h_answers h))%nat.
Proof. intros Ho. rewrite (on_error_replace _ _ _ _ Ho). reflexivity. Qed.

Definition quiet (h : hst) : Prop := count_done (h_log h) = 0%nat.

Lemma ehc_read_quiet ifuel max : forall f r x r',
  ehc_read ifuel f max r = (x, r') -> quiet (ec_h r) -> quiet (ec_h r').
Proof.
  induction f as [|f IH]; intros r x r' Hr Hq; cbn [ehc_read] in Hr; [inv Hr; assumption|].
  destruct (ucr_read ifuel max (ec_cur r)) as [[c t] cur'].
  assert (Hother :
    (let '(a, h') := on_error (ec_h r) t in
     match a with
     | Fail c1 => (([], ECode c1), mkEhc cur' (ec_off r) h')
     | Replace b => ehc_read ifuel f max (mkEhc (ucr_open ifuel b (ec_off r)) (ec_off r) h')
     end) = (x, r') -> quiet (ec_h r')).
  { pose proof (on_error_count (ec_h r) t) as Hc.
    destruct (on_error (ec_h r) t) as [a h']. cbn [snd] in Hc. intros Hx.
    assert (Hq' : quiet h') by (unfold quiet in *; lia).
    destruct a; [eapply IH; [exact Hx|exact Hq']|inv Hx; exact Hq']. }
  destruct t; try (inv Hr; assumption); apply Hother; exact Hr.
Qed.

Lemma ehr_read_quiet fuel cap r x r' :
  ehr_read fuel cap r = (x, r') -> quiet (er_h r) -> quiet (er_h r').
Proof.
  unfold ehr_read. destruct (urd_read fuel cap (er_cur r)) as [[d t] cur'].
  pose proof (on_error_count (er_h r) t) as Hc. intros Hr Hq.
  destruct (on_error (er_h r) t) as [a h']. cbn [snd] in Hc.
  assert (Hq' : quiet h') by (unfold quiet in *; lia).
  destruct t; try (inv Hr; assumption); destruct a; inv Hr; assumption.
Qed.

Section DoneOnce.
  Variable H : bytes -> bytes.
  Variable cfg : vcfg.
  Variable fuel : nat.

  Lemma try_repeatedly_done : forall n m b h cbs d e cbs' h',
    try_repeatedly H cfg fuel n m b h cbs = (d, e, cbs', h') ->
    (length (h_answers h) < n)%nat -> quiet h -> count_done (h_log h') = 1%nat.
  Proof.
    induction n as [|n IH]; intros m b h cbs d e cbs' h' Ht Hl Hq; [lia|].
    cbn [try_repeatedly] in Ht.
    assert (Hdone : count_done (h_log (done h)) = 1%nat) by (cbn; rewrite count_done_done; unfold quiet in Hq; lia).
    assert (Hother : forall t,
      (let '(a, h1) := on_error h t in
       match a with
       | Fail c => ([], ECode c, cbs ++ o_cbs (plain H cfg fuel b m), done h1)
       | Replace b' => try_repeatedly H cfg fuel n m b' h1 (cbs ++ o_cbs (plain H cfg fuel b m))
       end) = (d, e, cbs', h') -> count_done (h_log h') = 1%nat).
    { intros t. pose proof (on_error_count h t) as Hc. destruct (on_error h t) as [a h1] eqn:Ho. cbn [snd] in Hc.
      assert (Hq1 : quiet h1) by (unfold quiet in *; lia).
      destruct a as [b'|c].
      - intros Hx. eapply IH; [exact Hx| |exact Hq1]. pose proof (on_error_len_replace _ _ _ _ Ho). lia.
      - intros Hx. inv Hx. cbn. rewrite count_done_done. unfold quiet in Hq1. lia. }
    destruct (o_err (plain H cfg fuel b m)) eqn:Ee; try (inv Ht; exact Hdone); eapply Hother; exact Ht.
  Qed.

  Lemma weh_done : forall n b h w h',
    with_error_handler n b h = (w, h') -> (length (h_answers h) < n)%nat -> quiet h ->
    count_done (h_log h') = match w with inl _ => 0%nat | inr _ => 1%nat end.
  Proof.
    induction n as [|n IH]; intros b h w h' Hw Hl Hq; [lia|].
    assert (Hdone : count_done (h_log (done h)) = 1%nat) by (cbn; rewrite count_done_done; unfold quiet in Hq; lia).
    destruct b; cbn [with_error_handler] in Hw; try (inv Hw; assumption).
    pose proof (on_error_count h (ECode c)) as Hc. destruct (on_error h (ECode c)) as [a h1] eqn:Ho. cbn [snd] in Hc.
    assert (Hq1 : quiet h1) by (unfold quiet in *; lia).
    destruct a as [b'|c'].
    - eapply IH; [exact Hw| |exact Hq1]. pose proof (on_error_len_replace _ _ _ _ Ho). lia.
    - inv Hw. cbn. rewrite count_done_done. unfold quiet in Hq1. lia.
  Qed.

  Lemma ehv_read_quiet max s r s' :
    ehv_read H cfg fuel max s = (r, s') -> quiet (ec_h (v_u s)) -> quiet (ec_h (v_u s')).
  Proof.
    intros Hr Hq. unfold ehv_read in Hr.
    exact (vcr_read_pres _ _ (fun r => quiet (ec_h r))
             (fun s0 r0 s0' Hr0 => ehc_read_quiet _ _ _ _ _ _ Hr0) _ _ _ _ _ _ Hr Hq).
  Qed.
  Lemma ehrv_read_quiet cap s r s' :
    ehrv_read H cfg fuel cap s = (r, s') -> quiet (er_h (v_u s)) -> quiet (er_h (v_u s')).
  Proof.
    intros Hr Hq. unfold ehrv_read in Hr.
    exact (vr_read_pres _ _ (fun r => quiet (er_h r))
             (fun cap0 s0 r0 s0' Hr0 => ehr_read_quiet _ _ _ _ _ Hr0) _ _ _ _ _ _ _ Hr Hq).
  Qed.

  Lemma eh_method_done b h m :
    quiet h -> count_done (x_log (eh_method H cfg fuel b h m)) = 1%nat.
  Proof.
    intros Hq.
    assert (Hdone : count_done (h_log (done h)) = 1%nat) by (cbn; rewrite count_done_done; unfold quiet in Hq; lia).
    destruct m; cbn [eh_method].
    - destruct (try_repeatedly _ _ _ _ _ _ _ _) as [[[d e] cbs] h'] eqn:Ht. cbn.
      eapply try_repeatedly_done; [exact Ht|lia|exact Hq].
    - unfold into_writer_cr. destruct (drain _ fuel [] _) as [[out e] st] eqn:Hd. cbn.
      eapply (drain_pres _ _ (fun st : ehv => quiet (ec_h (v_u st)))) in Hd.
      + rewrite count_done_done. unfold quiet in Hd. lia.
      + intros s r s'. apply ehv_read_quiet.
      + exact Hq.
    - destruct (try_repeatedly _ _ _ _ _ _ _ _) as [[[d e] cbs] h'] eqn:Ht. cbn.
      eapply try_repeatedly_done; [exact Ht|lia|exact Hq].
    - destruct (valid_offset (g_size cfg) off); [|exact Hdone].
      set (Q := fun o : ost ehv => match o_fixed o with
                                   | ENone => count_done (h_log (ec_h (v_u (o_u o)))) = 0%nat
                                   | _ => count_done (h_log (ec_h (v_u (o_u o)))) = 1%nat
                                   end).
      assert (Hrd : forall s r s', ehv_read H cfg fuel max s = (r, s') ->
                                   quiet (ec_h (v_u s)) -> quiet (ec_h (v_u s'))).
      { intros s r s'. apply ehv_read_quiet. }
      assert (Hord : forall o r o', offset_read (ehv_read H cfg fuel max) o = (r, o') -> Q o -> Q o').
      { intros o r o' Hr HQ. unfold offset_read in Hr. unfold Q in *.
        destruct (o_fixed o) eqn:Ef; try (inv Hr; rewrite Ef; exact HQ).
        destruct (is_nil (o_prefix o)); [|inv Hr; exact HQ].
        destruct (ehv_read H cfg fuel max (o_u o)) as [x u'] eqn:Hu. inv Hr. cbn. eapply Hrd; eassumption. }
      assert (HQ0 : Q (offset_init (ehv_read H cfg fuel max) (ehv_close) fuel off
                         (vinit cfg (ehc_init fuel b h)))).
      { unfold offset_init, Q. destruct (off <? 0)%Z; [cbn; rewrite count_done_done; unfold quiet in Hq; lia|].
        destruct (discard_from_chunk_reader _ fuel (Z.to_N off) _) as [[prefix e] s'] eqn:Hdis.
        eapply (discard_pres _ _ (fun st : ehv => quiet (ec_h (v_u st)))) in Hdis; [|exact Hrd|exact Hq].
        unfold quiet in Hdis.
        destruct e; cbn; try exact Hdis; rewrite count_done_done; lia. }
      destruct (drain _ fuel [] _) as [[out e] o] eqn:Hd.
      eapply (drain_pres _ _ Q Hord) in Hd; [|exact HQ0].
      destruct (extra_reads _ extra o) as [ex o2] eqn:He.
      eapply (extra_reads_pres _ _ Q Hord) in He; [|exact Hd].
      cbn [x_log]. unfold offset_close, Q in *. destruct (o_fixed o2); cbn; try exact He.
      rewrite count_done_done. lia.
    - destruct (rconsume _ fuel caps _ [] _) as [[out e] st] eqn:Hc.
      assert (Hrd : forall cap s r s', ehrv_read H cfg fuel cap s = (r, s') ->
                                       quiet (er_h (v_u s)) -> quiet (er_h (v_u s'))).
      { intros cap s r s'. apply ehrv_read_quiet. }
      eapply (rconsume_pres _ _ (fun st : ehrv => quiet (er_h (v_u st))) Hrd) in Hc; [|exact Hq].
      destruct (rextra _ extra _ st) as [ex st2] eqn:He.
      eapply (rextra_pres _ _ (fun st : ehrv => quiet (er_h (v_u st))) Hrd) in He; [|exact Hc].
      cbn. rewrite count_done_done. unfold quiet in He. lia.
    - destruct (try_repeatedly _ _ _ _ _ _ _ _) as [[[d e] cbs] h'] eqn:Ht.
      assert (Hx : count_done (h_log h') = 1%nat) by (eapply try_repeatedly_done; [exact Ht|lia|exact Hq]).
      destruct e; exact Hx.
    - exact Hdone.
  Qed.

  Theorem run_case_done_once b0 answers m :
    count_done (x_log (run_case H cfg fuel b0 answers m)) = 1%nat.
  Proof.
    unfold run_case.
    destruct (with_error_handler _ b0 _) as [w h] eqn:Hw.
    assert (Hc := weh_done _ _ _ _ _ Hw). cbn in Hc. specialize (Hc ltac:(lia) eq_refl).
    destruct w; [apply eh_method_done; exact Hc|exact Hc].
  Qed.
End DoneOnce.

(** * What each buffer kind delivers from an offset; no duplicated, no skipped range *)
Lemma lenN_dropN k l : lenN (dropN k l) = lenN l - k.
Proof.
  revert k. induction l as [|x l IH]; intros k; cbn [dropN].
  - rewrite lenN_nil. lia.
  - destruct (k =? 0) eqn:E; [apply N.eqb_eq in E; subst; lia|]. apply N.eqb_neq in E.
    rewrite IH, lenN_cons. lia.
Qed.

Section Pieces.
  Variable ifuel : nat.
  Variable max : N.
  Notation urd := (ucr_read ifuel max).

  Lemma unorm_drains cur p t cur' :
    drains urd cur p t cur' -> forall n, cur = UNorm n ->
    exists n', cur' = UNorm n' /\ drains (norm_read (offset_read csrc_read) ifuel max) n p t n'.
  Proof.
    induction 1 as [cur c e cur1 Hr Hne|cur c cur1 bs e cur2 Hr _ IH]; intros n ->; cbn in Hr;
      destruct (norm_read (offset_read csrc_read) ifuel max n) as [x n1] eqn:Hn; inv Hr.
    - exists n1. split; [reflexivity|]. eapply drains_end; eassumption.
    - destruct (IH _ eq_refl) as (n' & -> & Hd). exists n'. split; [reflexivity|].
      eapply drains_step; eassumption.
  Qed.
  Lemma ubs_drains cur p t cur' :
    drains urd cur p t cur' -> forall d, cur = UBs d ->
    exists d', cur' = UBs d' /\ drains (bs_read max) d p t d'.
  Proof.
    induction 1 as [cur c e cur1 Hr Hne|cur c cur1 bs e cur2 Hr _ IH]; intros d ->; cbn in Hr;
      destruct (bs_read max d) as [x d1] eqn:Hb; inv Hr.
    - exists d1. split; [reflexivity|]. eapply drains_end; eassumption.
    - destruct (IH _ eq_refl) as (d' & -> & Hd). exists d'. split; [reflexivity|].
      eapply drains_step; eassumption.
  Qed.
  Lemma uerr_drains c p t cur' : drains urd (UErr (ECode c)) p t cur' -> p = [] /\ t = ECode c.
  Proof. intros Hd. inversion Hd; subst; cbn in H; inv H; auto. Qed.

  (** a chunk-reader buffer opened at offset [k] *)
  Lemma piece_chunk evs k p t cur' :
    drains urd (ucr_open ifuel (BChunk evs) k) p t cur' -> t <> EFuel ->
    t = snd (content evs) /\
    (k <= lenN (fst (content evs)) /\ p = dropN k (fst (content evs)) \/
     lenN (fst (content evs)) < k /\ p = []).
  Proof.
    intros Hd Hnf. cbn [ucr_open] in Hd.
    destruct (unorm_drains _ _ _ _ Hd _ eq_refl) as (n' & _ & Hdn).
    apply norm_drains in Hdn; [|exact Hnf]. destruct Hdn as (bs & E & Hdo). cbn in E, Hdo. subst bs.
    unfold offset_init in Hdo. destruct (Z.of_N k <? 0)%Z eqn:Hneg; [apply Z.ltb_lt in Hneg; lia|].
    rewrite N2Z.id in Hdo.
    destruct (csrc_drains evs 0) as (send & Hsrc).
    destruct (discard_from_chunk_reader csrc_read ifuel k (mkCsrc evs 0)) as [[prefix e] s'] eqn:Hdis.
    assert (Hfail : e <> ENone -> drains (offset_read csrc_read) (mkOst (csrc_close s') [] e) p t (n_u n') ->
                    t = snd (content evs) /\ lenN (fst (content evs)) < k /\ p = []).
    { intros Hne Hdo'. destruct (offset_fixed_drains _ _ _ _ _ _ Hdo') as (Ee & ->); [exact Hne|]. cbn in Ee. subst e.
      destruct (discard_fails _ _ _ _ _ _ _ _ Hdis Hne Hnf) as (bs0 & Hd0 & Hl0).
      destruct (drains_det _ _ _ _ _ _ _ _ _ Hsrc Hd0) as (<- & <- & _). auto. }
    destruct e; try (destruct (Hfail ltac:(congruence) Hdo) as (? & ? & ?); auto).
    destruct (discard_pulls _ _ _ _ _ _ _ Hdis) as (bs0 & Hp0 & -> & Hle).
    destruct (offset_drains _ _ _ _ _ _ _ Hdo) as (bs2 & -> & Hd2).
    pose proof (pulls_drains _ _ _ _ _ _ _ _ Hp0 Hd2) as Hall.
    destruct (drains_det _ _ _ _ _ _ _ _ _ Hsrc Hall) as (Ec & <- & _).
    split; [reflexivity|]. left. rewrite Ec. split; [rewrite lenN_app; lia|]. now rewrite dropN_app.
  Qed.
End Pieces.

(** [b] carries (a prefix of) the object [C]: a source that ends with io.EOF
    carries all of it. *)
Definition carries (C : bytes) (b : bufscript) : Prop :=
  match b with
  | BChunk evs => exists rest, C = fst (content evs) ++ rest /\ (snd (content evs) = EEof -> rest = [])
  | BBytes d => d = C
  | BError _ => True
  | BReader _ _ => False
  end.

Section NoDup.
  Variable ifuel : nat.
  Variable max : N.

  Lemma piece_spec C b k p t cur' :
    carries C b -> k <= lenN C ->
    drains (ucr_read ifuel max) (ucr_open ifuel b k) p t cur' -> t <> EFuel ->
    k + lenN p <= lenN C /\ dropN k C = p ++ dropN (k + lenN p) C /\ (t = EEof -> p = dropN k C).
  Proof.
    intros Hc Hk Hd Hnf. destruct b as [evs|evs a|d|c]; cbn [carries] in Hc.
    - destruct Hc as (rest & -> & Hrest).
      destruct (piece_chunk _ _ _ _ _ _ _ Hd Hnf) as (-> & [[Hle ->]|[Hlt ->]]).
      + rewrite lenN_dropN. rewrite lenN_app in *.
        split; [lia|]. replace (k + (lenN (fst (content evs)) - k)) with (lenN (fst (content evs))) by lia.
        rewrite dropN_app by assumption. rewrite dropN_app_ge by lia. rewrite N.sub_diag, dropN_0.
        split; [reflexivity|]. intros He. rewrite (Hrest He), !app_nil_r. reflexivity.
      + rewrite lenN_nil, N.add_0_r. split; [assumption|]. split; [reflexivity|].
        intros He. rewrite (Hrest He), app_nil_r in Hk. lia.
    - contradiction.
    - subst d. cbn [ucr_open] in Hd. destruct (k <=? lenN C) eqn:E; [|apply N.leb_gt in E; lia].
      destruct (ubs_drains _ _ _ _ _ _ Hd _ eq_refl) as (d' & _ & Hdb).
      destruct (bs_read_drains _ _ _ _ _ Hdb) as (-> & ->).
      rewrite lenN_dropN. replace (k + (lenN C - k)) with (lenN C) by lia.
      rewrite (dropN_all (lenN C) C) by lia. rewrite app_nil_r. split; [lia|]. split; reflexivity.
    - cbn [ucr_open] in Hd. destruct (uerr_drains _ _ _ _ _ _ Hd) as (-> & ->).
      rewrite lenN_nil, N.add_0_r. split; [assumption|]. split; [reflexivity|]. discriminate.
  Qed.

  (** If the original and all replacement buffers carry the same object, a
      stitched stream that reaches io.EOF is that object from the start offset:
      no duplicated and no skipped range, wherever the failures occur. *)
  Theorem stitched_no_dup_no_skip C : forall cur k ans out e offs,
    stitched ifuel max cur k ans out e offs -> e = EEof ->
    forall b, cur = ucr_open ifuel b k -> carries C b ->
    Forall (fun a => match a with Replace b' => carries C b' | Fail _ => True end) ans ->
    ~ In EFuel offs -> k <= lenN C -> out = dropN k C.
  Proof.
    induction 1 as [cur k ans p cur' Hd|cur k ans p t cur' c Hd Hne Ho|cur k b1 rest p t cur' p2 e offs Hd Hne _ IH];
      intros He b -> Hc Hall Hnf Hk.
    - destruct (piece_spec _ _ _ _ _ _ Hc Hk Hd) as (_ & _ & Hp); [congruence|]. auto.
    - discriminate.
    - inversion Hall as [|a l Hb1 Hrest]; subst.
      destruct (piece_spec _ _ _ _ _ _ Hc Hk Hd) as (Hk' & Hsplit & _); [intros ->; apply Hnf; left; reflexivity|].
      rewrite Hsplit. f_equal. eapply IH; eauto. intros Hin. apply Hnf. right. exact Hin.
  Qed.
End NoDup.

(** * Corollaries used in Props/C16.v *)
Lemma stitched_result ifuel max cur k ans out e offs :
  stitched ifuel max cur k ans out e offs ->
  e = EEof \/
  exists c pre t, e = ECode c /\ offs = pre ++ [t] /\
                  fst (on_error (mkHst (skipn (length pre) ans) []) t) = Fail c.
Proof.
  induction 1 as [cur k ans p cur' Hd|cur k ans p t cur' c Hd Hne Ho|cur k b1 rest p t cur' p2 e offs Hd Hne _ IH].
  - left. reflexivity.
  - right. exists c, [], t. auto.
  - destruct IH as [->|(c & pre & t' & -> & -> & Ho)]; [left; reflexivity|].
    right. exists c, (t :: pre), t'. auto.
Qed.

Lemma eh_validated_stitched H cfg fuel max b h out st' :
  drains (ehv_read H cfg fuel max) (vinit cfg (ehc_init fuel b h)) out EEof st' ->
  lenN out = g_size cfg /\ g_hash cfg = H out /\
  exists offs, stitched fuel max (ucr_open fuel b 0) 0 (h_answers h) out EEof offs.
Proof.
  intros Hd. unfold ehv_read in Hd.
  destruct (vcr_complete_implies_valid _ _ _ _ _ _ _ _ Hd) as ((u & Hdu) & Hl & Hh).
  destruct (ehc_stitched _ _ _ _ _ _ _ Hdu) as (offs & Hs & _); [congruence|].
  split; [exact Hl|]. split; [exact Hh|]. exists offs. exact Hs.
Qed.

(** * tryRepeatedly (ToByteSlice, ReadAt, CloneCopy): whole-operation retries *)
Section Retry.
  Variable H : bytes -> bytes.
  Variable cfg : vcfg.
  Variable fuel : nat.

  Definition op_done (e : err) : bool := match e with ENone | EEof => true | _ => false end.

  (** [retried m b answers d e offered]: the operation [m] is applied to [b];
      if it succeeds that is the result; otherwise its error is offered to the
      handler, whose error answer is the result, or whose replacement buffer
      is tried in the same way. *)
  Inductive retried (m : meth) : bufscript -> list answer -> bytes -> err -> list err -> Prop :=
  | rt_ok b ans :
      op_done (o_err (plain H cfg fuel b m)) = true ->
      retried m b ans (o_data (plain H cfg fuel b m)) (o_err (plain H cfg fuel b m)) []
  | rt_fail b ans c :
      op_done (o_err (plain H cfg fuel b m)) = false ->
      fst (on_error (mkHst ans []) (o_err (plain H cfg fuel b m))) = Fail c ->
      retried m b ans [] (ECode c) [o_err (plain H cfg fuel b m)]
  | rt_replace b b' rest d e offs :
      op_done (o_err (plain H cfg fuel b m)) = false ->
      retried m b' rest d e offs ->
      retried m b (Replace b' :: rest) d e (o_err (plain H cfg fuel b m) :: offs).

  Theorem try_repeatedly_spec : forall n m b h cbs d e cbs' h',
    try_repeatedly H cfg fuel n m b h cbs = (d, e, cbs', h') ->
    (length (h_answers h) < n)%nat ->
    exists offs, retried m b (h_answers h) d e offs /\
                 h_log h' = h_log h ++ map HOnError offs ++ [HDone].
  Proof.
    induction n as [|n IH]; intros m b h cbs d e cbs' h' Ht Hl; [lia|].
    cbn [try_repeatedly] in Ht.
    destruct (op_done (o_err (plain H cfg fuel b m))) eqn:Hop.
    - assert (Hx : (o_data (plain H cfg fuel b m), o_err (plain H cfg fuel b m),
                    cbs ++ o_cbs (plain H cfg fuel b m), done h) = (d, e, cbs', h'))
        by (destruct (o_err (plain H cfg fuel b m)); try discriminate; exact Ht).
      inv Hx. exists []. split; [apply rt_ok; exact Hop|reflexivity].
    - assert (Hx : (let '(a, h1) := on_error h (o_err (plain H cfg fuel b m)) in
                    match a with
                    | Fail c => ([], ECode c, cbs ++ o_cbs (plain H cfg fuel b m), done h1)
                    | Replace b' => try_repeatedly H cfg fuel n m b' h1 (cbs ++ o_cbs (plain H cfg fuel b m))
                    end) = (d, e, cbs', h'))
        by (destruct (o_err (plain H cfg fuel b m)); try discriminate; exact Ht).
      clear Ht. set (t := o_err (plain H cfg fuel b m)) in *.
      pose proof (on_error_log h t) as Hlog. pose proof (on_error_answer h t) as Hans.
      destruct (on_error h t) as [a h1] eqn:Ho. cbn [fst snd] in *.
      destruct a as [b'|c].
      + pose proof (on_error_len_replace _ _ _ _ Ho) as Hlen.
        destruct (IH _ _ _ _ _ _ _ _ Hx ltac:(lia)) as (offs & Hr & Hl').
        exists (t :: offs). rewrite (on_error_replace _ _ _ _ Ho). split; [apply rt_replace; assumption|].
        rewrite Hl', Hlog. cbn [map app]. rewrite <- !app_assoc. reflexivity.
      + inv Hx. exists [t]. split; [apply rt_fail; [exact Hop|symmetry; exact Hans]|].
        cbn [done h_log map app]. rewrite Hlog, <- app_assoc. reflexivity.
  Qed.
End Retry.
