(** C16 — the monitor is silent on the model for the whole-operation methods
    (ToByteSlice, ReadAt, CloneCopy) and for Discard as well; together with
    Buffer/EHFullMonS.v: for EVERY method. *)
From Coq Require Import List ZArith NArith Bool Lia.
From BBS Require Import Common.Sx Buffer.Source Buffer.Validate Buffer.Convert Buffer.ErrHandler
  Buffer.StreamProofs Buffer.ValidateProofs Buffer.ConvertProofs Buffer.ReaderBufferProofs Buffer.ConvertProofs2
  Buffer.C09FullMonitor Buffer.ErrHandlerProofs Buffer.StackRuleProofs
  Buffer.EHFullCarry Buffer.EHFullExact Buffer.EHFullPrefix Buffer.EHFullStackExact Buffer.EHFullStacking
  Buffer.EHFullCompleted Buffer.EHFullRetry Buffer.EHFullMon Buffer.EHFullMon3 Buffer.EHFullMonS
  Run.R09 Run.R16 Run.R16Proofs.
Import ListNotations.
Open Scope Z_scope.

Definition retrying (m : meth) : Prop :=
  match m with MToByteSlice _ | MReadAt _ _ | MCloneCopy _ => True | _ => False end.

Lemma biu_origin : forall S ns b0 bf,
  biu (Some b0) S ns = Some bf -> bf = b0 \/ exists a, In a S /\ In (Replace bf) a.
Proof.
  assert (Hgen : forall S ns cur bf, biu cur S ns = Some bf ->
            cur = Some bf \/ exists a, In a S /\ In (Replace bf) a).
  { induction S as [|a S IH]; intros [|n ns] cur bf Hb; cbn [biu] in Hb; auto.
    destruct (IH _ _ _ Hb) as [Hc|(a1 & Hin & Hr)]; [|right; exists a1; split; [right; exact Hin|exact Hr]].
    destruct n as [|j]; [left; exact Hc|]. destruct (nth_error a j) as [[b|c]|] eqn:Hn; try discriminate.
    inv Hc. right. exists a. split; [left; reflexivity|]. eapply nth_error_In; eassumption. }
  intros S ns b0 bf Hb. destruct (Hgen _ _ _ _ Hb) as [Hc|Hx]; [inv Hc; auto|auto].
Qed.

Definition lens_logs (logs : list (list hev)) : list nat := map (fun l => length (oell l)) logs.
Lemma lens_logs_of w : lens_logs (logs_of w) = lens (lv w).
Proof. unfold lens_logs, logs_of, lens, lv. rewrite map_map. reflexivity. Qed.

Lemma in_replacements b a anss : In a anss -> In (Replace b) a -> In b (replacements anss).
Proof.
  intros Ha Hr. unfold replacements. apply in_flat_map. exists (Replace b). split; [|left; reflexivity].
  apply in_concat. exists a. auto.
Qed.

Section RetryFacts.
  Variable H : bytes -> bytes.
  Variable cfg : vcfg.
  Variable fuel : nat.

  (** a completed whole operation on a plain buffer: valid content, expected slice *)
  Lemma plain_completed_valid b m :
    m <> MDiscard -> completed m (o_err (plain H cfg fuel b m)) = true ->
    snd (ucontent b) = EEof /\
    o_data (plain H cfg fuel b m) = expected_slice m (fst (ucontent b)) /\
    (match b with BBytes _ => True | _ => valid_bytes H cfg (fst (ucontent b)) end) /\
    match b with BError _ => False | _ => True end.
  Proof.
    intros Hm Hc. destruct b as [evs|evs a|d|x]; cbn [plain ucontent] in *.
    - destruct (chunk_reader_complete_implies_valid H cfg fuel evs m _ Hm eq_refl Hc) as ((He & Hl & Hh) & Hd).
      rsplit; auto. split; assumption.
    - destruct (ReaderBufferProofs.reader_complete_implies_valid H cfg fuel evs a m _ Hm eq_refl Hc) as ((He & Hl & Hh) & Hd).
      rsplit; auto. split; assumption.
    - rsplit; auto. apply byte_slice_buffer_expected. exact Hc.
    - rewrite error_buffer_never_completes in Hc by exact Hm. discriminate.
  Qed.

  (** the facts the monitor's clauses 2 and 6 ask for *)
  Definition retry_facts (b0 : bufscript) (anss : list (list answer)) (m : meth) (o : outcome16s) : Prop :=
    let ns := lens_logs (y_logs o) in
    let top := returned (last anss []) (last ns 0%nat) in
    (completed m (y_err o) = true ->
       exists bf, biu (Some b0) anss ns = Some bf /\ snd (ucontent bf) = EEof /\
                  y_data o = expected_slice m (fst (ucontent bf)) /\
                  (bytes_trusted H cfg b0 anss -> valid_bytes H cfg (fst (ucontent bf)))) /\
    (forall c, top = Some c -> y_err o = ECode c).

  Lemma trusted_origin b0 anss bf ns :
    biu (Some b0) anss ns = Some bf -> bytes_trusted H cfg b0 anss ->
    match bf with BBytes d => valid_bytes H cfg d | _ => True end.
  Proof.
    intros Hb Ht. destruct bf as [| |d|]; auto. apply Ht.
    destruct (biu_origin _ _ _ _ Hb) as [->|(a & Hin & Hr)]; [left; reflexivity|right; eapply in_replacements; eassumption].
  Qed.

  Lemma completed_facts b0 anss ns bf m m' d e :
    m' <> MDiscard -> (forall x, completed m x = completed m' x) -> (forall c, expected_slice m c = expected_slice m' c) ->
    biu (Some b0) anss ns = Some bf -> d = o_data (plain H cfg fuel bf m') -> e = o_err (plain H cfg fuel bf m') ->
    completed m e = true ->
    snd (ucontent bf) = EEof /\ d = expected_slice m (fst (ucontent bf)) /\
    (bytes_trusted H cfg b0 anss -> valid_bytes H cfg (fst (ucontent bf))).
  Proof.
    intros Hm' Hcm Hex Hb -> -> Hc. rewrite Hcm in Hc.
    destruct (plain_completed_valid _ _ Hm' Hc) as (He & Hd & Hv & Hne). rsplit; auto.
    - rewrite Hex. exact Hd.
    - intros Ht. pose proof (trusted_origin _ _ _ _ Hb Ht) as Hto. destruct bf; auto.
  Qed.

  Theorem run_stack_retry_facts b0 anss m :
    retrying m -> anss <> [] -> y_err (run_stack H cfg fuel b0 anss m) <> EFuel ->
    retry_facts b0 anss m (run_stack H cfg fuel b0 anss m).
  Proof.
    intros Hm Hne. unfold run_stack.
    destruct (stack_handlers b0 _ _) as [b w] eqn:Hs. intros Hef.
    assert (HK0 : K b0 [] (w_dn (mkW [] [] [])) b0).
    { unfold K. cbn. split; [constructor|]. left. split; [right; auto|congruence]. }
    destruct (stacked_state b0 anss [] b0 _ b w Hs eq_refl HK0) as (HJ & HKf). cbn [app] in HJ, HKf.
    assert (Hmd : m <> MDiscard) by (destruct m; try contradiction; congruence).
    destruct (w_act w) as [|a act] eqn:Ea.
    - (* a buffer in a known state *)
      destruct (HKf eq_refl) as (Hal & HKc). cbn [y_err y_data y_logs] in *.
      assert (Hdn : w_dn w <> []).
      { intros E. rewrite E in Hal. inversion Hal as [E2|]. congruence. }
      unfold retry_facts. cbn [y_err y_data y_logs]. rewrite lens_logs_of. unfold lv. rewrite Ea, app_nil_r.
      assert (Hlast : last (lens (w_dn w)) 0%nat = length (oel (last (w_dn w) hd0)))
        by (unfold lens; apply (last_map_ne (fun h => length (oel h)) (w_dn w) 0%nat hd0 Hdn)).
      rewrite Hlast. split.
      + intros Hc. destruct (plain_completed_valid b m Hmd Hc) as (He & Hd & Hv & Hnb).
        destruct HKc as [([(Hb & _)|(Hb & _)] & _)|(c & -> & _)]; try contradiction;
          (exists b; rsplit; auto; intros Ht; pose proof (trusted_origin _ _ _ _ Hb Ht); destruct b; auto).
      + intros c Hc. destruct HKc as [(_ & Hq)|(c0 & -> & _ & Hq)].
        * rewrite (Hq Hdn) in Hc. discriminate.
        * rewrite Hq in Hc. inv Hc. destruct m; try contradiction; reflexivity.
    - assert (Hnn : w_act w <> []) by (rewrite Ea; discriminate). rewrite <- Ea in *. specialize (HJ Hnn).
      assert (Hgen : forall m' d e cbs w',
                m' <> MDiscard -> (forall x, completed m x = completed m' x) -> (forall c, expected_slice m c = expected_slice m' c) ->
                try_stack H cfg fuel (Datatypes.S (answers_left (w_act w))) m' b w [] = (d, e, cbs, w') -> e <> EFuel ->
                (completed m e = true ->
                   exists bf, biu (Some b0) anss (lens (lv w')) = Some bf /\ snd (ucontent bf) = EEof /\
                              d = expected_slice m (fst (ucontent bf)) /\
                              (bytes_trusted H cfg b0 anss -> valid_bytes H cfg (fst (ucontent bf)))) /\
                (forall c, returned (last anss []) (last (lens (lv w')) 0%nat) = Some c -> e = ECode c)).
      { intros m' d e cbs w' Hm' Hcm Hex Ht He.
        destruct (try_stack_J H cfg fuel anss b0 _ _ _ _ _ _ _ _ _ Ht HJ He) as (Hal & Hok & Hko).
        assert (Hlv : lv w' <> []).
        { intros E. rewrite E in Hal. inversion Hal as [E2|]. congruence. }
        assert (Hlast : last (lens (lv w')) 0%nat = length (oel (last (lv w') hd0)))
          by (unfold lens; apply (last_map_ne (fun h => length (oel h)) (lv w') 0%nat hd0 Hlv)).
        rewrite Hlast. split.
        - intros Hc. assert (Hop : op_done e = true) by (destruct e; try reflexivity; destruct m; discriminate).
          destruct (Hok Hop) as (bf & Hb & Hd & Hee & _). exists bf.
          destruct (completed_facts _ _ _ _ _ _ _ _ Hm' Hcm Hex Hb Hd Hee Hc) as (A & B & C). rsplit; auto.
        - intros c Hc. destruct (op_done e) eqn:Hop.
          + destruct (Hok eq_refl) as (_ & _ & _ & _ & Hq). rewrite Hq in Hc. discriminate.
          + destruct (Hko eq_refl) as (_ & c0 & -> & Hq). rewrite Hq in Hc. inv Hc. reflexivity. }
      unfold retry_facts. destruct m; try contradiction; cbn [ehs_method] in *.
      + destruct (try_stack _ _ _ _ _ _ _ _) as [[[d e] cbs] w'] eqn:Ht. cbn [y_err y_data y_logs] in *.
        rewrite lens_logs_of. eapply Hgen; eauto; try congruence.
      + destruct (try_stack _ _ _ _ _ _ _ _) as [[[d e] cbs] w'] eqn:Ht. cbn [y_err y_data y_logs] in *.
        rewrite lens_logs_of. eapply Hgen; eauto; try congruence.
      + destruct (try_stack _ _ _ _ _ _ _ _) as [[[d e] cbs] w'] eqn:Ht.
        assert (He : e <> EFuel) by (destruct e; cbn [y_err] in Hef; congruence).
        destruct (Hgen (MToByteSlice max) d e cbs w' ltac:(congruence) ltac:(reflexivity) ltac:(reflexivity) Ht He) as (A & B).
        destruct e; cbn [y_err y_data y_logs] in *; rewrite lens_logs_of; split; auto;
          intros Hc; discriminate.
  Qed.
End RetryFacts.

(** * The monitor on the model, every method *)
Definition dom16all (inp : sx) : Prop :=
  dom16 inp /\ y_err (out16 inp) <> EFuel /\
  bad_param (g_size (q_cfg (dec_case16 inp))) (q_meth (dec_case16 inp)) = false.

Lemma validb_valid H cfg d :
  valid_bytes H cfg d -> (lenN d =? g_size cfg)%N && bytes_eqb (g_hash cfg) (H d) = true.
Proof. intros (Hl & Hh). rewrite Hl, N.eqb_refl. cbn. apply bytes_eqb_eq. exact Hh. Qed.

Theorem mon16_silent_on_model : forall inp, dom16all inp -> mon16 inp (run16 inp) = [].
Proof.
  intros inp (Hdom & Hef & Hbp).
  destruct (q_meth (dec_case16 inp)) eqn:Em;
    try (apply mon16_silent_on_model_streaming; unfold dom16s; rewrite Em; rsplit; auto; exact I).
  all: pose proof Hdom as (Hne & Hwf & Hnf & Hpos).
  all: destruct (mon16 inp (run16 inp)) as [|k l] eqn:Hmon; [reflexivity|]; exfalso.
  all: assert (Hin : In k (mon16 inp (run16 inp))) by (rewrite Hmon; left; reflexivity); clear Hmon.
  all: pose proof (clause_1_silent_on_model inp Hne) as H1.
  all: destruct (clauses_8_9_silent_on_model inp) as (H8 & H9); pose proof (clause_10_silent_on_model inp) as H10.
  all: rewrite run16_out16 in *; unfold mon16 in Hin.
  all: set (c := dec_case16 inp) in *; set (o := out16 inp) in *.
  all: destruct (piece_of (q_b0 c) 0) as [p0 t0].
  all: destruct (stitch_stack p0 t0 (q_anss c)) as [[st term] offss].
  all: cbv zeta in Hin.
  all: rewrite H1 in Hin; rewrite H8, H9, H10 in Hin; rewrite Z.eqb_refl in Hin; cbv iota in Hin; cbn [app] in Hin.
  all: rewrite Em in Hin; cbn [is_discard] in Hin; cbv iota in Hin.
  4: contradiction.
  all: pose proof (run_stack_retry_facts (lookup (q_tbl c)) (q_cfg c) (stack_fuel (q_b0 c) (q_anss c))
                     (q_b0 c) (q_anss c) (q_meth c)) as Hrf.
  all: assert (Hretry : retrying (q_meth c)) by (rewrite Em; exact I).
  all: specialize (Hrf Hretry Hne).
  all: change (run_stack (lookup (q_tbl c)) (q_cfg c) (stack_fuel (q_b0 c) (q_anss c)) (q_b0 c) (q_anss c) (q_meth c)) with o in Hrf.
  all: specialize (Hrf Hef); destruct Hrf as (Hcomp & Htop); rewrite Em in Hcomp.
  all: unfold enc_out16s, sx_nth in Hin; cbn [sx_list nth] in Hin.
  all: change (L [of_Ns (y_data o); enc_err (y_err o); L (map enc_err (y_extra o));
                  L (if q_report c then map of_bool (y_cbs o) else []);
                  L (map enc_onerrors (y_logs o)); L (map enc_dones (y_logs o)); of_Ns (y_aux o); of_nats (y_closes o)])
         with (enc_out16s (q_report c) o) in Hin.
  all: rewrite obs_offered_out, sx_Z_enc_err, dec_bytes_of_Ns in Hin.
  all: assert (Hns : map (@length Z) (map (map R16.code_of) (map oell (y_logs o))) = lens_logs (y_logs o))
         by (unfold lens_logs; rewrite !map_map; apply map_ext; intros; apply map_length).
  all: assert (Hj : length (last (map (map R16.code_of) (map oell (y_logs o))) []) = last (lens_logs (y_logs o)) 0%nat)
         by (rewrite <- Hns; change 0%nat with (@length Z []); symmetry; apply last_map).
  all: rewrite buffer_in_use_biu, Hns, Hj in Hin.
  all: rewrite (completes_completed _ _ Hpos) in Hin.
  all: apply in_app_or in Hin; destruct Hin as [Hin|Hin].
  all: try (destruct (returned _ _) as [c'|] eqn:Hret; [|contradiction];
            rewrite (Htop _ eq_refl) in Hin; cbn [R16.code_of] in Hin; rewrite Z.eqb_refl in Hin; contradiction).
  all: match type of Hin with In _ (if ?x then _ else _) => destruct x eqn:Hc6 end; [|contradiction].
  all: apply andb_true_iff in Hc6; destruct Hc6 as (Hdone & Htr).
  all: destruct (Hcomp Hdone) as (bf & Hb & He & Hd & Hv).
  all: rewrite Hb in Hin; destruct (ucontent bf) as [cont t]; cbn [fst snd] in *; subst t.
  all: rewrite (validb_valid _ _ _ (Hv (trusted_bytes _ _ _ _ Htr))), Hd in Hin.
  all: change (expected ?m cont) with (expected_slice m cont) in Hin; rewrite bytes_eqb_refl in Hin.
  all: cbn in Hin; contradiction.
Qed.
