(** C16 — every streaming run of a stack, however it ends, against the
    level-wise specification: the validated stream is a prefix of the
    specification's stream, every level's offers so far are a prefix of the
    specification's, and the run ended in one of three ways — with the
    specification's own final error (all offers made), with a validation
    failure at the specification's io.EOF (all offers made), or with a
    validation failure because the specification's stream is longer than the
    digest's size. *)
From Coq Require Import List ZArith NArith Bool Lia.
From BBS Require Import Common.Sx Buffer.Source Buffer.Validate Buffer.Convert Buffer.ErrHandler
  Buffer.StreamProofs Buffer.ValidateProofs Buffer.ValidateReaderProofs Buffer.ConvertProofs
  Buffer.ReaderBufferProofs Buffer.ConvertProofs2 Buffer.ErrHandlerProofs Buffer.C09FullExtras
  Buffer.EHFullCarry Buffer.EHFullReader Buffer.EHFullMethods Buffer.EHFullStack Buffer.EHFullPrefix
  Buffer.EHFullExact Buffer.EHFullStackExact Buffer.EHFullStacking Buffer.EHFullCompleted Buffer.EHFullPartial
  Buffer.EHFullTrace Run.R09 Run.R16.
Import ListNotations.
Open Scope N_scope.

(** how a validated stream over the specification [(st, term, offss)] ended *)
Definition ended_as (cfg : vcfg) (e : err) (st : bytes) (term : err) (qss offss : list (list err)) : Prop :=
  (e = term /\ qss = offss) \/
  (e = ECode (g_code cfg) /\ term = EEof /\ qss = offss) \/
  (e = ECode (g_code cfg) /\ g_size cfg < lenN st).

Definition run_facts (cfg : vcfg) (spec : bytes * err * list (list err))
           (dn : list (list err)) (act : list (list err)) (out : bytes) (e : err) (logs : list (list err)) : Prop :=
  let '(st, term, offss) := spec in
  exists qss rest,
    logs = dn ++ zipo act qss /\ Forall2 lpre qss offss /\ st = out ++ rest /\ ended_as cfg e st term qss offss.

Lemma lpre_refl : forall l : list (list err), Forall2 lpre l l.
Proof. induction l; constructor; [exists []; now rewrite app_nil_r|assumption]. Qed.

(** with at least one active level the nested readers never say EFuel themselves
    (an out-of-fuel error of a reader underneath is offered to a handler) *)
Lemma escalate_nonempty : forall acts t ob e' passed act',
  escalate t acts = ((ob, e'), passed, act') -> acts <> [] ->
  match ob with Some _ => act' <> [] | None => passed <> [] /\ exists c, e' = ECode c end.
Proof.
  induction acts as [|h rest IH]; intros t ob e' passed act' He Hn; [congruence|]. cbn [escalate] in He.
  destruct (on_error h t) as [a h']. destruct a as [b|c]; [inv He; discriminate|].
  destruct (escalate (ECode c) rest) as [[r0 passed0] act0] eqn:Hr. destruct r0 as [ob0 e0]. inv He.
  destruct rest as [|h2 rest2].
  - cbn in Hr. inv Hr. split; [discriminate|eauto].
  - specialize (IH _ _ _ _ _ Hr ltac:(discriminate)). destruct ob; [exact IH|]. destruct IH as (_ & Hc). split; [discriminate|exact Hc].
Qed.

Lemma shr_read_shape fuel cap r c e r' :
  shr_read fuel cap r = ((c, e), r') -> w_act (sr_w r) <> [] -> e <> EFuel /\ w_act (sr_w r') <> [].
Proof.
  unfold shr_read. intros Hr Hn. destruct (urd_read fuel cap (sr_cur r)) as [[data t] cur'].
  destruct (escalate t (w_act (sr_w r))) as [[[ob e'] passed] act'] eqn:Hesc.
  pose proof (escalate_nonempty _ _ _ _ _ _ Hesc Hn) as Hs.
  destruct t; try (inv Hr; split; [congruence|assumption]);
    (destruct ob as [b|]; inv Hr; cbn; [split; [congruence|exact Hs]|destruct Hs as (Hp & cc & ->); split; [congruence|exact Hp]]).
Qed.
Lemma shr_rdrains_shape fuel r bs t r' :
  rdrains (shr_read fuel) r bs t r' -> w_act (sr_w r) <> [] -> t <> EFuel.
Proof.
  induction 1 as [cap r c e r1 Hr Hne|cap r c r1 bs e r2 Hr _ IH]; intros Hn.
  - exact (proj1 (shr_read_shape _ _ _ _ _ _ Hr Hn)).
  - apply IH. exact (proj2 (shr_read_shape _ _ _ _ _ _ Hr Hn)).
Qed.

Section StreamFacts.
  Variable H : bytes -> bytes.
  Variable cfg : vcfg.
  Variable fuel : nat.

  Lemma chunk_stream_facts max b w out e st' :
    drains (shv_read H cfg fuel max) (vinit cfg (sch_init fuel b w)) out e st' -> e <> EFuel ->
    wf_buf b -> hs_wf (w_act w) -> w_act w <> [] ->
    Forall (fun h => ~ In EFuel (oel h)) (lv (sc_w (v_u st'))) ->
    run_facts cfg (spec_of b (map h_answers (w_act w))) (map oel (w_dn w)) (map oel (w_act w)) out e
              (oews (sc_w (v_u st'))).
  Proof.
    intros Hd Hne Hwf Hw Hnn Hnf. unfold shv_read in Hd.
    destruct (vcr_trace H cfg _ _ fuel (sch_init fuel b w) _ [] _ _ _ Hd Hne (T_init _ _ _ _)) as (Ht & Herr).
    cbn [app] in Ht. unfold T in Ht. rewrite Herr in Ht.
    pose proof (drains_not_none _ _ _ _ _ _ Hd) as Hnn0.
    assert (Hx : exists bs r, bs = out ++ r /\ ended cfg _ (sch_read fuel fuel max) (sch_init fuel b w) bs (v_u st') e)
      by (destruct e; try congruence; exact Ht).
    clear Ht. destruct Hx as (bs & r & -> & [(t & Hdu & Het)|(Hpu & -> & Hlen)]).
    - (* the readers underneath ended *)
      assert (Htf : t <> EFuel) by (destruct Het as [->|(-> & _)]; congruence).
      destruct (stack_chunk_stream_is_stitch_stack _ _ _ _ _ _ _ _ Hdu Hwf Hw Hnn Htf Hnf) as (offss & Hss & Ho & _).
      unfold run_facts, spec_of. rewrite Hss. exists offss, r. rsplit; auto; [apply lpre_refl|].
      destruct Het as [->|(-> & ->)]; [left; auto|right; left; auto].
    - destruct (stack_chunk_pulled_is_prefix _ _ _ _ _ _ _ Hpu Hwf Hw Hnn Hnf) as (rest & e2 & offss & qss & Hss & Ho & Hq).
      unfold run_facts, spec_of. rewrite Hss. exists qss, (r ++ rest). rsplit; auto; [now rewrite <- app_assoc|].
      right. right. split; [reflexivity|]. rewrite lenN_app. lia.
  Qed.

  Lemma reader_stream_facts b w out e st' :
    rdrains (shrv_read H cfg fuel) (vinit cfg (shr_init fuel b w)) out e st' -> e <> EFuel ->
    wf_buf b -> hs_wf (w_act w) -> w_act w <> [] ->
    Forall (fun h => ~ In EFuel (oel h)) (lv (sr_w (v_u st'))) ->
    run_facts cfg (spec_of b (map h_answers (w_act w))) (map oel (w_dn w)) (map oel (w_act w)) out e
              (oews (sr_w (v_u st'))).
  Proof.
    intros Hd Hne Hwf Hw Hnn Hnf. unfold shrv_read in Hd.
    assert (HP : forall cap s c e s', urd_nu (sr_cur s) -> shr_read fuel cap s = ((c, e), s') ->
                   e <> EUnexp /\ (e = ENone -> urd_nu (sr_cur s')))
      by (intros; eapply shr_read_nu; eauto).
    destruct (vr_trace H cfg _ _ fuel (shr_init fuel b w) (fun s => urd_nu (sr_cur s)) HP _ [] _ _ _ Hd Hne
                (Tr_init cfg _ (shr_read fuel) (shr_init fuel b w) (fun s => urd_nu (sr_cur s)) (urd_open_nu fuel b 0))) as (Ht & Herr).
    cbn [app] in Ht. unfold Tr in Ht. rewrite Herr in Ht.
    pose proof (rdrains_not_none _ _ _ _ _ _ Hd) as Hnn0.
    assert (Hx : exists bs r, bs = out ++ r /\
                   endedr cfg _ (shr_read fuel) (shr_init fuel b w) bs (v_u st') e)
      by (destruct e; try congruence; exact Ht).
    clear Ht. destruct Hx as (bs & r & -> & [(t & Hdu & Het)|(Hpu & -> & Hlen)]).
    - assert (Htf : t <> EFuel) by (eapply shr_rdrains_shape; [exact Hdu|exact Hnn]).
      destruct (stack_reader_stream_is_stitch_stack _ _ _ _ _ _ Hdu Hwf Hw Hnn Htf Hnf) as (offss & Hss & Ho & _).
      unfold run_facts, spec_of. rewrite Hss. exists offss, r. rsplit; auto; [apply lpre_refl|].
      destruct Het as [->|[(-> & ->)|(-> & Hl)]]; [left; auto|right; left; auto|right; right; auto].
    - destruct (stack_reader_pulled_is_prefix _ _ _ _ _ Hpu Hwf Hw Hnn Hnf) as (rest & e2 & offss & qss & Hss & Ho & Hq).
      unfold run_facts, spec_of. rewrite Hss. exists qss, (r ++ rest). rsplit; auto; [now rewrite <- app_assoc|].
      right. right. split; [reflexivity|]. rewrite lenN_app. lia.
  Qed.
End StreamFacts.

(** * Withholding: a consumer of a validated stream that did not complete holds
    fewer than [size] bytes (casValidatingReader over any io.Reader) *)
Section VrWithhold.
  Variable H : bytes -> bytes.
  Variable cfg : vcfg.
  Variable S : Type.
  Variable rd : N -> S -> (bytes * err) * S.
  Variable fuel : nat.
  Notation vrd := (vr_read H cfg rd fuel).

  Definition Wv (st : vst S) (out : bytes) : Prop :=
    match v_err st with
    | ENone => v_rem st + lenN out = g_size cfg /\ (0 < v_rem st \/ out = [])
    | EEof => True
    | _ => lenN out < g_size cfg \/ out = []
    end.

  Lemma Wv_init u : Wv (vinit cfg u) [].
  Proof. unfold Wv. cbn. split; [unfold lenN; cbn; lia|auto]. Qed.

  Lemma vr_read_withhold cap (st : vst S) out c e st' :
    vrd cap st = ((c, e), st') -> Wv st out -> Wv st' (out ++ c).
  Proof.
    intros Hr Hw. unfold vr_read in Hr. unfold Wv in Hw.
    destruct (v_err st) eqn:Herr; try (inv Hr; rewrite app_nil_r; unfold Wv; rewrite Herr; exact Hw).
    destruct Hw as (Hrem & Hpos).
    assert (Hlt0 : lenN out < g_size cfg \/ out = []) by (destruct Hpos as [?| ->]; [left; lia|auto]).
    destruct (vr_do_read H cfg rd fuel cap st) as [[d0 e0] st0] eqn:Hdo. injection Hr as <- <- <-.
    assert (Hfail : forall (sx : vst S) y, y <> ENone -> y <> EEof -> Wv (v_set_err sx y) (out ++ [])).
    { intros sx y Hy1 Hy2. rewrite app_nil_r. unfold Wv. cbn [v_set_err v_err]. destruct y; try congruence; exact Hlt0. }
    unfold vr_do_read in Hdo. destruct (rd cap (v_u st)) as [[data re] u'].
    cbn [v_set_u v_rem v_u v_acc v_err v_cbs] in Hdo.
    destruct (v_rem st <? lenN data) eqn:Hlt; [unfold v_fail in Hdo; injection Hdo as <- <- <-; apply Hfail; congruence|].
    apply N.ltb_ge in Hlt.
    destruct re; cbn [v_rem v_u v_acc v_err v_cbs] in Hdo.
    - destruct (v_rem st - lenN data =? 0) eqn:Hz.
      + destruct (read_full rd fuel 1 u') as [[fin fe] u'']. cbn [v_set_u v_rem v_u v_acc v_err v_cbs] in Hdo.
        assert (Hfin :
          (if v_rem st - lenN data <? lenN fin
           then let '(e', st'0) := v_fail cfg (mkVst u'' (v_rem st - lenN data) (v_acc st ++ data) (v_err st) (v_cbs st)) in
                (([], e'), st'0)
           else let '(e', st'0) := vr_compare H cfg (mkVst u'' (v_rem st - lenN data) (v_acc st ++ data) (v_err st) (v_cbs st)) in
                match e' with
                | ENone => ((data, EEof), v_notify st'0 true)
                | _ => (([], e'), st'0)
                end) = ((d0, e0), st0) -> Wv (v_set_err st0 e0) (out ++ d0)).
        { destruct (_ <? lenN fin); [unfold v_fail; intros Hx; injection Hx as <- <- <-; apply Hfail; congruence|].
          destruct (vr_compare H cfg _) as [e' st1] eqn:Hcmp.
          destruct (vr_compare_code _ _ _ _ _ _ Hcmp) as [-> | ->]; intros Hx; injection Hx as <- <- <-.
          - unfold Wv. cbn. exact Logic.I.
          - apply Hfail; congruence. }
        destruct fe; try (apply Hfin; exact Hdo); injection Hdo as <- <- <-; apply Hfail; congruence.
      + apply N.eqb_neq in Hz. injection Hdo as <- <- <-. unfold Wv. cbn. rewrite lenN_app. split; [lia|left; lia].
    - destruct (negb (v_rem st - lenN data =? 0)); [unfold v_fail in Hdo; injection Hdo as <- <- <-; apply Hfail; congruence|].
      revert Hdo. destruct (vr_compare H cfg _) as [e' st1] eqn:Hcmp.
      destruct (vr_compare_code _ _ _ _ _ _ Hcmp) as [-> | ->]; intros Hx; injection Hx as <- <- <-.
      + unfold Wv. cbn. exact Logic.I.
      + apply Hfail; congruence.
    - injection Hdo as <- <- <-. apply Hfail; congruence.
    - injection Hdo as <- <- <-. apply Hfail; congruence.
    - injection Hdo as <- <- <-. apply Hfail; congruence.
  Qed.

  Theorem vr_withheld st out bs e st' :
    rdrains vrd st bs e st' -> Wv st out -> Wv st' (out ++ bs).
  Proof.
    intros Hd. revert out. induction Hd as [cap st c e st1 Hr Hne|cap st c st1 bs e st2 Hr _ IH]; intros out Hw.
    - eapply vr_read_withhold; eassumption.
    - rewrite app_assoc. apply IH. eapply vr_read_withhold; eassumption.
  Qed.
End VrWithhold.

Section Withheld.
  Variable H : bytes -> bytes.
  Variable cfg : vcfg.
  Variable fuel : nat.
  Lemma chunk_stream_withheld max r0 out e st' :
    drains (shv_read H cfg fuel max) (vinit cfg r0) out e st' -> e <> EEof -> out = [] \/ lenN out < g_size cfg.
  Proof.
    intros Hd Hne. unfold shv_read in Hd.
    destruct (vcr_drains _ _ _ _ _ _ _ _ _ _ _ (Inv_init _ _ _ _ r0) Hd) as ((_ & Hi) & Herr). cbn [app] in Hi.
    pose proof (drains_not_none _ _ _ _ _ _ Hd) as Hnn. rewrite Herr in Hi.
    destruct e; try congruence; destruct Hi as ([?|?] & _); auto.
  Qed.
  Lemma vr_rdrains_err {S} (rd : N -> S -> (bytes * err) * S) st bs e st' :
    rdrains (vr_read H cfg rd fuel) st bs e st' -> v_err st' = e.
  Proof.
    induction 1 as [cap st c e st1 Hr Hne|cap st c st1 bs e st2 Hr _ IH]; [|exact IH].
    unfold vr_read in Hr. destruct (v_err st) eqn:Herr; try (inv Hr; exact Herr).
    destruct (vr_do_read H cfg rd fuel cap st) as [[d0 e0] st0]. inv Hr. reflexivity.
  Qed.
  Lemma reader_stream_withheld r0 out e st' :
    rdrains (shrv_read H cfg fuel) (vinit cfg r0) out e st' -> e <> EEof -> out = [] \/ lenN out < g_size cfg.
  Proof.
    intros Hd Hne. unfold shrv_read in Hd.
    pose proof (vr_withheld _ _ _ _ _ _ [] _ _ _ Hd (Wv_init _ _ r0)) as Hw. cbn [app] in Hw.
    pose proof (vr_rdrains_err _ _ _ _ _ Hd) as Herr. pose proof (rdrains_not_none _ _ _ _ _ _ Hd) as Hnn.
    unfold Wv in Hw. rewrite Herr in Hw. destruct e; try congruence; destruct Hw; auto.
  Qed.
End Withheld.

(** * Every streaming method on a stack with an active level *)
Lemma offset_fixed_first {S} (rd : S -> (bytes * err) * S) (o : ost S) fuel out e o1 :
  drain (offset_read rd) fuel [] o = ((out, e), o1) -> o_fixed o <> ENone -> e <> EFuel ->
  out = [] /\ e = o_fixed o /\ o1 = o.
Proof.
  intros Hd Hf Hne. destruct fuel as [|f]; cbn [drain] in Hd; [inv Hd; congruence|].
  unfold offset_read in Hd. destruct (o_fixed o) eqn:Ef; try congruence; inv Hd; auto.
Qed.

Lemma dropN_prefix k a r : exists r', dropN k (a ++ r) = dropN k a ++ r'.
Proof.
  destruct (N.le_gt_cases k (lenN a)) as [Hle|Hgt].
  - exists r. now apply dropN_app.
  - exists (dropN (k - lenN a) r). rewrite dropN_app_ge by lia. rewrite (dropN_all k a) by lia. reflexivity.
Qed.

Section MethodFacts.
  Variable H : bytes -> bytes.
  Variable cfg : vcfg.
  Variable fuel : nat.

  Definition method_err (m : meth) (e : err) : err :=
    match m with MIntoWriter => match e with EEof => ENone | _ => e end | _ => e end.

  Theorem ehs_streaming_facts b w m :
    streaming m -> bad_param (g_size cfg) m = false ->
    wf_buf b -> hs_wf (w_act w) -> w_act w <> [] ->
    y_err (ehs_method H cfg fuel b w m) <> EFuel ->
    no_fuel_offered (y_logs (ehs_method H cfg fuel b w m)) ->
    exists out e,
      e <> ENone /\
      run_facts cfg (spec_of b (map h_answers (w_act w))) (map oel (w_dn w)) (map oel (w_act w)) out e
                (map oell (y_logs (ehs_method H cfg fuel b w m))) /\
      y_data (ehs_method H cfg fuel b w m) = dropN (Z.to_N (m_off m)) out /\
      y_err (ehs_method H cfg fuel b w m) = method_err m e /\
      (e <> EEof -> out = [] \/ lenN out < g_size cfg).
  Proof.
    intros Hm. destruct m; try contradiction; cbn [ehs_method bad_param m_off method_err].
    - (* IntoWriter *)
      intros _. unfold into_writer_cr. destruct (drain _ fuel [] _) as [[out e] st1] eqn:Hd.
      cbn [y_err y_data y_logs]. intros Hwf Hw Hnn Hne Hnf.
      assert (He : e <> EFuel) by (destruct e; congruence).
      destruct (drain_drains _ _ _ _ _ _ _ _ Hd He) as (bs & -> & Hds). cbn [app] in *.
      cbn [shv_close v_set_u v_u] in *. rewrite oews_sch_closed in *.
      pose proof (no_fuel_lv _ _ (oews_sch_closed (v_u st1)) Hnf) as Hnf'.
      exists bs, e. rsplit; [exact (drains_not_none _ _ _ _ _ _ Hds)| |now rewrite dropN_0|reflexivity|].
      + eapply chunk_stream_facts; eassumption.
      + eapply chunk_stream_withheld; exact Hds.
    - (* ToChunkReader *)
      intros Hbp. apply negb_false_iff in Hbp. rewrite Hbp.
      destruct (drain _ fuel [] _) as [[out e] o1] eqn:Hd.
      destruct (extra_reads _ extra o1) as [ex o2] eqn:Hex.
      cbn [y_err y_data y_logs]. intros Hwf Hw Hnn Hne Hnf.
      assert (Hst : sticky _ (offset_read (shv_read H cfg fuel max))).
      { intros s c e0 s' Hr Hne0 Hnf0. eapply offset_read_sticky; [|exact Hr|exact Hne0|exact Hnf0].
        intros s0 c0 e1 s0' Hr0 Hne1 _. unfold shv_read in *. exact (proj2 (vcr_sticky _ _ _ _ _ _ _ _ _ Hr0 Hne1)). }
      rewrite (drain_then_extra _ _ _ _ _ _ _ _ extra Hst Hd Hne) in Hex. inv Hex.
      unfold valid_offset in Hbp. apply andb_true_iff in Hbp. destruct Hbp as (Hpos & Hsz). apply Z.leb_le in Hpos.
      unfold offset_init in Hd. destruct (off <? 0)%Z eqn:Hneg; [apply Z.ltb_lt in Hneg; lia|].
      destruct (discard_from_chunk_reader (shv_read H cfg fuel max) fuel (Z.to_N off) _) as [[prefix e0] s'] eqn:Hdis.
      assert (Hfail : e0 <> ENone ->
        drain (offset_read (shv_read H cfg fuel max)) fuel [] (mkOst (shv_close s') [] e0) = ((out, e), o2) ->
        exists out0 e1, e1 <> ENone /\
          run_facts cfg (spec_of b (map h_answers (w_act w))) (map oel (w_dn w)) (map oel (w_act w)) out0 e1
            (map oell (logs_of (sc_w (v_u (o_u (offset_close shv_close o2)))))) /\
          out = dropN (Z.to_N off) out0 /\ e = e1 /\ (e1 <> EEof -> out0 = [] \/ lenN out0 < g_size cfg)).
      { intros Hn0 Hd'. destruct (offset_fixed_first _ _ _ _ _ _ Hd' ltac:(cbn; exact Hn0) Hne) as (-> & -> & ->).
        cbn [o_fixed] in *.
        destruct (discard_fails _ _ _ _ _ _ _ _ Hdis Hn0 Hne) as (bs0 & Hd0 & Hl0).
        unfold offset_close. cbn [o_fixed]. destruct e0; try congruence;
          cbn [o_u shv_close v_set_u v_u] in *; rewrite oews_sch_closed in *;
          pose proof (no_fuel_lv _ _ (oews_sch_closed (v_u s')) Hnf) as Hnf';
          (exists bs0; eexists; rsplit; [| |symmetry; apply dropN_all; lia|reflexivity|];
           [congruence|eapply chunk_stream_facts; eassumption|eapply chunk_stream_withheld; exact Hd0]). }
      destruct e0; try (apply Hfail; [congruence|exact Hd]).
      destruct (drain_drains _ _ _ _ _ _ _ _ Hd Hne) as (bs & -> & Hds). cbn [app] in *.
      destruct (discard_pulls _ _ _ _ _ _ _ Hdis) as (bs0 & Hp0 & -> & Hle).
      pose proof (offset_drains_fixed _ _ _ _ _ Hds eq_refl) as Hfx.
      destruct (offset_drains _ _ _ _ _ _ _ Hds) as (bs2 & -> & Hd2).
      pose proof (pulls_drains _ _ _ _ _ _ _ _ Hp0 Hd2) as Hall.
      unfold offset_close in *. rewrite Hfx in *. cbn [o_u shv_close v_set_u v_u] in *. rewrite oews_sch_closed in *.
      pose proof (no_fuel_lv _ _ (oews_sch_closed (v_u (o_u o2))) Hnf) as Hnf'.
      exists (bs0 ++ bs2), e. rsplit; [exact (drains_not_none _ _ _ _ _ _ Hd2)| |now rewrite dropN_app|reflexivity|].
      + eapply chunk_stream_facts; eassumption.
      + eapply chunk_stream_withheld; exact Hall.
    - (* ToReader *)
      intros _. destruct (rconsume _ fuel caps _ [] _) as [[out e] st1] eqn:Hr.
      destruct (rextra _ extra _ st1) as [ex st2] eqn:Hex.
      cbn [y_err y_data y_logs]. intros Hwf Hw Hnn Hne Hnf.
      destruct (rconsume_rdrains _ _ _ _ _ _ _ _ _ _ Hr Hne) as (bs & -> & Hds). cbn [app] in *.
      assert (Hst2 : st2 = st1).
      { destruct (rconsume_last _ _ _ _ _ _ _ _ _ _ Hr Hne) as (cap & s1 & c & Hrd & Hne0).
        unfold shrv_read in *.
        pose proof (vr_sticky _ _ _ _ _ _ _ _ _ _ Hrd Hne0 (last_cap caps)) as Hsk.
        pose proof (rextra_nodata _ _ (last_cap caps) extra st1 (ex_intro _ _ Hsk)) as (_ & Hs).
        rewrite Hex in Hs. exact Hs. }
      subst st2. cbn [v_set_u v_u] in *. rewrite oews_shr_closed in *.
      pose proof (no_fuel_lv _ _ (oews_shr_closed (v_u st1)) Hnf) as Hnf'.
      exists bs, e. rsplit; [exact (rdrains_not_none _ _ _ _ _ _ Hds)| |now rewrite dropN_0|reflexivity|].
      + eapply reader_stream_facts; eassumption.
      + eapply reader_stream_withheld; exact Hds.
  Qed.
End MethodFacts.


(** * The whole stack, from the original buffer and all scripts *)
Lemma zipo_lpre : forall (act qss offss : list (list err)),
  Forall2 lpre qss offss -> length qss = length act -> Forall2 lpre (zipo act qss) (zipo act offss).
Proof.
  induction act as [|a r IH]; intros qss offss Hf Hl; [constructor|].
  destruct Hf as [|q o qs os (x & ->) Hf]; [discriminate|]. cbn [zipo]. constructor.
  - exists x. now rewrite app_assoc.
  - apply IH; [exact Hf|cbn in Hl; lia].
Qed.
Lemma lpre_app a b c d : Forall2 lpre a b -> Forall2 lpre c d -> Forall2 lpre (a ++ c) (b ++ d).
Proof. induction 1; cbn; [auto|constructor; auto]. Qed.

Section WholeRuns.
  Variable H : bytes -> bytes.
  Variable cfg : vcfg.
  Variable fuel : nat.

  (** how a run ended, against the specification [(st, term, offss)] and the
      final OnError arguments [logs] of all levels *)
  Definition ended_run (e : err) (st : bytes) (term : err) (logs offss : list (list err)) : Prop :=
    (e = term /\ logs = offss) \/
    (e = ECode (g_code cfg) /\ term = EEof /\ logs = offss) \/
    (e = ECode (g_code cfg) /\ g_size cfg < lenN st).

  Theorem run_stack_streaming_facts b0 anss m :
    streaming m -> anss <> [] -> bad_param (g_size cfg) m = false ->
    wf_case b0 anss ->
    y_err (run_stack H cfg fuel b0 anss m) <> EFuel ->
    no_fuel_offered (y_logs (run_stack H cfg fuel b0 anss m)) ->
    let o := run_stack H cfg fuel b0 anss m in
    let '(st, term, offss) := (let '(p0, t0) := piece_of b0 0 in stitch_stack p0 t0 anss) in
    Forall2 lpre (map oell (y_logs o)) offss /\
    ((y_err o = ECode 3 /\ y_data o = [] /\ term = EEof /\ map oell (y_logs o) = offss) \/
     (exists out e rest,
        e <> ENone /\ st = out ++ rest /\ y_data o = dropN (Z.to_N (m_off m)) out /\
        y_err o = method_err m e /\ (e <> EEof -> out = [] \/ lenN out < g_size cfg) /\
        ended_run e st term (map oell (y_logs o)) offss)).
  Proof.
    intros Hm Hne Hbp Hwf. unfold run_stack.
    destruct (stack_handlers b0 _ _) as [b w] eqn:Hs. intros Hef Hnf.
    destruct (stacked_spec _ _ _ _ Hs Hwf) as (Hb & Hw & Hspec). cbv zeta.
    destruct (w_act w) as [|a act] eqn:Ea.
    - (* a buffer in a known state *)
      cbn [y_err y_data y_logs] in *.
      assert (Hk : match b with BBytes _ | BError _ => True | _ => False end).
      { eapply stack_handlers_known; [exact Hs| |reflexivity|exact Ea]. destruct anss; [congruence|discriminate]. }
      assert (Hlogs : map oell (logs_of w) = map oel (w_dn w)) by (unfold logs_of; rewrite Ea, map_oell_logs, app_nil_r; reflexivity).
      destruct b as [evs|evs a0|d|x]; try contradiction; cbn [plain] in *.
      + pose proof (piece0_known (BBytes d)) as Hpk. unfold piece0 in Hpk. rewrite Hpk in Hspec.
        cbn [map stitch_stack zipo] in Hspec. rewrite app_nil_r in Hspec. rewrite Hspec, Hlogs.
        split; [apply lpre_refl|].
        destruct m; try contradiction; cbn [byte_slice_buffer m_off method_err o_data o_err] in *.
        * right. exists d, EEof, []. rewrite app_nil_r. change (Z.to_N 0) with 0. rewrite dropN_0.
          rsplit; auto; try congruence. left. auto.
        * destruct (valid_offset (lenN d) off) eqn:Hv.
          -- destruct (drain (bs_read max) fuel [] (dropN (Z.to_N off) d)) as [[out e] s] eqn:Hd.
             destruct (extra_reads (bs_read max) extra s) as [ex s2]. cbn [o_data o_err] in *.
             destruct (drain_drains _ _ _ _ _ _ _ _ Hd Hef) as (bs & -> & Hds). cbn [app].
             destruct (bs_read_drains _ _ _ _ _ Hds) as (-> & ->).
             right. exists d, EEof, []. rewrite app_nil_r. rsplit; auto; try congruence. left. auto.
          -- cbn [o_data o_err]. left. auto.
        * destruct (rconsume bb_read fuel caps (last_cap caps) [] d) as [[out e] s] eqn:Hr.
          destruct (rextra bb_read extra (last_cap caps) s) as [ex s2]. cbn [o_data o_err] in *.
          destruct (rconsume_rdrains _ _ _ _ _ _ _ _ _ _ Hr Hef) as (bs & -> & Hds). cbn [app].
          destruct (bb_rdrains _ _ _ _ Hds) as (-> & ->).
          right. exists d, EEof, []. rewrite app_nil_r, dropN_0. rsplit; auto; try congruence. left. auto.
      + pose proof (piece0_known (BError x)) as Hpk. unfold piece0 in Hpk. rewrite Hpk in Hspec.
        cbn [map stitch_stack zipo] in Hspec. rewrite app_nil_r in Hspec. rewrite Hspec, Hlogs.
        split; [apply lpre_refl|]. right. exists [], (ECode x), []. 
        destruct m; try contradiction; cbn [error_buffer o_data o_err m_off method_err]; rsplit; auto; try congruence;
          try (now destruct (Z.to_N off)); left; auto.
    - assert (Hnn : w_act w <> []) by (rewrite Ea; discriminate). rewrite <- Ea in *.
      destruct (ehs_streaming_facts H cfg fuel b w m Hm Hbp Hb Hw Hnn Hef Hnf) as (out & e & Hen & Hrf & Hdat & Herr & Hwh).
      unfold run_facts in Hrf. unfold spec_of in Hrf.
      destruct (let '(p, t) := piece_of b 0 in stitch_stack p t (map h_answers (w_act w))) as [[st term] offss_b] eqn:Hsb.
      destruct Hrf as (qss & rest & Hlog & Hq & Hst & Hend).
      rewrite Hspec.
      assert (Hlq : length qss = length (map oel (w_act w))).
      { pose proof (stitch_stack_length (map h_answers (w_act w)) (fst (piece_of b 0)) (snd (piece_of b 0))) as Hl.
        destruct (piece_of b 0) as [p t]. cbn [fst snd] in Hl. rewrite Hsb in Hl. cbn [snd] in Hl.
        rewrite (Forall2_len _ _ _ Hq), Hl, !map_length. reflexivity. }
      split.
      + rewrite Hlog. apply lpre_app; [apply lpre_refl|apply zipo_lpre; assumption].
      + right. exists out, e, rest. rsplit; auto.
        destruct Hend as [(-> & ->)|[(-> & -> & ->)|(-> & Hl)]].
        * left. rewrite Hlog. auto.
        * right. left. rewrite Hlog. auto.
        * right. right. auto.
  Qed.
End WholeRuns.
