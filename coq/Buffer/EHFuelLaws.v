(** C16 (fuel) — progress laws for the readers of the error-handling buffer.

    The cost of a buffer script is [bcost b] (4 + the C09 measure of its
    script, 4 + the length of a byte slice, 1 for an error buffer; [buf_fuel b
    = 4 * bcost b]), the cost of an answer is the cost of its replacement (1
    for an error answer), the cost of the active levels of a stack is the sum
    over all answers they have left.  The measure of a nested
    errorHandlingChunkReader / errorHandlingReader is the measure of the plain
    reader in use plus the cost of the active levels: a read that hands out
    data decreases the first, a replacement moves the cost of its answer
    (strictly more than the measure of the freshly opened reader) out of the
    second.  So the readers satisfy the progress laws of C09FuelLoops.v and
    every loop above them returns something other than [EFuel] as soon as the
    fuel exceeds the measure; and no error offered to a handler is [EFuel]
    ([Wok]: no [HOnError EFuel] in any log). *)
From Coq Require Import List ZArith NArith Bool Lia.
From BBS Require Import Buffer.Source Buffer.Validate Buffer.Convert Buffer.ErrHandler
  Buffer.StreamProofs Buffer.ValidateProofs Buffer.C09FuelLoops Buffer.C09FuelSuffices.
Import ListNotations.
Open Scope nat_scope.

(** * Costs *)
Definition bcost (b : bufscript) : nat :=
  match b with
  | BChunk e | BReader e _ => 4 + measure e
  | BBytes d => 4 + length d
  | BError _ => 1
  end.
Definition acost (a : answer) : nat := match a with Replace b => bcost b | Fail _ => 1 end.
Definition anscost (ans : list answer) : nat := fold_right (fun a n => acost a + n) 0 ans.
Definition actcost (act : list hst) : nat := fold_right (fun h n => anscost (h_answers h) + n) 0 act.

Lemma bcost_pos b : 1 <= bcost b.
Proof. destruct b; cbn [bcost]; lia. Qed.
Lemma acost_pos a : 1 <= acost a.
Proof. destruct a; cbn [acost]; [apply bcost_pos|lia]. Qed.
Lemma anscost_cons a r : anscost (a :: r) = acost a + anscost r.
Proof. reflexivity. Qed.
Lemma actcost_cons h r : actcost (h :: r) = anscost (h_answers h) + actcost r.
Proof. reflexivity. Qed.
Lemma actcost_app a b : actcost (a ++ b) = actcost a + actcost b.
Proof. induction a as [|h r IH]; cbn [app]; rewrite ?actcost_cons; [reflexivity|]. rewrite IH. lia. Qed.
Lemma anscost_length ans : length ans <= anscost ans.
Proof. induction ans as [|a r IH]; [cbn; lia|]. rewrite anscost_cons. pose proof (acost_pos a). cbn [length]. lia. Qed.

(** number of answers left (the retry counters of the model) *)
Definition ansleft (act : list hst) : nat := fold_right (fun h n => length (h_answers h) + n) 0 act.
Lemma ansleft_cons h r : ansleft (h :: r) = length (h_answers h) + ansleft r.
Proof. reflexivity. Qed.

(** * Logs without an out-of-fuel offer *)
Definition clean (h : hst) : Prop := ~ In (HOnError EFuel) (h_log h).
Definition Wok (w : world) : Prop := Forall clean (w_dn w ++ w_act w).

Lemma clean_done h : clean h -> clean (done h).
Proof.
  unfold clean, done. cbn [h_log]. intros Hc Hin. apply in_app_or in Hin.
  destruct Hin as [Hin|[Hin|[]]]; [auto|discriminate].
Qed.
Lemma clean_map_done hs : Forall clean hs -> Forall clean (map done hs).
Proof. intros Hf. rewrite Forall_map. eapply Forall_impl; [|exact Hf]. intros h. apply clean_done. Qed.

Lemma on_error_fuel h e a h' : on_error h e = (a, h') -> e <> EFuel -> clean h ->
  clean h' /\
  match a with
  | Replace b => bcost b + anscost (h_answers h') <= anscost (h_answers h) /\
                 S (length (h_answers h')) <= length (h_answers h)
  | Fail _ => anscost (h_answers h') <= anscost (h_answers h) /\ length (h_answers h') <= length (h_answers h)
  end.
Proof.
  unfold on_error, clean. intros Ho He Hc.
  assert (Hl : forall l, l = h_log h ++ [HOnError e] -> ~ In (HOnError EFuel) l).
  { intros l -> Hin. apply in_app_or in Hin. destruct Hin as [Hin|[Hin|[]]]; [auto|]. inv Hin. congruence. }
  destruct (h_answers h) as [|a0 r] eqn:Ea; inv Ho; cbn [h_log h_answers].
  - split; [apply Hl; reflexivity|]. cbn. lia.
  - split; [apply Hl; reflexivity|]. rewrite anscost_cons. cbn [length].
    destruct a as [b|c]; cbn [acost]; lia.
Qed.

Lemma escalate_fuel : forall act e ob e' passed act',
  escalate e act = ((ob, e'), passed, act') -> e <> EFuel -> Forall clean act ->
  e' <> EFuel /\ (e' = e \/ exists c, e' = ECode c) /\ Forall clean passed /\ Forall clean act' /\
  match ob with
  | Some b => bcost b + actcost act' <= actcost act /\ S (ansleft act') <= ansleft act
  | None => act' = [] /\ actcost passed <= actcost act /\ ansleft passed <= ansleft act
  end.
Proof.
  induction act as [|h rest IH]; intros e ob e' passed act' He Hne Hcl; cbn [escalate] in He.
  - inv He. rsplit; auto; cbn; lia.
  - inversion Hcl as [|x l Hh Hrest]; subst.
    destruct (on_error h e) as [a h'] eqn:Ho.
    destruct (on_error_fuel _ _ _ _ Ho Hne Hh) as (Hc' & Hcost).
    destruct a as [b|c].
    + inv He. rewrite !actcost_cons, !ansleft_cons. rsplit; auto; try lia; try (constructor; assumption).
    + destruct (escalate (ECode c) rest) as [[r p] a'] eqn:Hr. inv He.
      destruct (IH _ _ _ _ _ Hr ltac:(congruence) Hrest) as (A & B & C & D & E).
      assert (B' : e' = e \/ (exists c0 : Z, e' = ECode c0)) by (right; destruct B as [->|[c' ->]]; eauto).
      assert (C' : Forall clean (h' :: p)) by (constructor; assumption).
      destruct ob as [b|].
      * rewrite actcost_cons, ansleft_cons. rsplit; auto; lia.
      * destruct E as (-> & E1 & E2). rewrite !actcost_cons, !ansleft_cons. rsplit; auto; lia.
Qed.

(** * The plain unvalidated chunk reader *)
Notation ctrue := (fun _ : csrc => True).
Notation cmeas := (fun s : csrc => measure (c_rest s)).
Notation rtrue := (fun _ : rsrc => True).
Notation rmeas := (fun s : rsrc => measure (r_rest s)).

Definition Iucr (fuel : nat) (u : ucr) : Prop :=
  match u with
  | UNorm n => Io ctrue (n_u n) /\ muo cmeas (n_u n) < fuel
  | URb r => Irb rtrue rmeas fuel r
  | UBs _ => True
  | UErr e | UFail e _ => e <> ENone /\ e <> EFuel
  end.
Definition mucr (u : ucr) : nat :=
  match u with
  | UNorm n => mun (muo cmeas) n
  | URb r => murb rmeas r
  | UBs d => length d
  | UErr _ | UFail _ _ => 0
  end.

Lemma csrc_close_inv s : ctrue s -> ctrue (csrc_close s) /\ cmeas (csrc_close s) <= cmeas s.
Proof. intros _. cbn. auto. Qed.

Lemma ucr_read_prog fuel max : (1 <= max)%N -> cprog (fun _ => 0) (ucr_read fuel max) (Iucr fuel) mucr.
Proof.
  intros Hmax u c e u' Hi Hr. destruct u as [n|r|d|x|x s]; cbn [ucr_read Iucr mucr] in *.
  - destruct (norm_read (offset_read csrc_read) fuel max n) as [res n'] eqn:Hn. inv Hr.
    pose proof (norm_read_prog _ _ _ (offset_read_prog _ _ _ csrc_read_prog) fuel max Hmax) as P.
    destruct (P n c e n' Hi Hn) as (A & B & C & D). cbn [Iucr mucr]. auto.
  - destruct (rb_read rsrc_read fuel max r) as [res r'] eqn:Hn. inv Hr.
    pose proof (rb_read_prog _ _ _ rsrc_read_prog fuel max Hmax) as P.
    destruct (P r c e r' Hi Hn) as (A & B & C & D). cbn [Iucr mucr]. auto.
  - destruct (bs_read max d) as [res d'] eqn:Hn. inv Hr.
    destruct (bs_read_prog max Hmax d c e d' I Hn) as (A & B & C & D). cbn [Iucr mucr]. auto.
  - inv Hr. cbn [Iucr mucr]. destruct Hi. rsplit; auto. congruence.
  - inv Hr. cbn [Iucr mucr]. destruct Hi. rsplit; auto. congruence.
Qed.

Lemma ucr_open_fuel fuel b off : bcost b <= fuel ->
  Iucr fuel (ucr_open fuel b off) /\ S (mucr (ucr_open fuel b off)) <= bcost b.
Proof.
  intros Hf. destruct b as [evs|evs at_|d|c]; cbn [ucr_open bcost] in *.
  - destruct (offset_init_fuel csrc_read csrc_close ctrue cmeas csrc_read_prog csrc_close_inv
                fuel (Z.of_N off) (mkCsrc evs 0) I ltac:(cbn [c_rest]; lia)) as [A B].
    cbn [c_rest] in B. cbn [Iucr mucr n_u]. unfold mun. cbn [n_u n_last length]. rsplit; auto; lia.
  - destruct (discard_from_reader rsrc_read fuel (Z.of_N off) (mkRsrc evs at_ 0)) as [e s] eqn:Hd.
    assert (Hm0 : rmeas (mkRsrc evs at_ 0) < fuel) by (cbn [r_rest]; lia).
    destruct (discard_from_reader_fuel _ _ _ rsrc_read_prog fuel _ _ _ _ I Hm0 Hd) as (A & _ & C).
    cbn [r_rest] in C.
    destruct e; cbn [Iucr mucr]; unfold Irb, murb; cbn [rb_u rb_err is_none]; rsplit; auto; try congruence; lia.
  - destruct (off <=? lenN d)%N; cbn [Iucr mucr]; [|rsplit; auto; try congruence; lia].
    pose proof (len_dropN_le off d). rsplit; auto; lia.
  - cbn. rsplit; auto; try congruence.
Qed.

Lemma ucr_close_fuel fuel u : Iucr fuel u -> Iucr fuel (ucr_close u) /\ mucr (ucr_close u) <= mucr u.
Proof.
  destruct u as [n|r|d|x|x s]; cbn [ucr_close Iucr mucr]; auto.
  - intros (Hi & Hm). unfold norm_close, mun. cbn [n_u n_last].
    destruct (offset_close_inv csrc_close ctrue cmeas csrc_close_inv (n_u n) Hi) as [A B].
    rsplit; auto; lia.
Qed.

(** * Nested errorHandlingChunkReaders *)
Definition Isch (fuel : nat) (r : sch) : Prop :=
  Iucr fuel (sc_cur r) /\ mucr (sc_cur r) + actcost (w_act (sc_w r)) < fuel /\ Wok (sc_w r).
Definition musch (r : sch) : nat := mucr (sc_cur r) + actcost (w_act (sc_w r)).

Lemma Wok_split w : Wok w -> Forall clean (w_dn w) /\ Forall clean (w_act w).
Proof. unfold Wok. intros Hw. apply Forall_app in Hw. exact Hw. Qed.

Lemma Wok_after_replace w passed act' c :
  Forall clean (w_dn w) -> Forall clean passed -> Forall clean act' -> Wok (after_replace w passed act' c).
Proof.
  intros A B C. unfold Wok, after_replace. cbn [w_dn w_act].
  apply Forall_app. split; [apply Forall_app; split; [exact A|apply clean_map_done; exact B]|exact C].
Qed.
Lemma Wok_after_failure w passed : Forall clean (w_dn w) -> Forall clean passed -> Wok (after_failure w passed).
Proof. intros A B. unfold Wok, after_failure. cbn [w_dn w_act]. apply Forall_app. auto. Qed.
Lemma Wok_all_done w : Wok w -> Wok (all_done w).
Proof.
  intros Hw. destruct (Wok_split _ Hw) as [A B]. unfold Wok, all_done. cbn [w_dn w_act]. rewrite app_nil_r.
  apply Forall_app. split; [exact A|apply clean_map_done; exact B].
Qed.
Lemma Wok_retire w c : Wok w -> Wok (retire w c).
Proof. unfold Wok, retire. cbn [w_dn w_act]. auto. Qed.

Lemma sch_read_fuel fuel max : (1 <= max)%N -> forall f r c e r',
  Isch fuel r -> musch r < f -> sch_read fuel f max r = ((c, e), r') ->
  e <> EFuel /\ Isch fuel r' /\ musch r' <= musch r /\ (e = ENone -> musch r' < musch r).
Proof.
  intros Hmax. induction f as [|f IH]; intros r c e r' Hi Hm Hr; [lia|].
  cbn [sch_read] in Hr. destruct Hi as (Hu & Hlt & Hw). unfold musch in *.
  destruct (ucr_read fuel max (sc_cur r)) as [[chunk e1] cur'] eqn:Hu1. cbn beta iota in Hr.
  destruct (ucr_read_prog fuel max Hmax _ _ _ _ Hu Hu1) as (A & B & C & D).
  destruct (Wok_split _ Hw) as [Hdn Hact].
  assert (Hesc : e1 <> ENone -> e1 <> EEof ->
    (let '((ob, e'), passed, act') := escalate e1 (w_act (sc_w r)) in
          match ob with
          | None => (([], e'), mkSch cur' (sc_off r) (after_failure (sc_w r) passed))
          | Some b =>
              sch_read fuel f max
                (mkSch (ucr_open fuel b (sc_off r)) (sc_off r)
                       (after_replace (sc_w r) passed act' (ucr_closes (ucr_close cur'))))
          end) = ((c, e), r') ->
    e <> EFuel /\ Isch fuel r' /\
    mucr (sc_cur r') + actcost (w_act (sc_w r')) <= mucr (sc_cur r) + actcost (w_act (sc_w r)) /\
    (e = ENone -> mucr (sc_cur r') + actcost (w_act (sc_w r')) < mucr (sc_cur r) + actcost (w_act (sc_w r)))).
  { intros N1 N2 Hr'.
    destruct (escalate e1 (w_act (sc_w r))) as [[[ob e'] passed] act'] eqn:He.
    destruct (escalate_fuel _ _ _ _ _ _ He A Hact) as (E1 & E2 & E3 & E4 & E5).
    destruct ob as [b|].
    - destruct E5 as (E5 & _).
      destruct (ucr_open_fuel fuel b (sc_off r) ltac:(lia)) as [O1 O2].
      apply IH in Hr'.
      + unfold musch in Hr'. cbn [sc_cur sc_w sc_off after_replace w_act] in Hr'.
        destruct Hr' as (R1 & R2 & R3 & R4). split; [exact R1|]. split; [exact R2|]. split; [lia|].
        intros X. specialize (R4 X). lia.
      + unfold Isch. cbn [sc_cur sc_w sc_off after_replace w_act].
        split; [exact O1|]. split; [lia|]. apply Wok_after_replace; assumption.
      + unfold musch. cbn [sc_cur sc_w sc_off after_replace w_act]. lia.
    - destruct E5 as (-> & E5 & _). inv Hr'. unfold Isch. cbn [sc_cur sc_w after_failure w_act].
      rsplit; auto; try lia.
      + apply Wok_after_failure; assumption.
      + intros ->. destruct E2 as [E2|[c0 E2]]; congruence. }
  destruct e1; try (apply Hesc; [congruence|congruence|exact Hr]).
  - inv Hr. unfold Isch. cbn [sc_cur sc_w]. specialize (D eq_refl). rsplit; auto; try congruence; try lia.
  - inv Hr. unfold Isch. cbn [sc_cur sc_w]. rsplit; auto; try congruence; try lia.
Qed.

Lemma sch_read_prog fuel max : (1 <= max)%N -> cprog (fun _ => 0) (sch_read fuel fuel max) (Isch fuel) musch.
Proof.
  intros Hmax r c e r' Hi Hr. pose proof Hi as (_ & Hlt & _).
  destruct (sch_read_fuel fuel max Hmax fuel r c e r' Hi Hlt Hr) as (A & B & C & D).
  rsplit; auto. intros X. specialize (D X). lia.
Qed.

Lemma sch_close_fuel fuel r : Isch fuel r -> Isch fuel (sch_close r) /\ musch (sch_close r) <= musch r.
Proof.
  intros (Hu & Hlt & Hw). unfold Isch, musch, sch_close. cbn [sc_cur sc_w retire all_done w_act actcost fold_right].
  destruct (ucr_close_fuel fuel _ Hu) as [A B]. rsplit; auto; try lia.
  apply Wok_retire, Wok_all_done. exact Hw.
Qed.

Lemma sch_init_fuel fuel b w : 4 * (bcost b + actcost (w_act w)) <= fuel -> Wok w ->
  Isch fuel (sch_init fuel b w) /\ 2 + 2 * musch (sch_init fuel b w) <= fuel.
Proof.
  intros Hf Hw. pose proof (bcost_pos b). destruct (ucr_open_fuel fuel b 0%N ltac:(lia)) as [A B].
  unfold Isch, musch, sch_init. cbn [sc_cur sc_w]. rsplit; auto; lia.
Qed.

(** * The plain unvalidated reader, nested errorHandlingReaders *)
Definition Iurd (fuel : nat) (u : urd) : Prop :=
  match u with
  | RCb c => Io ctrue (cb_u c) /\ muo cmeas (cb_u c) < fuel
  | RRaw _ | RBb _ => True
  | RErr e | RFail e _ => e <> ENone /\ e <> EFuel
  end.
Definition murd (u : urd) : nat :=
  match u with
  | RCb c => mucb (muo cmeas) c
  | RRaw s => rmeas s
  | RBb d => length d
  | RErr _ | RFail _ _ => 0
  end.

Lemma urd_read_prog fuel : rprog (urd_read fuel) (Iurd fuel) murd.
Proof.
  intros cap u c e u' Hi Hr. destruct u as [cb|s|d|x|x s]; cbn [urd_read Iurd murd] in *.
  - destruct (cb_read (offset_read csrc_read) fuel cap cb) as [res cb'] eqn:Hn. inv Hr.
    pose proof (cb_read_prog _ _ _ (offset_read_prog _ _ _ csrc_read_prog) fuel) as P.
    destruct (P cap cb c e cb' Hi Hn) as (A & B & C & D). cbn [Iurd murd]. auto.
  - destruct (rsrc_read cap s) as [res s'] eqn:Hn. inv Hr.
    destruct (rsrc_read_prog cap s c e s' I Hn) as (A & B & C & D). cbn [Iurd murd]. auto.
  - destruct (bb_read cap d) as [res d'] eqn:Hn. inv Hr.
    destruct (bb_read_prog cap d c e d' I Hn) as (A & B & C & D). cbn [Iurd murd]. auto.
  - inv Hr. cbn [Iurd murd]. destruct Hi. rsplit; auto. intros _ [X|X]; congruence.
  - inv Hr. cbn [Iurd murd]. destruct Hi. rsplit; auto. intros _ [X|X]; congruence.
Qed.

Lemma urd_open_fuel fuel b off : bcost b <= fuel ->
  Iurd fuel (urd_open fuel b off) /\ S (murd (urd_open fuel b off)) <= bcost b.
Proof.
  intros Hf. destruct b as [evs|evs at_|d|c]; cbn [urd_open bcost] in *.
  - destruct (offset_init_fuel csrc_read csrc_close ctrue cmeas csrc_read_prog csrc_close_inv
                fuel (Z.of_N off) (mkCsrc evs 0) I ltac:(cbn [c_rest]; lia)) as [A B].
    cbn [c_rest] in B. cbn [Iurd murd cb_u]. unfold mucb. cbn [cb_u cb_last length]. rsplit; auto; lia.
  - destruct (discard_from_reader rsrc_read fuel (Z.of_N off) (mkRsrc evs at_ 0)) as [e s] eqn:Hd.
    assert (Hm0 : rmeas (mkRsrc evs at_ 0) < fuel) by (cbn [r_rest]; lia).
    destruct (discard_from_reader_fuel _ _ _ rsrc_read_prog fuel _ _ _ _ I Hm0 Hd) as (A & _ & C).
    cbn [r_rest] in C.
    destruct e; cbn [Iurd murd rsrc_close r_rest]; rsplit; auto; try congruence; lia.
  - destruct (off <=? lenN d)%N; cbn [Iurd murd]; [|rsplit; auto; try congruence; lia].
    pose proof (len_dropN_le off d). rsplit; auto; lia.
  - cbn. rsplit; auto; try congruence.
Qed.

Lemma urd_close_fuel fuel u : Iurd fuel u -> Iurd fuel (urd_close u) /\ murd (urd_close u) <= murd u.
Proof.
  destruct u as [c|s|d|x|x s]; cbn [urd_close Iurd murd]; auto.
  intros (Hi & Hm). unfold cb_close, mucb. cbn [cb_u cb_last].
  destruct (offset_close_inv csrc_close ctrue cmeas csrc_close_inv (cb_u c) Hi) as [A B].
  rsplit; auto; lia.
Qed.

Definition Ishr (fuel : nat) (r : shr) : Prop :=
  Iurd fuel (sr_cur r) /\ murd (sr_cur r) + actcost (w_act (sr_w r)) < fuel /\ Wok (sr_w r).
Definition mushr (r : shr) : nat := murd (sr_cur r) + actcost (w_act (sr_w r)).

Lemma shr_read_prog fuel : rprog (shr_read fuel) (Ishr fuel) mushr.
Proof.
  intros cap r c e r' (Hu & Hlt & Hw) Hr. unfold shr_read in Hr. unfold mushr, Ishr.
  destruct (urd_read fuel cap (sr_cur r)) as [[data e1] cur'] eqn:Hu1. cbn beta iota zeta in Hr.
  destruct (urd_read_prog fuel _ _ _ _ _ Hu Hu1) as (A & B & C & D).
  destruct (Wok_split _ Hw) as [Hdn Hact].
  assert (Hesc : e1 <> ENone -> e1 <> EEof ->
    (let '((ob, e'), passed, act') := escalate e1 (w_act (sr_w r)) in
      match ob with
      | None => ((data, e'), mkShr cur' (sr_off r + lenN data)%N (after_failure (sr_w r) passed))
      | Some b => ((data, ENone), mkShr (urd_open fuel b (sr_off r + lenN data)%N) (sr_off r + lenN data)%N
                                        (after_replace (sr_w r) passed act' (urd_closes (urd_close cur'))))
      end) = ((c, e), r') ->
    e <> EFuel /\
    (Iurd fuel (sr_cur r') /\ murd (sr_cur r') + actcost (w_act (sr_w r')) < fuel /\ Wok (sr_w r')) /\
    murd (sr_cur r') + actcost (w_act (sr_w r')) <= murd (sr_cur r) + actcost (w_act (sr_w r)) /\
    ((1 <= cap)%N -> e = ENone \/ c <> [] ->
       murd (sr_cur r') + actcost (w_act (sr_w r')) < murd (sr_cur r) + actcost (w_act (sr_w r)))).
  { intros N1 N2 Hr'.
    destruct (escalate e1 (w_act (sr_w r))) as [[[ob e'] passed] act'] eqn:He.
    destruct (escalate_fuel _ _ _ _ _ _ He A Hact) as (E1 & E2 & E3 & E4 & E5).
    destruct ob as [b|].
    - destruct E5 as (E5 & _).
      destruct (urd_open_fuel fuel b (sr_off r + lenN data)%N ltac:(lia)) as [O1 O2].
      inv Hr'. cbn [sr_cur sr_w after_replace w_act].
      rsplit; auto; try congruence; try lia. apply Wok_after_replace; assumption.
    - destruct E5 as (-> & E5 & _). inv Hr'. cbn [sr_cur sr_w after_failure w_act].
      rsplit; auto; try lia.
      + apply Wok_after_failure; assumption.
      + intros Hc [X|X].
        * destruct E2 as [E2|[c0 E2]]; congruence.
        * specialize (D Hc (or_intror X)). lia. }
  destruct e1; try (apply Hesc; [congruence|congruence|exact Hr]).
  - inv Hr. cbn [sr_cur sr_w]. rsplit; auto; try congruence; try lia.
    intros Hc X. specialize (D Hc X). lia.
  - inv Hr. cbn [sr_cur sr_w]. rsplit; auto; try congruence; try lia.
    intros Hc X. specialize (D Hc X). lia.
Qed.

Lemma shr_close_fuel fuel r : Ishr fuel r -> Ishr fuel (shr_close r) /\ mushr (shr_close r) <= mushr r.
Proof.
  intros (Hu & Hlt & Hw). unfold Ishr, mushr, shr_close. cbn [sr_cur sr_w retire all_done w_act actcost fold_right].
  destruct (urd_close_fuel fuel _ Hu) as [A B]. rsplit; auto; try lia.
  apply Wok_retire, Wok_all_done. exact Hw.
Qed.

Lemma shr_init_fuel fuel b w : 4 * (bcost b + actcost (w_act w)) <= fuel -> Wok w ->
  Ishr fuel (shr_init fuel b w) /\ 2 + 2 * mushr (shr_init fuel b w) <= fuel.
Proof.
  intros Hf Hw. pose proof (bcost_pos b). destruct (urd_open_fuel fuel b 0%N ltac:(lia)) as [A B].
  unfold Ishr, mushr, shr_init. cbn [sr_cur sr_w]. rsplit; auto; lia.
Qed.

(** * The offset reader over a chunk reader of any weight: the part of the
    straddling chunk that is kept counts 1 (it is handed out by the next read) *)
Section Offset0.
  Context {St : Type}.
  Variable wt : bytes -> nat.
  Variable rd : St -> (bytes * err) * St.
  Variable cl : St -> St.
  Variable I : St -> Prop.
  Variable mu : St -> nat.
  Hypothesis P : cprog wt rd I mu.
  Hypothesis Hcl : forall s, I s -> I (cl s) /\ mu (cl s) <= mu s.

  Definition pf0 (p : bytes) : nat := if is_nil p then 0 else 1.
  Definition muo0 (o : ost St) : nat := mu (o_u o) + pf0 (o_prefix o).

  Lemma discard_cr_fuel0 : forall fuel off s p e s', I s -> mu s < fuel ->
    discard_from_chunk_reader rd fuel off s = ((p, e), s') ->
    e <> EFuel /\ I s' /\ mu s' + pf0 p <= mu s.
  Proof.
    induction fuel as [|f IH]; intros off s p e s' Hi Hm Hd; [lia|].
    cbn [discard_from_chunk_reader] in Hd.
    destruct (off =? 0)%N. { inv Hd. change (pf0 []) with 0. fin. }
    destruct (rd s) as [[c e1] s1] eqn:Hr. cbn beta iota in Hd.
    destruct (P _ _ _ _ Hi Hr) as (Hne & Hi1 & Hle & Hlt).
    destruct e1; try (inv Hd; change (pf0 []) with 0; fin).
    specialize (Hlt eq_refl).
    destruct (off <? lenN c)%N.
    - inv Hd. rsplit; auto; try congruence. unfold pf0. destruct (is_nil (dropN off c)); lia.
    - destruct (IH _ _ _ _ _ Hi1 ltac:(lia) Hd) as (A & B & C). fin.
  Qed.

  Lemma offset_init_fuel0 fuel off s : I s -> mu s < fuel ->
    Io I (offset_init rd cl fuel off s) /\ muo0 (offset_init rd cl fuel off s) <= mu s.
  Proof.
    intros Hi Hm. unfold offset_init. destruct (off <? 0)%Z.
    - unfold Io, muo0. cbn [o_u o_prefix o_fixed]. change (pf0 []) with 0. destruct (Hcl _ Hi). fin.
    - destruct (discard_from_chunk_reader rd fuel (Z.to_N off) s) as [[p e] s'] eqn:Hd.
      destruct (discard_cr_fuel0 _ _ _ _ _ _ Hi Hm Hd) as (A & B & C).
      destruct (Hcl _ B) as [B1 B2].
      destruct e; unfold Io, muo0; cbn [o_u o_prefix o_fixed]; change (pf0 []) with 0; fin.
  Qed.

  Lemma offset_read_prog0 : cprog (fun _ => 0) (offset_read rd) (Io I) muo0.
  Proof.
    intros o c e o' (Hi & Hf) Hr. unfold offset_read in Hr. unfold Io, muo0.
    destruct (o_fixed o) eqn:Ef; try (inv Hr; rewrite Ef; fin).
    destruct (is_nil (o_prefix o)) eqn:En.
    - destruct (rd (o_u o)) as [[c1 e1] u1] eqn:Hr1. inv Hr.
      destruct (P _ _ _ _ Hi Hr1) as (A & B & C & D). cbn [o_u o_prefix o_fixed]. change (pf0 []) with 0.
      unfold pf0. rewrite En. fin0. intros X. specialize (D X). lia.
    - inv Hr. cbn [o_u o_prefix o_fixed]. change (pf0 []) with 0. unfold pf0. rewrite En. fin.
  Qed.

  Lemma offset_close_inv0 o : Io I o -> Io I (offset_close cl o) /\ muo0 (offset_close cl o) <= muo0 o.
  Proof.
    intros (Hi & Hf). unfold offset_close, Io, muo0. destruct (o_fixed o) eqn:Ef; cbn [o_u o_prefix o_fixed]; rewrite ?Ef; fin0.
    all: destruct (Hcl _ Hi); fin.
  Qed.
End Offset0.

(** * Further reads after the end keep the invariant *)
Lemma extra_reads_inv {St} wt (rd : St -> (bytes * err) * St) I mu : cprog wt rd I mu ->
  forall k s ex s', I s -> extra_reads rd k s = (ex, s') -> I s'.
Proof.
  intros P. induction k as [|k IH]; intros s ex s' Hi He; cbn [extra_reads] in He; [inv He; exact Hi|].
  destruct (rd s) as [[c e] s1] eqn:Hr. destruct (extra_reads rd k s1) as [l s2] eqn:He2. inv He.
  destruct (P _ _ _ _ Hi Hr) as (_ & Hi1 & _). eapply IH; eauto.
Qed.
Lemma rextra_inv {St} (rd : N -> St -> (bytes * err) * St) I mu : rprog rd I mu ->
  forall k cap s ex s', I s -> rextra rd k cap s = (ex, s') -> I s'.
Proof.
  intros P. induction k as [|k IH]; intros cap s ex s' Hi He; cbn [rextra] in He; [inv He; exact Hi|].
  destruct (rd cap s) as [[c e] s1] eqn:Hr. destruct (rextra rd k cap s1) as [l s2] eqn:He2. inv He.
  destruct (P _ _ _ _ _ Hi Hr) as (_ & Hi1 & _). eapply IH; eauto.
Qed.
