(** C09 (completion) — size is checked before the hash.

    The hash function enters the model only through the comparison of
    [H acc] with the digest's hash.  For every constructor, method, script and
    fuel: the whole observable outcome is the same for any two hash functions
    that agree on the script's complete content — and that one point matters
    only if the content ends with io.EOF and has exactly the digest's size.
    Hence for content of the wrong size (or ending in an I/O error) the hash
    is never consulted: the outcome does not depend on the hash function. *)
From Coq Require Import List ZArith NArith Bool Lia.
From BBS Require Import Buffer.Source Buffer.Validate Buffer.Convert Buffer.StreamProofs
  Buffer.ValidateProofs Buffer.ValidateReaderProofs Buffer.ConvertProofs Buffer.ReaderBufferProofs
  Buffer.C09FullCombinators Buffer.C09FullChunk Buffer.C09FullReaderBuf.
Import ListNotations.
Open Scope N_scope.

Definition ccont (u : csrc) : bytes * err := content (c_rest u).

Lemma csrc_spec u c e u' : csrc_read u = ((c, e), u') ->
  match e with
  | ENone => ccont u = (c ++ fst (ccont u'), snd (ccont u'))
  | _ => ccont u = ([], e)
  end.
Proof.
  unfold csrc_read, ccont. destruct (c_rest u) as [|[bs|x|] r] eqn:Er; intros Hr; inv Hr; cbn [c_rest content]; try reflexivity.
  destruct (content r); reflexivity.
Qed.

Section SizeFirst.
  Variables H1 H2 : bytes -> bytes.
  Variable cfg : vcfg.
  Variable fuel : nat.
  Variable evs : list ev.
  (** the two hash functions agree where it can matter *)
  Hypothesis Hyp : snd (content evs) = EEof -> lenN (fst (content evs)) = g_size cfg ->
                   H1 (fst (content evs)) = H2 (fst (content evs)).

  (** ** chunk validator *)
  Definition cdata (st : cvs) : Prop :=
    fst (content evs) = v_acc st ++ fst (ccont (v_u st)) /\ snd (content evs) = snd (ccont (v_u st)) /\
    v_rem st + lenN (v_acc st) = g_size cfg.
  Definition Qc (st : cvs) : Prop := v_err st <> ENone \/ cdata st.

  Lemma finalize_indep : forall f st, cdata st -> v_rem st = 0 ->
    finalize_loop H1 cfg csrc_read f st = finalize_loop H2 cfg csrc_read f st.
  Proof.
    induction f as [|f IH]; intros st (Hf & Hs & Hl) Hr; cbn [finalize_loop]; [reflexivity|].
    destruct (csrc_read (v_u st)) as [[chunk e] u'] eqn:Hrd. pose proof (csrc_spec _ _ _ _ Hrd) as Hsp.
    destruct e; try reflexivity.
    - cbn [v_set_u v_rem]. destruct (v_rem st <? lenN chunk) eqn:Hlt; [reflexivity|].
      apply N.ltb_ge in Hlt. assert (chunk = []) by (apply lenN_zero; lia). subst chunk.
      apply IH; [|exact Hr]. unfold cdata. cbn [v_set_u v_acc v_u v_rem].
      rewrite Hsp in Hf, Hs. cbn [fst snd app] in Hf, Hs. auto.
    - cbn [v_set_u v_acc]. rewrite Hsp in Hf, Hs. cbn [fst snd] in Hf, Hs. rewrite app_nil_r in Hf.
      rewrite <- Hf, Hyp; [reflexivity|exact Hs|]. rewrite Hf. lia.
  Qed.

  Lemma maybe_finalize_indep st : cdata st ->
    maybe_finalize H1 cfg csrc_read fuel st = maybe_finalize H2 cfg csrc_read fuel st.
  Proof.
    intros Hd. unfold maybe_finalize. destruct (0 <? v_rem st) eqn:Hlt; [reflexivity|].
    apply N.ltb_ge in Hlt. apply finalize_indep; [exact Hd|lia].
  Qed.

  Lemma maybe_finalize_none H st st' : maybe_finalize H cfg csrc_read fuel st = (ENone, st') -> st' = st.
  Proof.
    unfold maybe_finalize. destruct (0 <? v_rem st); [intros Hx; inv Hx; reflexivity|].
    intros Hx. exfalso. revert st Hx. induction fuel as [|f IH]; intros st Hx; cbn [finalize_loop] in Hx; [discriminate|].
    destruct (csrc_read (v_u st)) as [[chunk e] u']. destruct e; try discriminate.
    - destruct (v_rem (v_set_u st u') <? lenN chunk); [discriminate|]. eapply IH; eassumption.
    - destruct (bytes_eqb _ _); discriminate.
  Qed.

  Lemma Qc_read : agree Qc (cv_read H1 cfg fuel) (cv_read H2 cfg fuel).
  Proof.
    intros st HQ. unfold cv_read, vcr_read.
    destruct (v_err st) eqn:Herr; try (apply same_refl; cbn [snd]; left; congruence).
    destruct HQ as [HQ|Hd]; [congruence|].
    unfold vcr_do_read. rewrite <- (maybe_finalize_indep st Hd).
    destruct (maybe_finalize H1 cfg csrc_read fuel st) as [e0 st0] eqn:Hmf.
    destruct e0; try (apply same_refl; cbn; left; cbn; congruence).
    apply maybe_finalize_none in Hmf. subst st0.
    destruct (csrc_read (v_u st)) as [[chunk e1] u'] eqn:Hrd. pose proof (csrc_spec _ _ _ _ Hrd) as Hsp.
    destruct e1; try (apply same_refl; cbn; left; cbn; congruence).
    cbn [v_set_u v_rem v_u v_acc v_err v_cbs].
    destruct (v_rem st <? lenN chunk) eqn:Hlt; [apply same_refl; cbn; left; cbn; congruence|].
    apply N.ltb_ge in Hlt.
    set (st1 := mkVst u' (v_rem st - lenN chunk) (v_acc st ++ chunk) (v_err st) (v_cbs st)).
    assert (Hd1 : cdata st1).
    { destruct Hd as (Hf & Hs & Hl). unfold cdata, st1. cbn [v_acc v_u v_rem].
      rewrite Hsp in Hf, Hs. cbn [fst snd] in Hf, Hs. rewrite <- app_assoc, lenN_app. rsplit; auto. lia. }
    rewrite <- (maybe_finalize_indep st1 Hd1).
    destruct (maybe_finalize H1 cfg csrc_read fuel st1) as [e2 st2] eqn:Hmf2.
    destruct e2; try (apply same_refl; cbn; left; cbn; congruence).
    apply maybe_finalize_none in Hmf2. subst st2. apply same_refl. cbn [snd]. right. exact Hd1.
  Qed.

  Lemma Qc_close st : Qc st -> Qc (cv_close st).
  Proof. intros [Hq|Hq]; [left; exact Hq|right; exact Hq]. Qed.

  Lemma Qc_init : Qc (cv_init cfg evs).
  Proof. right. unfold cdata, cv_init, vinit, ccont. cbn. rsplit; auto. unfold lenN. cbn. lia. Qed.

  Theorem chunk_hash_only_at_content m :
    cas_chunk_reader H1 cfg fuel evs m = cas_chunk_reader H2 cfg fuel evs m.
  Proof. exact (proj1 (cas_chunk_reader_agree H1 H2 cfg fuel Qc Qc_read Qc_close evs m Qc_init)). Qed.

  (** ** reader validator *)
  Variable attach : bool.
  Definition rdata (st : rvs) : Prop :=
    fst (content evs) = v_acc st ++ fst (rcont (v_u st)) /\ snd (content evs) = snd (rcont (v_u st)) /\
    v_rem st + lenN (v_acc st) = g_size cfg.
  Definition Qr (st : rvs) : Prop := v_err st <> ENone \/ rdata st.

  Lemma vr_compare_indep (st : rvs) :
    fst (content evs) = v_acc st -> snd (content evs) = EEof -> lenN (v_acc st) = g_size cfg ->
    vr_compare H1 cfg st = vr_compare H2 cfg st.
  Proof. intros Hf Hs Hl. unfold vr_compare. rewrite <- Hf, Hyp; [reflexivity|exact Hs|]. rewrite Hf. exact Hl. Qed.

  Lemma Qr_read : ragree Qr (rv_read H1 cfg fuel) (rv_read H2 cfg fuel).
  Proof.
    intros cap st HQ. unfold rv_read, vr_read.
    destruct (v_err st) eqn:Herr; try (apply same_refl; cbn [snd]; left; congruence).
    destruct HQ as [HQ|(Hf & Hs & Hl)]; [congruence|].
    assert (Hgoal : forall x y : (bytes * err) * rvs, x = y ->
              (fst (fst x) = [] \/ True) ->
              (snd (fst x) = ENone -> rdata (snd x)) ->
              same Qr (let '((data, e), st0) := x in ((data, e), v_set_err st0 e))
                      (let '((data, e), st0) := y in ((data, e), v_set_err st0 e))).
    { intros [[d e] s1] y <- _ Hq. apply same_refl. cbn [snd fst] in *.
      destruct e; try (left; cbn; congruence). right.
      destruct (Hq eq_refl) as (A & B & C). unfold rdata. cbn [v_set_err v_acc v_u v_rem]. auto. }
    apply Hgoal; [|right; exact I|].
    - (* the two reads are equal *)
      unfold vr_do_read.
      destruct (rsrc_read cap (v_u st)) as [[data re] u'] eqn:Hrd. pose proof (rsrc_spec _ _ _ _ _ Hrd) as Hsp.
      cbn [v_set_u v_rem v_u v_acc v_err v_cbs].
      destruct (v_rem st <? lenN data) eqn:Hbig; [reflexivity|]. apply N.ltb_ge in Hbig.
      destruct re; try reflexivity.
      + destruct (v_rem st - lenN data =? 0) eqn:Hz; [|reflexivity]. apply N.eqb_eq in Hz.
        destruct (read_full rsrc_read fuel 1 u') as [[fin fe] u''] eqn:Hrf. unfold read_full in Hrf.
        destruct (read_full_one _ rsrc_read rcont rsrc_spec rsrc_no_unexp _ _ _ _ _ Hrf) as (_ & Hm).
        cbn [v_set_u v_rem v_u v_acc v_err v_cbs]. rewrite Hz.
        assert (Hcmp : fin = [] -> rcont u' = ([], EEof) ->
                  vr_compare H1 cfg (mkVst u'' 0 (v_acc st ++ data) (v_err st) (v_cbs st)) =
                  vr_compare H2 cfg (mkVst u'' 0 (v_acc st ++ data) (v_err st) (v_cbs st))).
        { intros -> Hc. apply vr_compare_indep; cbn [v_acc].
          - rewrite Hf, Hsp. cbn [fst]. rewrite Hc. cbn [fst]. now rewrite app_nil_r.
          - rewrite Hs, Hsp. cbn [snd]. rewrite Hc. reflexivity.
          - rewrite lenN_app. lia. }
        destruct fe; try reflexivity; try contradiction.
        * destruct (0 <? lenN fin) eqn:Hfl; [reflexivity|]. exfalso. apply Hm.
          apply N.ltb_ge in Hfl. apply lenN_zero. lia.
        * destruct Hm as (-> & Hc). change (0 <? lenN []) with false. cbn iota. unfold v_set_u. cbn [v_rem v_u v_acc v_err v_cbs].
          rewrite (Hcmp eq_refl Hc). reflexivity.
      + destruct (negb (v_rem st - lenN data =? 0)) eqn:Hz; [reflexivity|].
        apply negb_false_iff, N.eqb_eq in Hz.
        rewrite (vr_compare_indep (mkVst u' (v_rem st - lenN data) (v_acc st ++ data) (v_err st) (v_cbs st))); [reflexivity|..]; cbn [v_acc].
        * rewrite Hf, Hsp. reflexivity.
        * rewrite Hs, Hsp. reflexivity.
        * rewrite lenN_app. lia.
    - (* a successful read keeps the relation to the script *)
      intros He. unfold vr_do_read in *.
      destruct (rsrc_read cap (v_u st)) as [[data re] u'] eqn:Hrd. pose proof (rsrc_spec _ _ _ _ _ Hrd) as Hsp.
      cbn [v_set_u v_rem v_u v_acc v_err v_cbs] in *.
      destruct (v_rem st <? lenN data) eqn:Hbig; [cbn in He; discriminate|]. apply N.ltb_ge in Hbig.
      destruct re; try (cbn in He; discriminate).
      + destruct (v_rem st - lenN data =? 0) eqn:Hz.
        * exfalso. destruct (read_full rsrc_read fuel 1 u') as [[fin fe] u''].
          cbn [v_set_u v_rem v_u v_acc v_err v_cbs] in He.
          destruct fe; cbn in He; try discriminate;
            (destruct (_ <? lenN fin); [cbn in He; discriminate|]);
            unfold vr_compare in He; cbn in He; destruct (bytes_eqb _ _); cbn in He; discriminate.
        * cbn [snd]. unfold rdata. cbn [v_acc v_u v_rem]. rewrite Hf, Hs, Hsp. cbn [fst snd].
          rewrite <- app_assoc, lenN_app. rsplit; auto. lia.
      + exfalso. destruct (negb (v_rem st - lenN data =? 0)); [cbn in He; discriminate|].
        unfold vr_compare in He. cbn in He. destruct (bytes_eqb _ _); cbn in He; discriminate.
  Qed.

  Lemma Qr_close st : Qr st -> Qr (rv_close st).
  Proof. intros [Hq|Hq]; [left; exact Hq|right; exact Hq]. Qed.

  Lemma Qr_init : Qr (rv_init cfg evs attach).
  Proof. right. unfold rdata, rv_init, vinit, rcont. cbn. rsplit; auto. unfold lenN. cbn. lia. Qed.

  Theorem reader_hash_only_at_content m :
    cas_reader H1 cfg fuel evs attach m = cas_reader H2 cfg fuel evs attach m.
  Proof. exact (proj1 (cas_reader_agree H1 H2 cfg fuel Qr Qr_read Qr_close evs attach m Qr_init)). Qed.
End SizeFirst.

(** * size_before_hash: wrong size (or an I/O error) => the hash is never consulted *)
Theorem chunk_size_before_hash H1 H2 cfg fuel evs m :
  ~ (snd (content evs) = EEof /\ lenN (fst (content evs)) = g_size cfg) ->
  cas_chunk_reader H1 cfg fuel evs m = cas_chunk_reader H2 cfg fuel evs m.
Proof. intros Hn. apply chunk_hash_only_at_content. intros A B. exfalso. apply Hn. auto. Qed.

Theorem reader_size_before_hash H1 H2 cfg fuel evs attach m :
  ~ (snd (content evs) = EEof /\ lenN (fst (content evs)) = g_size cfg) ->
  cas_reader H1 cfg fuel evs attach m = cas_reader H2 cfg fuel evs attach m.
Proof. intros Hn. apply reader_hash_only_at_content. intros A B. exfalso. apply Hn. auto. Qed.

Theorem byte_slice_hash_only_at_content H1 H2 cfg fuel data m :
  (lenN data = g_size cfg -> H1 data = H2 data) ->
  cas_byte_slice H1 cfg fuel data m = cas_byte_slice H2 cfg fuel data m.
Proof.
  intros Hyp. unfold cas_byte_slice. destruct (g_size cfg =? lenN data) eqn:Es; cbn [negb]; [|reflexivity].
  apply N.eqb_eq in Es. rewrite Hyp by auto. reflexivity.
Qed.

Theorem byte_slice_size_before_hash H1 H2 cfg fuel data m :
  lenN data <> g_size cfg ->
  cas_byte_slice H1 cfg fuel data m = cas_byte_slice H2 cfg fuel data m.
Proof. intros Hn. apply byte_slice_hash_only_at_content. intros A. contradiction. Qed.
