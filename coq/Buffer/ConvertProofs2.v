(** C09 — NewCASBufferFromChunkReader: ReadAt and ToReader. *)
From Coq Require Import List ZArith NArith Bool Lia.
From BBS Require Import Buffer.Source Buffer.Validate Buffer.Convert Buffer.StreamProofs
  Buffer.ValidateProofs Buffer.ValidateReaderProofs Buffer.ConvertProofs Buffer.ReaderBufferProofs.
Import ListNotations.
Open Scope N_scope.

Lemma takeN_app n a b : takeN n (a ++ b) = takeN n a ++ takeN (n - lenN a) b.
Proof.
  revert n. induction a as [|x a IH]; intros n.
  - rewrite lenN_nil, N.sub_0_r. reflexivity.
  - cbn [app takeN]. destruct (n =? 0) eqn:E.
    + apply N.eqb_eq in E. subst. cbn. now rewrite takeN_0.
    + apply N.eqb_neq in E. cbn [app]. rewrite IH, lenN_cons.
      replace (n - (1 + lenN a)) with (N.pred n - lenN a) by lia. reflexivity.
Qed.
Lemma takeN_takeN_short n l : lenN l <= n -> takeN n l = l.
Proof. apply takeN_all. Qed.

Section ChunkBacked.
  Variable S : Type.
  Variable rd : S -> (bytes * err) * S.

  Lemma cb_loop_zero f got st : cb_loop rd f 0 got st = ((got, ENone), st).
  Proof. destruct f; reflexivity. Qed.

  Lemma cb_loop_spec : forall f left got st c e st',
    (0 < left -> cb_last st = []) ->
    cb_loop rd f left got st = ((c, e), st') ->
    (e = ENone -> exists bs, pulls rd (cb_u st) bs (cb_u st') /\ got ++ cb_last st ++ bs = c ++ cb_last st') /\
    (e <> ENone -> e <> EFuel -> exists bs, drains rd (cb_u st) bs e (cb_u st') /\ got ++ bs = c).
  Proof.
    induction f as [|f IH]; intros left got st c e st' Hl Hr; cbn [cb_loop] in Hr; destruct (left =? 0) eqn:E0.
    - inv Hr. split; [|congruence]. intros _. exists []. split; [constructor|]. now rewrite !app_nil_r.
    - inv Hr. split; congruence.
    - inv Hr. split; [|congruence]. intros _. exists []. split; [constructor|]. now rewrite !app_nil_r.
    - apply N.eqb_neq in E0. rewrite (Hl ltac:(lia)) in *.
      destruct (rd (cb_u st)) as [[c0 e0] u'] eqn:Hrd.
      assert (Herr : e0 <> ENone -> (got, e0, mkCbst u' []) = (c, e, st') ->
        (e = ENone -> exists bs, pulls rd (cb_u st) bs (cb_u st') /\ got ++ [] ++ bs = c ++ cb_last st') /\
        (e <> ENone -> e <> EFuel -> exists bs, drains rd (cb_u st) bs e (cb_u st') /\ got ++ bs = c)).
      { intros Hne Hx. inv Hx. split; [congruence|]. intros _ _. exists [].
        split; [eapply drains_end; eassumption|now rewrite app_nil_r]. }
      destruct e0; try (apply Herr; [congruence|exact Hr]).
      clear Herr.
      destruct (left - lenN (takeN left c0) =? 0) eqn:Ez.
      + apply N.eqb_eq in Ez. rewrite Ez, cb_loop_zero in Hr. inv Hr. split; [|congruence]. intros _.
        exists (c0 ++ []). split; [econstructor; [eassumption|constructor]|]. cbn [cb_last app].
        rewrite app_nil_r, <- app_assoc. f_equal. symmetry. apply takeN_dropN.
      + apply N.eqb_neq in Ez. rewrite lenN_takeN in Ez.
        assert (Hwhole : takeN left c0 = c0) by (apply takeN_all; lia).
        assert (Hnone : dropN left c0 = []) by (apply dropN_all; lia).
        rewrite Hwhole, Hnone in Hr.
        apply IH in Hr; [|reflexivity]. cbn [cb_u cb_last] in Hr. destruct Hr as [Hok Hko]. split.
        * intros He. destruct (Hok He) as (bs & Hp & Hb). exists (c0 ++ bs). split; [econstructor; eassumption|].
          cbn [app] in *. rewrite <- Hb, <- !app_assoc. reflexivity.
        * intros Hne Hnf. destruct (Hko Hne Hnf) as (bs & Hd & Hb). exists (c0 ++ bs).
          split; [eapply drains_step; eassumption|]. rewrite <- Hb, <- app_assoc. reflexivity.
  Qed.

  Lemma cb_read_spec f cap st c e st' :
    cb_read rd f cap st = ((c, e), st') ->
    (e = ENone -> exists bs, pulls rd (cb_u st) bs (cb_u st') /\ cb_last st ++ bs = c ++ cb_last st') /\
    (e <> ENone -> e <> EFuel -> exists bs, drains rd (cb_u st) bs e (cb_u st') /\ cb_last st ++ bs = c).
  Proof.
    unfold cb_read. intros Hr.
    destruct (cap - lenN (takeN cap (cb_last st)) =? 0) eqn:Ez.
    - apply N.eqb_eq in Ez. rewrite Ez, cb_loop_zero in Hr. inv Hr. split; [|congruence]. intros _.
      exists []. split; [constructor|]. cbn [cb_last]. now rewrite app_nil_r, takeN_dropN.
    - apply N.eqb_neq in Ez. rewrite lenN_takeN in Ez.
      assert (Hwhole : takeN cap (cb_last st) = cb_last st) by (apply takeN_all; lia).
      assert (Hnone : dropN cap (cb_last st) = []) by (apply dropN_all; lia).
      rewrite Hwhole, Hnone in Hr. apply cb_loop_spec in Hr; [|reflexivity].
      cbn [cb_u cb_last app] in Hr. exact Hr.
  Qed.

  (** the stream of the chunk-reader-backed reader is the wrapped stream *)
  Lemma cb_rdrains f st out e st' :
    rdrains (cb_read rd f) st out e st' -> e <> EFuel ->
    exists bs, drains rd (cb_u st) bs e (cb_u st') /\ out = cb_last st ++ bs.
  Proof.
    induction 1 as [cap st c e st1 Hr Hne|cap st c st1 bs e st2 Hr _ IH]; intros Hnf.
    - apply cb_read_spec in Hr. destruct Hr as [_ Hko]. destruct (Hko Hne Hnf) as (bs & Hd & <-). eauto.
    - apply cb_read_spec in Hr. destruct Hr as [Hok _]. destruct (Hok eq_refl) as (bs0 & Hp & Hb).
      destruct (IH Hnf) as (bs1 & Hd & ->). exists (bs0 ++ bs1).
      split; [eapply pulls_drains; eassumption|]. rewrite !app_assoc, Hb. reflexivity.
  Qed.
End ChunkBacked.

Section ReadAtFill.
  Variable S : Type.
  Variable rd : S -> (bytes * err) * S.

  Lemma read_at_fill_spec : forall f left got o res e o',
    read_at_fill rd f left got o = ((res, e), o') ->
    (e = ENone -> exists bs, pulls (offset_read rd) o bs o' /\ res = got ++ takeN left bs /\ left <= lenN bs) /\
    (e <> ENone -> e <> EFuel ->
       exists bs, drains (offset_read rd) o bs e o' /\ res = got ++ bs /\ lenN bs < left).
  Proof.
    induction f as [|f IH]; intros left got o res e o' Hr; cbn [read_at_fill] in Hr; destruct (left =? 0) eqn:E0.
    - apply N.eqb_eq in E0. subst. inv Hr. split; [|congruence]. intros _. exists [].
      split; [constructor|]. rewrite app_nil_r, lenN_nil. split; [reflexivity|lia].
    - inv Hr. split; congruence.
    - apply N.eqb_eq in E0. subst. inv Hr. split; [|congruence]. intros _. exists [].
      split; [constructor|]. rewrite app_nil_r, lenN_nil. split; [reflexivity|lia].
    - apply N.eqb_neq in E0.
      destruct (offset_read rd o) as [[c e0] o1] eqn:Hrd.
      assert (Herr : e0 <> ENone -> (got, e0, o1) = (res, e, o') ->
        (e = ENone -> exists bs, pulls (offset_read rd) o bs o' /\ res = got ++ takeN left bs /\ left <= lenN bs) /\
        (e <> ENone -> e <> EFuel -> exists bs, drains (offset_read rd) o bs e o' /\ res = got ++ bs /\ lenN bs < left)).
      { intros Hne Hx. inv Hx. split; [congruence|]. intros _ _. exists [].
        split; [eapply drains_end; eassumption|]. rewrite app_nil_r, lenN_nil. split; [reflexivity|lia]. }
      destruct e0; try (apply Herr; [congruence|exact Hr]). clear Herr.
      apply IH in Hr. destruct Hr as [Hok Hko]. split.
      + intros He. destruct (Hok He) as (bs & Hp & -> & Hle). exists (c ++ bs).
        split; [econstructor; eassumption|]. rewrite takeN_app, <- app_assoc, lenN_app.
        replace (left - lenN c) with (left - lenN (takeN left c)) by (rewrite lenN_takeN; lia).
        split; [reflexivity|]. rewrite lenN_takeN in Hle. lia.
      + intros Hne Hnf. destruct (Hko Hne Hnf) as (bs & Hd & -> & Hlt). exists (c ++ bs).
        split; [eapply drains_step; eassumption|]. rewrite lenN_takeN in Hlt.
        assert (Hw : takeN left c = c) by (apply takeN_all; lia).
        rewrite Hw, <- app_assoc, lenN_app. split; [reflexivity|]. lia.
  Qed.
End ReadAtFill.

Section ChunkBuffer2.
  Variable H : bytes -> bytes.
  Variable cfg : vcfg.
  Variable fuel : nat.

  (** the validated stream behind newOffsetChunkReader(.., off) *)
  Lemma cv_offset_complete evs off bs o' :
    drains (offset_read (cv_read H cfg fuel))
           (offset_init (cv_read H cfg fuel) cv_close fuel off (cv_init cfg evs)) bs EEof o' ->
    valid_script H cfg evs /\ (0 <= off)%Z /\ bs = dropN (Z.to_N off) (fst (content evs)).
  Proof.
    unfold offset_init. intros Hdo.
    destruct (off <? 0)%Z eqn:Hneg.
    { destruct (offset_fixed_drains _ _ _ _ _ _ Hdo) as (Ee & _); [cbn; congruence|cbn in Ee; congruence]. }
    apply Z.ltb_ge in Hneg.
    destruct (discard_from_chunk_reader _ fuel (Z.to_N off) _) as [[prefix e] s'] eqn:Hdis.
    assert (Hfail : e <> ENone ->
              drains (offset_read (cv_read H cfg fuel)) (mkOst (cv_close s') [] e) bs EEof o' ->
              valid_script H cfg evs /\ (0 <= off)%Z /\ bs = dropN (Z.to_N off) (fst (content evs))).
    { intros Hne Hdo'.
      destruct (offset_fixed_drains _ _ _ _ _ _ Hdo') as (Ee & ->); [exact Hne|]. cbn in Ee. subst e.
      destruct (discard_fails _ _ _ _ _ _ _ _ Hdis) as (bs0 & Hd0 & Hl0); try congruence.
      destruct (cv_complete _ _ _ _ _ _ Hd0) as (Hval & ->).
      split; [exact Hval|]. split; [exact Hneg|]. symmetry. apply dropN_all. lia. }
    destruct e; try (apply Hfail; [congruence|exact Hdo]).
    destruct (discard_pulls _ _ _ _ _ _ _ Hdis) as (bs0 & Hp0 & -> & Hle).
    destruct (offset_drains _ _ _ _ _ _ _ Hdo) as (bs2 & -> & Hd2).
    pose proof (pulls_drains _ _ _ _ _ _ _ _ Hp0 Hd2) as Hall.
    destruct (cv_complete _ _ _ _ _ _ Hall) as (Hval & <-). split; [exact Hval|]. split; [exact Hneg|].
    now rewrite dropN_app.
  Qed.

  Theorem chunk_reader_complete_implies_valid_rest evs m o :
    match m with MReadAt _ _ | MToReader _ _ => True | _ => False end ->
    cas_chunk_reader H cfg fuel evs m = o -> completed m (o_err o) = true ->
    valid_script H cfg evs /\ o_data o = expected_slice m (fst (content evs)).
  Proof.
    intros Hm Ho Hc. destruct m; try contradiction; cbn [cas_chunk_reader] in Ho; cbn [completed expected_slice] in *.
    - (* ReadAt *)
      unfold read_at_cr in Ho.
      destruct (read_at_fill _ fuel plen [] _) as [[got e] o1] eqn:Hfill.
      destruct (read_at_fill_spec _ _ _ _ _ _ _ _ _ Hfill) as [Hok Hko]. cbn [app] in *.
      destruct e.
      + (* p filled: drain *)
        destruct (Hok eq_refl) as (bs1 & Hp1 & -> & Hle).
        destruct (drain _ fuel [] o1) as [[out2 e2] o2] eqn:Hdr. subst o. cbn in Hc.
        destruct e2; try discriminate; cbn [o_data cv_out] in *.
        * exfalso. destruct (drain_drains _ _ _ _ _ _ _ _ Hdr) as (bs & _ & Hds); [congruence|].
          exact (drains_not_none _ _ _ _ _ _ Hds eq_refl).
        * destruct (drain_drains _ _ _ _ _ _ _ _ Hdr) as (bs2 & _ & Hd2); [congruence|].
          pose proof (pulls_drains _ _ _ _ _ _ _ _ Hp1 Hd2) as Hall.
          destruct (cv_offset_complete _ _ _ _ Hall) as (Hval & _ & Hbs). split; [exact Hval|].
          rewrite <- Hbs, takeN_app. replace (plen - lenN bs1) with 0 by lia. now rewrite takeN_0, app_nil_r.
      + (* EOF while filling *)
        destruct (Hko ltac:(congruence) ltac:(congruence)) as (bs & Hd & -> & Hlt). subst o. cbn [o_data cv_out].
        destruct (cv_offset_complete _ _ _ _ Hd) as (Hval & _ & Hbs). split; [exact Hval|].
        rewrite <- Hbs. symmetry. apply takeN_all. lia.
      + subst o. discriminate.
      + subst o. discriminate.
      + subst o. discriminate.
    - (* ToReader *)
      destruct (rconsume _ fuel caps _ [] _) as [[out e] s] eqn:Hrc.
      destruct (rextra _ extra _ s) as [ex s2]. subst o. cbn in Hc. cbn [o_data cv_out].
      destruct e; try discriminate.
      destruct (rconsume_rdrains _ _ _ _ _ _ _ _ _ _ Hrc) as (bs & -> & Hd); [congruence|].
      destruct (cb_rdrains _ _ _ _ _ _ _ Hd) as (bs2 & Hd2 & ->); [congruence|]. cbn [cb_u cb_last app] in *.
      exact (cv_complete _ _ _ _ _ _ Hd2).
  Qed.

  (** every method of NewCASBufferFromChunkReader *)
  Theorem chunk_reader_complete_implies_valid evs m o :
    m <> MDiscard ->
    cas_chunk_reader H cfg fuel evs m = o -> completed m (o_err o) = true ->
    valid_script H cfg evs /\ o_data o = expected_slice m (fst (content evs)).
  Proof.
    intros Hm. destruct m; try congruence;
      first [apply chunk_reader_complete_implies_valid_partial; exact I
            |apply chunk_reader_complete_implies_valid_rest; exact I].
  Qed.
End ChunkBuffer2.
