(** C09 — NewCASBufferFromReader: the scripted io.Reader satisfies the
    content specification; buffer-level theorems for ToByteSlice, IntoWriter,
    ToReader and CloneCopy. *)
From Coq Require Import List ZArith NArith Bool Lia.
From BBS Require Import Buffer.Source Buffer.Validate Buffer.Convert Buffer.StreamProofs
  Buffer.ValidateProofs Buffer.ValidateReaderProofs Buffer.ConvertProofs.
Import ListNotations.
Open Scope N_scope.

Definition rcont (s : rsrc) : bytes * err := content (r_rest s).

Lemma Convert_takeN_app n a b : takeN n (a ++ b) = takeN n a ++ takeN (n - lenN a) b.
Proof.
  revert n. induction a as [|x a IH]; intros n.
  - rewrite lenN_nil, N.sub_0_r. reflexivity.
  - cbn [app takeN]. destruct (n =? 0) eqn:E.
    + apply N.eqb_eq in E. subst. cbn. now rewrite takeN_0.
    + apply N.eqb_neq in E. cbn [app]. rewrite IH, lenN_cons.
      replace (n - (1 + lenN a)) with (N.pred n - lenN a) by lia. reflexivity.
Qed.

Lemma dropN_nil_takeN n l : dropN n l = [] -> takeN n l = l.
Proof. intros E. pose proof (takeN_dropN n l) as T. rewrite E, app_nil_r in T. exact T. Qed.

Lemma rsrc_spec : forall cap s c e s', rsrc_read cap s = ((c, e), s') ->
  match e with
  | ENone => rcont s = (c ++ fst (rcont s'), snd (rcont s'))
  | _ => rcont s = (c, e)
  end.
Proof.
  intros cap s c e s' Hr. unfold rsrc_read, rcont in *.
  destruct (r_rest s) as [|[bs|c0|] r] eqn:Er.
  - inv Hr. reflexivity.
  - destruct (is_nil (dropN cap bs)) eqn:En; cbn [negb] in Hr.
    + apply is_nil_true in En. pose proof (dropN_nil_takeN _ _ En) as Et. rewrite Et in Hr.
      assert (Hplain : rcont (mkRsrc (Chunk bs :: r) (r_attach s) (r_closed s)) =
                       (bs ++ fst (content r), snd (content r))).
      { unfold rcont. cbn. destruct (content r); reflexivity. }
      unfold rcont in Hplain. cbn [r_rest] in Hplain.
      destruct (r_attach s).
      * destruct r as [|[bs2|c2|] r2]; inv Hr; cbn [r_rest content]; try (rewrite app_nil_r; reflexivity).
        destruct (content r2); reflexivity.
      * inv Hr. cbn [r_rest]. cbn [content]. destruct (content r); reflexivity.
    + inv Hr. cbn [r_rest content]. destruct (content r) as [c1 e1]. cbn [fst snd].
      rewrite app_assoc, takeN_dropN. reflexivity.
  - inv Hr. reflexivity.
  - inv Hr. reflexivity.
Qed.

Lemma rsrc_no_unexp : forall cap s c e s', rsrc_read cap s = ((c, e), s') -> e <> EUnexp.
Proof.
  intros cap s c e s' Hr. unfold rsrc_read in Hr.
  destruct (r_rest s) as [|[bs|c0|] r]; try (inv Hr; congruence).
  destruct (negb (is_nil (dropN cap bs))); [inv Hr; congruence|].
  destruct (r_attach s); [|inv Hr; congruence].
  destruct r as [|[bs2|c2|] r2]; inv Hr; congruence.
Qed.

Section Consumers.
  Variable S : Type.
  Variable rd : N -> S -> (bytes * err) * S.

  Lemma rdrains_not_none s bs e s' : rdrains rd s bs e s' -> e <> ENone.
  Proof. induction 1; auto. Qed.

  Lemma rconsume_rdrains fuel : forall caps lc out s out' e s',
    rconsume rd fuel caps lc out s = ((out', e), s') -> e <> EFuel ->
    exists bs, out' = out ++ bs /\ rdrains rd s bs e s'.
  Proof.
    induction fuel as [|f IH]; intros caps lc out s out' e s' Hr Hne; cbn [rconsume] in Hr; [inv Hr; congruence|].
    destruct (rd (hd lc caps) s) as [[c e0] s1] eqn:Hrd.
    destruct e0; try (inv Hr; exists c; split; [reflexivity|]; eapply rdrains_end; [eassumption|congruence]).
    destruct (IH _ _ _ _ _ _ _ Hr Hne) as (bs & -> & Hd). exists (c ++ bs). rewrite app_assoc.
    split; [reflexivity|]. eapply rdrains_step; eassumption.
  Qed.

  Lemma copy_rdrains fuel cap : forall written s w' e' s',
    copy_loop rd fuel cap written s = ((w', e'), s') -> e' <> EFuel ->
    exists bs e, w' = written ++ bs /\ rdrains rd s bs e s' /\
                 e' = match e with EEof => ENone | _ => e end.
  Proof.
    induction fuel as [|f IH]; intros written s w' e' s' Hr Hne; cbn [copy_loop] in Hr; [inv Hr; congruence|].
    destruct (rd cap s) as [[c e0] s1] eqn:Hrd.
    destruct e0; try (inv Hr; eexists c, _; split; [reflexivity|]; split; [eapply rdrains_end; [eassumption|congruence]|reflexivity]).
    destruct (IH _ _ _ _ _ Hr Hne) as (bs & e & -> & Hd & He). exists (c ++ bs), e. rewrite app_assoc.
    split; [reflexivity|]. split; [eapply rdrains_step; eassumption|exact He].
  Qed.
  Lemma copy_not_eof fuel cap : forall written s w' e' s',
    copy_loop rd fuel cap written s = ((w', e'), s') -> e' <> EEof.
  Proof.
    induction fuel as [|f IH]; intros written s w' e' s' Hr; cbn [copy_loop] in Hr; [inv Hr; congruence|].
    destruct (rd cap s) as [[c e0] s1]. destruct e0; try (inv Hr; congruence). eapply IH; eassumption.
  Qed.
End Consumers.

Section ReaderBuffer.
  Variable H : bytes -> bytes.
  Variable cfg : vcfg.
  Variable fuel : nat.

  Lemma valid_reader_script evs attach k :
    valid_reader H cfg rcont (mkRsrc evs attach k) <-> valid_script H cfg evs.
  Proof. reflexivity. Qed.

  Lemma rv_complete evs attach out st' :
    rdrains (rv_read H cfg fuel) (rv_init cfg evs attach) out EEof st' ->
    valid_script H cfg evs /\ out = fst (content evs).
  Proof.
    intros Hd. unfold rv_read in Hd.
    destruct (vr_complete_implies_valid H cfg _ _ fuel rcont rsrc_spec rsrc_no_unexp _ _ _ Hd) as (Hc & Hl & Hh).
    unfold rcont in Hc. cbn in Hc. unfold valid_script. rewrite Hc. auto.
  Qed.

  Lemma reader_to_byte_slice evs attach max r st :
    to_byte_slice_r H cfg fuel max (rv_init cfg evs attach) = (r, st) ->
    snd r = ENone -> valid_script H cfg evs /\ fst r = fst (content evs).
  Proof.
    unfold to_byte_slice_r. destruct (max <? g_size cfg); [intros Hr; inv Hr; discriminate|].
    pose proof (RInv_init H cfg _ rcont (mkRsrc evs attach 0)) as Hi0.
    destruct (0 <? g_size cfg) eqn:Hpos.
    - apply N.ltb_lt in Hpos.
      destruct (read_full _ fuel _ _) as [[data e] st1] eqn:Hrf. intros Hr He. inv Hr.
      destruct e; try discriminate. cbn [fst snd] in *. unfold read_full, rv_read in Hrf.
      destruct (read_full_vr H cfg _ _ fuel rcont rsrc_spec rsrc_no_unexp _ [] _ _ _ _ _ _ _ Hi0 Hrf) as (Hi & Hw).
      specialize (Hw eq_refl). cbn [app] in Hi.
      destruct (RInv_full _ _ _ _ _ _ _ Hi Hw Hpos) as (Hc & Hl & Hh).
      unfold rcont in Hc. cbn in Hc. unfold valid_script. rewrite Hc. auto.
    - apply N.ltb_ge in Hpos.
      destruct (rv_read H cfg fuel 0 _) as [[d e] st1] eqn:Hv. intros Hr He. inv Hr. cbn [fst snd] in *.
      unfold rv_read in Hv.
      destruct (vr_read_step H cfg _ _ fuel rcont rsrc_spec rsrc_no_unexp _ _ _ _ _ _ _ Hi0 Hv) as ([_ Hi] & Herr & Hn & _).
      cbn [app] in Hi. rewrite Herr in Hi.
      destruct e; try discriminate.
      + specialize (Hn eq_refl). destruct Hi as (_ & _ & _ & Hl & _). lia.
      + destruct Hi as (Hc & Hl & Hh). unfold rcont in Hc. cbn in Hc. unfold valid_script. rewrite Hc. cbn.
        assert (d = []) by (apply lenN_zero; lia). subst d. auto.
  Qed.

  Theorem reader_complete_implies_valid_partial evs attach m o :
    match m with MToByteSlice _ | MIntoWriter | MCloneCopy _ | MToReader _ _ => True | _ => False end ->
    cas_reader H cfg fuel evs attach m = o -> completed m (o_err o) = true ->
    valid_script H cfg evs /\ o_data o = expected_slice m (fst (content evs)).
  Proof.
    intros Hm Ho Hc. destruct m; try contradiction; cbn [cas_reader] in Ho; cbn [completed expected_slice] in *.
    - destruct (to_byte_slice_r _ _ _ _ _) as [[out e] st] eqn:Ht. subst o. cbn in Hc.
      destruct e; try discriminate. exact (reader_to_byte_slice _ _ _ _ _ Ht eq_refl).
    - unfold copy in Ho. destruct (copy_loop _ fuel _ [] _) as [[out e] st] eqn:Hcp. subst o. cbn in Hc.
      destruct e; try discriminate. cbn.
      destruct (copy_rdrains _ _ _ _ _ _ _ _ _ Hcp) as (bs & e & -> & Hd & He); [congruence|].
      destruct e; try discriminate; [exfalso; exact (rdrains_not_none _ _ _ _ _ _ Hd eq_refl)|].
      exact (rv_complete _ _ _ _ Hd).
    - destruct (rconsume _ fuel caps _ [] _) as [[out e] st] eqn:Hrc.
      destruct (rextra _ extra _ st) as [ex st2]. subst o. cbn in Hc. cbn [o_data rv_out].
      destruct e; try discriminate.
      destruct (rconsume_rdrains _ _ _ _ _ _ _ _ _ _ Hrc) as (bs & -> & Hd); [congruence|].
      exact (rv_complete _ _ _ _ Hd).
    - destruct (to_byte_slice_r _ _ _ _ _) as [r st] eqn:Ht. subst o.
      unfold clone_copy_of in Hc |- *. destruct (snd r) eqn:Hs; cbn in Hc; try discriminate. cbn.
      exact (reader_to_byte_slice _ _ _ _ _ Ht Hs).
  Qed.
End ReaderBuffer.

(** * ReadAt and ToChunkReader of NewCASBufferFromReader *)
Lemma rsrc_cap : forall cap s c e s', rsrc_read cap s = ((c, e), s') -> lenN c <= cap.
Proof.
  intros cap s c e s' Hr. unfold rsrc_read in Hr.
  assert (Hnil : lenN [] <= cap) by (unfold lenN; cbn; lia).
  assert (Ht : forall bs, lenN (takeN cap bs) <= cap) by (intros bs; rewrite lenN_takeN; lia).
  destruct (r_rest s) as [|[bs|c0|] r]; try (inv Hr; assumption).
  destruct (negb (is_nil (dropN cap bs))); [inv Hr; apply Ht|].
  destruct (r_attach s); [|inv Hr; apply Ht].
  destruct r as [|[bs2|c2|] r2]; inv Hr; apply Ht.
Qed.

Section ReaderBuffer2.
  Variable H : bytes -> bytes.
  Variable cfg : vcfg.
  Variable fuel : nat.

  Notation RI := (RInv2 H cfg rsrc rcont).
  Notation vrd := (rv_read H cfg fuel).

  Lemma RI_eof evs attach st out :
    RI (mkRsrc evs attach 0) st out -> v_err st = EEof -> valid_script H cfg evs /\ out = fst (content evs).
  Proof.
    intros Hi He. destruct (RInv2_eof _ _ _ _ _ _ _ Hi He) as (Hc & Hl & Hh).
    unfold rcont in Hc. cbn in Hc. unfold valid_script. rewrite Hc. auto.
  Qed.

  Definition rb_ok (s : rbst rvs) : Prop := rb_err s = EEof -> v_err (rb_u s) = EEof.

  Lemma rb_read_vr s0 max (s : rbst rvs) c e (s1 : rbst rvs) pre :
    RI s0 (rb_u s) pre -> rb_ok s -> rb_read vrd fuel max s = ((c, e), s1) ->
    RI s0 (rb_u s1) (pre ++ c) /\ rb_ok s1 /\ (e = EEof -> v_err (rb_u s1) = EEof) /\ (e <> ENone -> c = []).
  Proof.
    intros Hi Hj Hr. unfold rb_read in Hr. destruct (rb_err s) eqn:Ee;
      try (inv Hr; rewrite app_nil_r; rsplit; auto; congruence).
    destruct (read_full vrd fuel max (rb_u s)) as [[data e0] u'] eqn:Hrf. unfold read_full, rv_read in Hrf.
    destruct (read_full_vr2 H cfg _ _ fuel rcont rsrc_spec rsrc_no_unexp rsrc_cap s0 pre _ _ [] _ _ _ _
                ltac:(rewrite app_nil_r; exact Hi) ltac:(unfold lenN; cbn; lia) Hrf) as (Hi1 & _ & Heof).
    assert (Hj1 : (match e0 with EUnexp => EEof | _ => e0 end) = EEof -> v_err u' = EEof).
    { intros Hx. apply Heof. destruct e0; try discriminate; auto. }
    destruct (negb (is_nil data)) eqn:En; inv Hr; cbn [rb_u rb_err].
    - rsplit; auto; try congruence.
    - apply negb_false_iff, is_nil_true in En. subst data. rsplit; auto.
  Qed.

  Lemma rb_drain_vr s0 max : forall f out (s : rbst rvs) out' e (s' : rbst rvs) pre,
    RI s0 (rb_u s) pre -> rb_ok s -> drain (rb_read vrd fuel max) f out s = ((out', e), s') ->
    exists R, out' = out ++ R /\ RI s0 (rb_u s') (pre ++ R) /\ (e = EEof -> v_err (rb_u s') = EEof).
  Proof.
    induction f as [|f IH]; intros out s out' e s' pre Hi Hj Hd; cbn [drain] in Hd.
    - inv Hd. exists []. rewrite !app_nil_r. rsplit; auto. congruence.
    - destruct (rb_read vrd fuel max s) as [[c e0] s1] eqn:Hr.
      destruct (rb_read_vr _ _ _ _ _ _ _ Hi Hj Hr) as (Hi1 & Hj1 & He1 & Hc1).
      destruct e0; try (inv Hd; exists []; rewrite !app_nil_r; rewrite (Hc1 ltac:(congruence)), app_nil_r in Hi1;
                        rsplit; auto; congruence).
      destruct (IH _ _ _ _ _ _ Hi1 Hj1 Hd) as (R & -> & HiR & HeR). exists (c ++ R). rewrite !app_assoc. rsplit; auto.
  Qed.

  Lemma RI_init evs attach : RI (mkRsrc evs attach 0) (rv_init cfg evs attach) [].
  Proof. apply RInv2_init. Qed.

  Theorem reader_complete_implies_valid_rest evs attach m o :
    match m with MReadAt _ _ | MToChunkReader _ _ _ => True | _ => False end ->
    cas_reader H cfg fuel evs attach m = o -> completed m (o_err o) = true ->
    valid_script H cfg evs /\ o_data o = expected_slice m (fst (content evs)).
  Proof.
    intros Hm Ho Hc. destruct m; try contradiction; cbn [cas_reader] in Ho; cbn [completed expected_slice] in *.
    - (* ReadAt *)
      unfold discard_from_reader in Ho. destruct (off <? 0)%Z eqn:Hneg; [subst o; discriminate|].
      apply Z.ltb_ge in Hneg.
      destruct (copy_n_loop vrd fuel (Z.to_N off) _) as [e0 st] eqn:Hcn. unfold rv_read in Hcn.
      destruct (copy_n_vr H cfg _ _ fuel rcont rsrc_spec rsrc_no_unexp rsrc_cap _ _ _ _ _ _ _ (RI_init evs attach) Hcn)
        as (D & HiD & Hok & Heof). cbn [app] in HiD.
      destruct e0; try (subst o; discriminate).
      + specialize (Hok eq_refl).
        destruct (read_full vrd fuel plen st) as [[got e] st1] eqn:Hrf. unfold read_full, rv_read in Hrf.
        destruct (read_full_vr2 H cfg _ _ fuel rcont rsrc_spec rsrc_no_unexp rsrc_cap _ D _ _ [] _ _ _ _
                    ltac:(rewrite app_nil_r; exact HiD) ltac:(unfold lenN; cbn; lia) Hrf) as (Hi1 & Hfull & Hshort).
        assert (Hend : v_err st1 = EEof -> lenN got < plen -> o = rv_out got EEof [] [] (rv_close st1) ->
                       valid_script H cfg evs /\ o_data o = takeN plen (dropN (Z.to_N off) (fst (content evs)))).
        { intros Hv Hlt ->. destruct (RI_eof _ _ _ _ Hi1 Hv) as (Hval & Hcont). split; [exact Hval|].
          rewrite <- Hcont, dropN_app_ge by lia. replace (Z.to_N off - lenN D) with 0 by lia.
          rewrite dropN_0. cbn. symmetry. apply takeN_all. lia. }
        destruct e; try (subst o; discriminate).
        * specialize (Hfull eq_refl).
          destruct (copy vrd fuel st1) as [[w e2] st2] eqn:Hcp. unfold copy, rv_read in Hcp.
          destruct (copy_vr H cfg _ _ fuel rcont rsrc_spec rsrc_no_unexp rsrc_cap _ _ _ _ _ _ _ _ _ Hi1 Hcp)
            as (R & _ & Hi2 & Hv2).
          pose proof (copy_not_eof _ _ _ _ _ _ _ _ _ Hcp) as Hneof.
          destruct e2; try congruence; try (subst o; discriminate). subst o. cbn [o_data rv_out].
          destruct (RI_eof _ _ _ _ Hi2 (Hv2 eq_refl)) as (Hval & Hcont). split; [exact Hval|].
          rewrite <- Hcont, <- app_assoc, dropN_app_ge by lia. replace (Z.to_N off - lenN D) with 0 by lia.
          rewrite dropN_0, Convert_takeN_app. replace (plen - lenN got) with 0 by lia.
          rewrite takeN_all by lia. now rewrite takeN_0, app_nil_r.
        * destruct (Hshort (or_introl eq_refl)) as (Hv & Hlt). apply Hend; auto.
        * destruct (Hshort (or_intror eq_refl)) as (Hv & Hlt). apply Hend; auto.
      + destruct (Heof eq_refl) as (Hlt & Hv). subst o. cbn [o_data rv_out].
        destruct (RI_eof _ _ _ _ HiD Hv) as (Hval & Hcont). split; [exact Hval|].
        rewrite <- Hcont, dropN_all by lia. destruct plen; reflexivity.
    - (* ToChunkReader *)
      destruct (valid_offset (g_size cfg) off) eqn:Hvo; [|subst o; discriminate].
      unfold valid_offset in Hvo. apply andb_true_iff in Hvo. destruct Hvo as [Hv0 Hv1].
      apply Z.leb_le in Hv0. apply N.leb_le in Hv1.
      unfold discard_from_reader in Ho. destruct (off <? 0)%Z eqn:Hneg; [apply Z.ltb_lt in Hneg; lia|].
      destruct (copy_n_loop vrd fuel (Z.to_N off) _) as [e0 st] eqn:Hcn. unfold rv_read in Hcn.
      destruct (copy_n_vr H cfg _ _ fuel rcont rsrc_spec rsrc_no_unexp rsrc_cap _ _ _ _ _ _ _ (RI_init evs attach) Hcn)
        as (D & HiD & Hok & Heof). cbn [app] in HiD.
      destruct e0.
      + specialize (Hok eq_refl).
        destruct (drain _ fuel [] _) as [[out e] s] eqn:Hdr. destruct (extra_reads _ extra s) as [ex s2].
        subst o. cbn in Hc. cbn [o_data rv_out]. destruct e; try discriminate.
        destruct (rb_drain_vr _ max fuel [] (mkRbst st ENone) _ _ _ D HiD ltac:(unfold rb_ok; cbn; congruence) Hdr) as (R & -> & HiR & HvR).
        destruct (RI_eof _ _ _ _ HiR (HvR eq_refl)) as (Hval & Hcont). split; [exact Hval|].
        rewrite <- Hcont, dropN_app_ge by lia. replace (Z.to_N off - lenN D) with 0 by lia. now rewrite dropN_0.
      + subst o. cbn in Hc. destruct (Heof eq_refl) as (Hlt & Hv).
        destruct (RInv2_eof _ _ _ _ _ _ _ HiD Hv) as (_ & Hl & _). lia.
      + subst o. discriminate.
      + subst o. discriminate.
      + subst o. discriminate.
  Qed.

  Theorem reader_complete_implies_valid evs attach m o :
    m <> MDiscard ->
    cas_reader H cfg fuel evs attach m = o -> completed m (o_err o) = true ->
    valid_script H cfg evs /\ o_data o = expected_slice m (fst (content evs)).
  Proof.
    intros Hm. destruct m; try congruence;
      first [apply reader_complete_implies_valid_partial; exact I
            |apply reader_complete_implies_valid_rest; exact I].
  Qed.
End ReaderBuffer2.
