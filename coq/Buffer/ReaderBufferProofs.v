(** C09 — NewCASBufferFromReader: the scripted io.Reader satisfies the
    content specification; buffer-level theorems for ToByteSlice, IntoWriter,
    ToReader and CloneCopy. *)
From Coq Require Import List ZArith NArith Bool Lia.
From BBS Require Import Buffer.Source Buffer.Validate Buffer.Convert Buffer.StreamProofs
  Buffer.ValidateProofs Buffer.ValidateReaderProofs Buffer.ConvertProofs.
Import ListNotations.
Open Scope N_scope.

Definition rcont (s : rsrc) : bytes * err := content (r_rest s).

Lemma dropN_nil_takeN n l : dropN n l = [] -> takeN n l = l.
Proof. intros E. pose proof (takeN_dropN n l) as T. rewrite E, app_nil_r in T. exact T. Qed.

Lemma rsrc_spec : forall cap s c e s', rsrc_read cap s = ((c, e), s') ->
  match e with
  | ENone => rcont s = (c ++ fst (rcont s'), snd (rcont s'))
  | _ => rcont s = (c, e)
  end.
Proof.
  intros cap s c e s' Hr. unfold rsrc_read, rcont in *.
  destruct (r_rest s) as [|[bs|c0|] r] eqn:Er.
  - inv Hr. reflexivity.
  - destruct (is_nil (dropN cap bs)) eqn:En; cbn [negb] in Hr.
    + apply is_nil_true in En. pose proof (dropN_nil_takeN _ _ En) as Et. rewrite Et in Hr.
      assert (Hplain : rcont (mkRsrc (Chunk bs :: r) (r_attach s) (r_closed s)) =
                       (bs ++ fst (content r), snd (content r))).
      { unfold rcont. cbn. destruct (content r); reflexivity. }
      unfold rcont in Hplain. cbn [r_rest] in Hplain.
      destruct (r_attach s).
      * destruct r as [|[bs2|c2|] r2]; inv Hr; cbn [r_rest content]; try (rewrite app_nil_r; reflexivity).
        destruct (content r2); reflexivity.
      * inv Hr. cbn [r_rest]. cbn [content]. destruct (content r); reflexivity.
    + inv Hr. cbn [r_rest content]. destruct (content r) as [c1 e1]. cbn [fst snd].
      rewrite app_assoc, takeN_dropN. reflexivity.
  - inv Hr. reflexivity.
  - inv Hr. reflexivity.
Qed.

Lemma rsrc_no_unexp : forall cap s c e s', rsrc_read cap s = ((c, e), s') -> e <> EUnexp.
Proof.
  intros cap s c e s' Hr. unfold rsrc_read in Hr.
  destruct (r_rest s) as [|[bs|c0|] r]; try (inv Hr; congruence).
  destruct (negb (is_nil (dropN cap bs))); [inv Hr; congruence|].
  destruct (r_attach s); [|inv Hr; congruence].
  destruct r as [|[bs2|c2|] r2]; inv Hr; congruence.
Qed.

Section Consumers.
  Variable S : Type.
  Variable rd : N -> S -> (bytes * err) * S.

  Lemma rdrains_not_none s bs e s' : rdrains rd s bs e s' -> e <> ENone.
  Proof. induction 1; auto. Qed.

  Lemma rconsume_rdrains fuel : forall caps lc out s out' e s',
    rconsume rd fuel caps lc out s = ((out', e), s') -> e <> EFuel ->
    exists bs, out' = out ++ bs /\ rdrains rd s bs e s'.
  Proof.
    induction fuel as [|f IH]; intros caps lc out s out' e s' Hr Hne; cbn [rconsume] in Hr; [inv Hr; congruence|].
    destruct (rd (hd lc caps) s) as [[c e0] s1] eqn:Hrd.
    destruct e0; try (inv Hr; exists c; split; [reflexivity|]; eapply rdrains_end; [eassumption|congruence]).
    destruct (IH _ _ _ _ _ _ _ Hr Hne) as (bs & -> & Hd). exists (c ++ bs). rewrite app_assoc.
    split; [reflexivity|]. eapply rdrains_step; eassumption.
  Qed.

  Lemma copy_rdrains fuel cap : forall written s w' e' s',
    copy_loop rd fuel cap written s = ((w', e'), s') -> e' <> EFuel ->
    exists bs e, w' = written ++ bs /\ rdrains rd s bs e s' /\
                 e' = match e with EEof => ENone | _ => e end.
  Proof.
    induction fuel as [|f IH]; intros written s w' e' s' Hr Hne; cbn [copy_loop] in Hr; [inv Hr; congruence|].
    destruct (rd cap s) as [[c e0] s1] eqn:Hrd.
    destruct e0; try (inv Hr; eexists c, _; split; [reflexivity|]; split; [eapply rdrains_end; [eassumption|congruence]|reflexivity]).
    destruct (IH _ _ _ _ _ Hr Hne) as (bs & e & -> & Hd & He). exists (c ++ bs), e. rewrite app_assoc.
    split; [reflexivity|]. split; [eapply rdrains_step; eassumption|exact He].
  Qed.
End Consumers.

Section ReaderBuffer.
  Variable H : bytes -> bytes.
  Variable cfg : vcfg.
  Variable fuel : nat.

  Lemma valid_reader_script evs attach k :
    valid_reader H cfg rcont (mkRsrc evs attach k) <-> valid_script H cfg evs.
  Proof. reflexivity. Qed.

  Lemma rv_complete evs attach out st' :
    rdrains (rv_read H cfg fuel) (rv_init cfg evs attach) out EEof st' ->
    valid_script H cfg evs /\ out = fst (content evs).
  Proof.
    intros Hd. unfold rv_read in Hd.
    destruct (vr_complete_implies_valid H cfg _ _ fuel rcont rsrc_spec rsrc_no_unexp _ _ _ Hd) as (Hc & Hl & Hh).
    unfold rcont in Hc. cbn in Hc. unfold valid_script. rewrite Hc. auto.
  Qed.

  Lemma reader_to_byte_slice evs attach max r st :
    to_byte_slice_r H cfg fuel max (rv_init cfg evs attach) = (r, st) ->
    snd r = ENone -> valid_script H cfg evs /\ fst r = fst (content evs).
  Proof.
    unfold to_byte_slice_r. destruct (max <? g_size cfg); [intros Hr; inv Hr; discriminate|].
    pose proof (RInv_init H cfg _ rcont (mkRsrc evs attach 0)) as Hi0.
    destruct (0 <? g_size cfg) eqn:Hpos.
    - apply N.ltb_lt in Hpos.
      destruct (read_full _ fuel _ _) as [[data e] st1] eqn:Hrf. intros Hr He. inv Hr.
      destruct e; try discriminate. cbn [fst snd] in *. unfold read_full, rv_read in Hrf.
      destruct (read_full_vr H cfg _ _ fuel rcont rsrc_spec rsrc_no_unexp _ [] _ _ _ _ _ _ _ Hi0 Hrf) as (Hi & Hw).
      specialize (Hw eq_refl). cbn [app] in Hi.
      destruct (RInv_full _ _ _ _ _ _ _ Hi Hw Hpos) as (Hc & Hl & Hh).
      unfold rcont in Hc. cbn in Hc. unfold valid_script. rewrite Hc. auto.
    - apply N.ltb_ge in Hpos.
      destruct (rv_read H cfg fuel 0 _) as [[d e] st1] eqn:Hv. intros Hr He. inv Hr. cbn [fst snd] in *.
      unfold rv_read in Hv.
      destruct (vr_read_step H cfg _ _ fuel rcont rsrc_spec rsrc_no_unexp _ _ _ _ _ _ _ Hi0 Hv) as ([_ Hi] & Herr & Hn & _).
      cbn [app] in Hi. rewrite Herr in Hi.
      destruct e; try discriminate.
      + specialize (Hn eq_refl). destruct Hi as (_ & _ & _ & Hl & _). lia.
      + destruct Hi as (Hc & Hl & Hh). unfold rcont in Hc. cbn in Hc. unfold valid_script. rewrite Hc. cbn.
        assert (d = []) by (apply lenN_zero; lia). subst d. auto.
  Qed.

  Theorem reader_complete_implies_valid_partial evs attach m o :
    match m with MToByteSlice _ | MIntoWriter | MCloneCopy _ | MToReader _ _ => True | _ => False end ->
    cas_reader H cfg fuel evs attach m = o -> completed m (o_err o) = true ->
    valid_script H cfg evs /\ o_data o = expected_slice m (fst (content evs)).
  Proof.
    intros Hm Ho Hc. destruct m; try contradiction; cbn [cas_reader] in Ho; cbn [completed expected_slice] in *.
    - destruct (to_byte_slice_r _ _ _ _ _) as [[out e] st] eqn:Ht. subst o. cbn in Hc.
      destruct e; try discriminate. exact (reader_to_byte_slice _ _ _ _ _ Ht eq_refl).
    - unfold copy in Ho. destruct (copy_loop _ fuel _ [] _) as [[out e] st] eqn:Hcp. subst o. cbn in Hc.
      destruct e; try discriminate. cbn.
      destruct (copy_rdrains _ _ _ _ _ _ _ _ _ Hcp) as (bs & e & -> & Hd & He); [congruence|].
      destruct e; try discriminate; [exfalso; exact (rdrains_not_none _ _ _ _ _ _ Hd eq_refl)|].
      exact (rv_complete _ _ _ _ Hd).
    - destruct (rconsume _ fuel caps _ [] _) as [[out e] st] eqn:Hrc.
      destruct (rextra _ extra _ st) as [ex st2]. subst o. cbn in Hc. cbn [o_data rv_out].
      destruct e; try discriminate.
      destruct (rconsume_rdrains _ _ _ _ _ _ _ _ _ _ Hrc) as (bs & -> & Hd); [congruence|].
      exact (rv_complete _ _ _ _ Hd).
    - destruct (to_byte_slice_r _ _ _ _ _) as [r st] eqn:Ht. subst o.
      unfold clone_copy_of in Hc |- *. destruct (snd r) eqn:Hs; cbn in Hc; try discriminate. cbn.
      exact (reader_to_byte_slice _ _ _ _ _ Ht Hs).
  Qed.
End ReaderBuffer.
