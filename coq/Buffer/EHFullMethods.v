(** C16 — no duplicated and no skipped range for every consumption method:
    when the buffer handed to WithErrorHandler and every replacement buffer
    the handler supplies carry the same object [C], a call / stream that
    completes has handed the consumer exactly the expected slice of [C] —
    ToByteSlice, IntoWriter, ReadAt (any offset and length), ToChunkReader
    (any offset and chunk size), ToReader (any read sizes), CloneCopy — for
    every buffer kind, every position of the failures, any fuel. *)
From Coq Require Import List ZArith NArith Bool Lia.
From BBS Require Import Buffer.Source Buffer.Validate Buffer.Convert Buffer.ErrHandler
  Buffer.StreamProofs Buffer.ValidateProofs Buffer.ValidateReaderProofs Buffer.ConvertProofs
  Buffer.ReaderBufferProofs Buffer.ConvertProofs2 Buffer.ErrHandlerProofs
  Buffer.EHFullCarry Buffer.EHFullReader.
Import ListNotations.
Open Scope N_scope.

Lemma completed_code m c : completed m (ECode c) = false.
Proof. destruct m; reflexivity. Qed.
Lemma completed_fuel m : completed m EFuel = false.
Proof. destruct m; reflexivity. Qed.
Lemma completed_unexp m : completed m EUnexp = false.
Proof. destruct m; reflexivity. Qed.

Lemma ehr_no_unexp fuel cap r c e r' : ehr_read fuel cap r = ((c, e), r') -> e <> EUnexp.
Proof.
  unfold ehr_read. destruct (urd_read fuel cap (er_cur r)) as [[data t] cur'].
  destruct (on_error (er_h r) t) as [a h']. destruct t; try (intros Hr; inv Hr; congruence);
    destruct a; intros Hr; inv Hr; congruence.
Qed.

(** newOffsetChunkReader over any chunk reader: a stream that reaches io.EOF
    is the stream underneath, read from its start, minus the first [off] bytes *)
Section OffsetGeneric.
  Variable S : Type.
  Variable rd : S -> (bytes * err) * S.
  Variable cl : S -> S.
  Lemma offset_complete_generic fuel off s0 bs o' :
    drains (offset_read rd) (offset_init rd cl fuel off s0) bs EEof o' ->
    (0 <= off)%Z /\ exists full u, drains rd s0 full EEof u /\ bs = dropN (Z.to_N off) full.
  Proof.
    unfold offset_init. intros Hdo.
    destruct (off <? 0)%Z eqn:Hneg.
    { destruct (offset_fixed_drains _ _ _ _ _ _ Hdo) as (Ee & _); [cbn; congruence|cbn in Ee; congruence]. }
    apply Z.ltb_ge in Hneg. split; [exact Hneg|].
    destruct (discard_from_chunk_reader rd fuel (Z.to_N off) s0) as [[prefix e] s'] eqn:Hdis.
    assert (Hfail : e <> ENone -> drains (offset_read rd) (mkOst (cl s') [] e) bs EEof o' ->
              exists full u, drains rd s0 full EEof u /\ bs = dropN (Z.to_N off) full).
    { intros Hne Hdo'.
      destruct (offset_fixed_drains _ _ _ _ _ _ Hdo') as (Ee & ->); [exact Hne|]. cbn in Ee. subst e.
      destruct (discard_fails _ _ _ _ _ _ _ _ Hdis) as (bs0 & Hd0 & Hl0); try congruence.
      exists bs0, s'. split; [exact Hd0|]. symmetry. apply dropN_all. lia. }
    destruct e; try (apply Hfail; [congruence|exact Hdo]).
    destruct (discard_pulls _ _ _ _ _ _ _ Hdis) as (bs0 & Hp0 & -> & Hle).
    destruct (offset_drains _ _ _ _ _ _ _ Hdo) as (bs2 & -> & Hd2).
    pose proof (pulls_drains _ _ _ _ _ _ _ _ Hp0 Hd2) as Hall. cbn [o_u] in Hall.
    eexists _, _. split; [exact Hall|]. now rewrite dropN_app.
  Qed.
End OffsetGeneric.

Section Methods.
  Variable H : bytes -> bytes.
  Variable cfg : vcfg.
  Variable fuel : nat.
  Variable C : bytes.

  (** a whole operation on a plain buffer (C09's theorems) *)
  Lemma plain_complete b m :
    carries_full C b -> m <> MDiscard ->
    completed m (o_err (plain H cfg fuel b m)) = true ->
    o_data (plain H cfg fuel b m) = expected_slice m C.
  Proof.
    intros Hc Hm Hcomp. destruct b as [evs|evs a|d|x]; cbn [plain carries_full] in *.
    - destruct (chunk_reader_complete_implies_valid H cfg fuel evs m _ Hm eq_refl Hcomp) as ((He & _) & ->).
      destruct Hc as (rest & -> & Hrest). rewrite (Hrest He), app_nil_r. reflexivity.
    - destruct (ReaderBufferProofs.reader_complete_implies_valid H cfg fuel evs a m _ Hm eq_refl Hcomp)
        as ((He & _) & ->).
      assert (Hcc : ccar C evs) by (destruct a; [apply rcar_ccar|]; exact Hc).
      destruct Hcc as (rest & -> & Hrest). rewrite (Hrest He), app_nil_r. reflexivity.
    - subst d. apply byte_slice_buffer_expected. exact Hcomp.
    - rewrite error_buffer_never_completes in Hcomp by exact Hm. discriminate.
  Qed.

  (** tryRepeatedly: ToByteSlice, ReadAt (and CloneCopy through ToByteSlice) *)
  Lemma try_repeatedly_no_dup : forall n m b h cbs d e cbs' h',
    try_repeatedly H cfg fuel n m b h cbs = (d, e, cbs', h') -> m <> MDiscard ->
    carries_full C b -> Forall (ans_carries C) (h_answers h) ->
    completed m e = true -> d = expected_slice m C.
  Proof.
    induction n as [|n IH]; intros m b h cbs d e cbs' h' Ht Hm Hc Hall Hcomp; cbn [try_repeatedly] in Ht.
    - destruct (o_err (plain H cfg fuel b m)) eqn:Ee;
        try (inv Ht; apply plain_complete; auto; rewrite Ee; exact Hcomp);
        match type of Ht with context [on_error h ?t] => destruct (on_error h t) as [a h1] end;
        destruct a; inv Ht;
        first [rewrite completed_fuel in Hcomp|rewrite completed_code in Hcomp]; discriminate.
    - destruct (o_err (plain H cfg fuel b m)) eqn:Ee;
        try (inv Ht; apply plain_complete; auto; rewrite Ee; exact Hcomp);
        match type of Ht with context [on_error h ?t] => destruct (on_error h t) as [a h1] eqn:Ho end;
        (destruct a as [b'|c'];
         [rewrite (on_error_replace _ _ _ _ Ho) in Hall; inversion Hall; subst;
          eapply IH; eauto
         |inv Ht; rewrite completed_code in Hcomp; discriminate]).
  Qed.

  (** the validated stream above the error-handling chunk reader *)
  Lemma ehv_complete_is_object max b h out st' :
    carries_full C b -> Forall (ans_carries C) (h_answers h) ->
    drains (ehv_read H cfg fuel max) (vinit cfg (ehc_init fuel b h)) out EEof st' -> out = C.
  Proof.
    intros Hc Hall Hd. destruct (eh_validated_stitched _ _ _ _ _ _ _ _ Hd) as (_ & _ & offs & Hs).
    rewrite <- (dropN_0 C).
    eapply stitched_no_dup_no_skip_full; [exact Hs|reflexivity|reflexivity|exact Hc|exact Hall|lia].
  Qed.

  (** the validated stream above the error-handling reader: still validated,
      and it is the stitched stream *)
  Theorem ehr_validated_stitched b h out st' :
    rdrains (ehrv_read H cfg fuel) (vinit cfg (ehr_init fuel b h)) out EEof st' ->
    lenN out = g_size cfg /\ g_hash cfg = H out /\
    exists offs, rstitched fuel (urd_open fuel b 0) 0 (h_answers h) out EEof offs.
  Proof.
    intros Hd. unfold ehrv_read in Hd.
    assert (HP : forall cap s c e s', True -> ehr_read fuel cap s = ((c, e), s') -> e <> EUnexp /\ (e = ENone -> True))
      by (intros cap s c e s' _ Hr; split; [exact (ehr_no_unexp _ _ _ _ _ _ Hr)|auto]).
    destruct (vr_complete_under_init H cfg _ (ehr_read fuel) fuel (fun _ => True) HP _ _ _ Logic.I Hd) as (Hu & Hl & Hh).
    destruct (ehr_stitched _ _ _ _ _ Hu) as (offs & Hs & _). cbn in Hs. eauto.
  Qed.

  Lemma ehrv_complete_is_object b h out st' :
    carries_full C b -> Forall (ans_carries C) (h_answers h) ->
    rdrains (ehrv_read H cfg fuel) (vinit cfg (ehr_init fuel b h)) out EEof st' -> out = C.
  Proof.
    intros Hc Hall Hd. destruct (ehr_validated_stitched _ _ _ _ Hd) as (_ & _ & offs & Hs).
    rewrite <- (dropN_0 C).
    eapply rstitched_no_dup_no_skip; [exact Hs|reflexivity|reflexivity|exact Hc|exact Hall|lia].
  Qed.

  Theorem eh_method_no_dup b h m :
    carries_full C b -> Forall (ans_carries C) (h_answers h) -> m <> MDiscard ->
    completed m (x_err (eh_method H cfg fuel b h m)) = true ->
    x_data (eh_method H cfg fuel b h m) = expected_slice m C.
  Proof.
    intros Hc Hall Hm. destruct m; try congruence; cbn [eh_method].
    - (* ToByteSlice *)
      destruct (try_repeatedly _ _ _ _ _ _ _ _) as [[[d e] cbs] h'] eqn:Ht. cbn [x_err x_data]. intros Hcomp.
      eapply try_repeatedly_no_dup; eauto.
    - (* IntoWriter *)
      unfold into_writer_cr. destruct (drain _ fuel [] _) as [[out e] st] eqn:Hd. cbn [x_err x_data expected_slice].
      intros Hcomp.
      assert (He : e = EEof).
      { destruct e; try discriminate; [|reflexivity]. exfalso.
        destruct (drain_drains _ _ _ _ _ _ _ _ Hd) as (bs & _ & Hds); [congruence|].
        exact (drains_not_none _ _ _ _ _ _ Hds eq_refl). }
      subst e.
      destruct (drain_drains _ _ _ _ _ _ _ _ Hd) as (bs & -> & Hds); [congruence|]. cbn [app].
      eapply ehv_complete_is_object; eauto.
    - (* ReadAt *)
      destruct (try_repeatedly _ _ _ _ _ _ _ _) as [[[d e] cbs] h'] eqn:Ht. cbn [x_err x_data]. intros Hcomp.
      eapply try_repeatedly_no_dup; eauto.
    - (* ToChunkReader *)
      destruct (valid_offset (g_size cfg) off) eqn:Hv; [|cbn; discriminate].
      destruct (drain _ fuel [] _) as [[out e] o] eqn:Hd.
      destruct (extra_reads _ extra o) as [ex o2]. cbn [x_err x_data expected_slice completed].
      intros Hcomp. destruct e; try discriminate.
      destruct (drain_drains _ _ _ _ _ _ _ _ Hd) as (bs & -> & Hds); [congruence|]. cbn [app].
      destruct (offset_complete_generic _ _ _ _ _ _ _ _ Hds) as (_ & full & u & Hfull & ->).
      rewrite (ehv_complete_is_object _ _ _ _ _ Hc Hall Hfull). reflexivity.
    - (* ToReader *)
      destruct (rconsume _ fuel caps _ [] _) as [[out e] st] eqn:Hr.
      destruct (rextra _ extra _ st) as [ex st2]. cbn [x_err x_data expected_slice completed].
      intros Hcomp. destruct e; try discriminate.
      destruct (rconsume_rdrains _ _ _ _ _ _ _ _ _ _ Hr) as (bs & -> & Hds); [congruence|]. cbn [app].
      eapply ehrv_complete_is_object; eauto.
    - (* CloneCopy *)
      destruct (try_repeatedly _ _ _ _ _ _ _ _) as [[[d e] cbs] h'] eqn:Ht.
      destruct e; cbn [x_err x_data completed is_none expected_slice]; try discriminate. intros _.
      change C with (expected_slice (MToByteSlice max) C).
      eapply try_repeatedly_no_dup; eauto. congruence.
  Qed.

  (** WithErrorHandler applied to a buffer in a known state *)
  Lemma weh_carries : forall n b h w h',
    with_error_handler n b h = (w, h') -> carries_full C b -> Forall (ans_carries C) (h_answers h) ->
    carries_full C (match w with inl b' | inr b' => b' end) /\ Forall (ans_carries C) (h_answers h').
  Proof.
    induction n as [|n IH]; intros b h w h' Hw Hc Hall; destruct b; cbn [with_error_handler] in Hw;
      try (inv Hw; auto; fail).
    - destruct (on_error h (ECode c)) as [a h1] eqn:Ho. pose proof (on_error_len h (ECode c)) as _.
      destruct a as [b'|c'].
      + rewrite (on_error_replace _ _ _ _ Ho) in Hall. inversion Hall; subst. inv Hw. cbn. auto.
      + inv Hw. cbn. split; [exact Logic.I|].
        unfold on_error in Ho. destruct (h_answers h) as [|a r]; inv Ho; cbn; [constructor|].
        inversion Hall; assumption.
    - destruct (on_error h (ECode c)) as [a h1] eqn:Ho.
      destruct a as [b'|c'].
      + rewrite (on_error_replace _ _ _ _ Ho) in Hall. inversion Hall; subst. eapply IH; eauto.
      + inv Hw. cbn. split; [exact Logic.I|].
        unfold on_error in Ho. destruct (h_answers h) as [|a r]; inv Ho; cbn; [constructor|].
        inversion Hall; assumption.
  Qed.

  (** The property's first sentence, every method, every buffer kind. *)
  Theorem run_case_no_dup_no_skip b0 answers m :
    carries_full C b0 -> Forall (ans_carries C) answers -> m <> MDiscard ->
    completed m (x_err (run_case H cfg fuel b0 answers m)) = true ->
    x_data (run_case H cfg fuel b0 answers m) = expected_slice m C.
  Proof.
    intros Hc Hall Hm. unfold run_case.
    destruct (with_error_handler _ b0 _) as [w h] eqn:Hw.
    destruct (weh_carries _ _ _ _ _ Hw Hc Hall) as (Hc' & Hall').
    destruct w as [b|b].
    - apply eh_method_no_dup; assumption.
    - cbn [x_err x_data]. apply plain_complete; assumption.
  Qed.
End Methods.
