(** C09 (fuel) — [script_fuel] suffices: for every script, digest, hash
    function and method whose loop parameters are positive ([good_param]: the
    maximum chunk size of ToChunkReader and every read buffer size of ToReader
    is at least 1), none of the three CAS buffer constructors runs out of fuel.
    Stated monotone in the fuel.

    The measure of a script is [measure evs] = sum (1 + |bs| per chunk, 1 per
    other event); [script_fuel evs = 16 + 4 * measure evs].  Every read of a
    scripted source consumes measure (C09FuelLoops.v), every decorator preserves
    that, and every loop needs at most measure + 2 iterations. *)
From Coq Require Import List ZArith NArith Bool Lia.
From BBS Require Import Common.Sx Buffer.Source Buffer.Validate Buffer.Convert Buffer.StreamProofs
  Buffer.ValidateProofs Buffer.C09FuelLoops Run.R09.
Import ListNotations.
Open Scope nat_scope.

(** loop parameters under which every consumption loop makes progress *)
Definition good_param (m : meth) : bool :=
  match m with
  | MToChunkReader _ max _ => (1 <=? max)%N
  | MToReader caps _ => forallb (fun c => (1 <=? c)%N) caps
  | _ => true
  end.

Lemma script_fuel_measure evs : script_fuel evs = 16 + 4 * measure evs.
Proof. reflexivity. Qed.

Lemma caps_good caps : forallb (fun c => (1 <=? c)%N) caps = true ->
  Forall (fun c => (1 <= c)%N) caps /\ (1 <= last_cap caps)%N.
Proof.
  induction caps as [|c r IH]; cbn [forallb]; intros Hf.
  - split; [constructor|]. unfold last_cap. cbn [last]. lia.
  - apply andb_true_iff in Hf. destruct Hf as [Hc Hr]. apply N.leb_le in Hc. destruct (IH Hr) as [F L].
    split; [constructor; assumption|]. unfold last_cap in *. cbn [last]. destruct r; [exact Hc|exact L].
Qed.

Definition cmu (s : csrc) : nat := measure (c_rest s).
Definition ctrue (s : csrc) : Prop := True.
Definition rmu (s : rsrc) : nat := measure (r_rest s).
Definition rtrue (s : rsrc) : Prop := True.

Section Suffices.
  Variable H : bytes -> bytes.
  Variable cfg : vcfg.
  Variable fuel : nat.

  Notation IC := (Iv ctrue cmu fuel).
  Notation MC := (muv cmu).
  Notation rdv := (cv_read H cfg fuel).

  Lemma cv_read_prog : cprog (@length N) rdv IC MC.
  Proof. exact (vcr_read_prog _ _ _ _ H cfg fuel csrc_read_prog). Qed.

  Lemma cv_close_inv s : IC s -> IC (cv_close s) /\ MC (cv_close s) <= MC s.
  Proof. unfold Iv, muv, cv_close, cmu. intros (A & B & C). vsimp. cbn [csrc_close c_rest]. fin. Qed.

  Lemma cv_init_inv evs : measure evs < fuel -> IC (cv_init cfg evs) /\ MC (cv_init cfg evs) = measure evs.
  Proof. intros Hm. unfold Iv, muv, cv_init, vinit, cmu, ctrue. cbn [v_u v_err c_rest]. fin. Qed.

  (** ** NewCASBufferFromChunkReader *)
  Theorem chunk_fuel_suffices evs m : script_fuel evs <= fuel -> good_param m = true ->
    o_err (cas_chunk_reader H cfg fuel evs m) <> EFuel.
  Proof.
    intros Hf Hg. rewrite script_fuel_measure in Hf.
    assert (Hmf : measure evs < fuel) by lia.
    destruct (cv_init_inv evs Hmf) as [Hi0 Hm0].
    assert (Hlt0 : MC (cv_init cfg evs) < fuel) by lia.
    pose proof cv_read_prog as PV.
    destruct m; cbn [cas_chunk_reader good_param] in *.
    - (* ToByteSlice *)
      unfold to_byte_slice_cr. destruct (max <? g_size cfg)%N; [cbn; congruence|].
      destruct (drain rdv fuel [] (cv_init cfg evs)) as [[out e] s'] eqn:Hd.
      destruct (drain_fuel _ _ _ _ PV fuel _ _ _ _ _ Hi0 Hlt0 Hd) as (A & _).
      destruct e; cbn; congruence.
    - (* IntoWriter *)
      unfold into_writer_cr.
      destruct (drain rdv fuel [] (cv_init cfg evs)) as [[out e] s'] eqn:Hd.
      destruct (drain_fuel _ _ _ _ PV fuel _ _ _ _ _ Hi0 Hlt0 Hd) as (A & _).
      destruct e; cbn; congruence.
    - (* ReadAt *)
      unfold read_at_cr.
      destruct (offset_init_fuel _ cv_close _ _ PV cv_close_inv fuel off _ Hi0 Hlt0) as [Io0 Mo0].
      set (o0 := offset_init rdv cv_close fuel off (cv_init cfg evs)) in *.
      destruct (read_at_fill rdv fuel plen [] o0) as [[got e] o1] eqn:Hfill.
      pose proof (Nat.le_lt_trans _ _ _ Mo0 Hlt0) as Hlo.
      destruct (read_at_fill_fuel _ _ _ PV fuel _ _ _ _ _ _ Io0 Hlo Hfill) as (A & B & C).
      destruct e; try (cbn; congruence).
      destruct (drain (offset_read rdv) fuel [] o1) as [[x e2] o2] eqn:Hd.
      pose proof (Nat.le_lt_trans _ _ _ C Hlo) as Hl1.
      destruct (drain_fuel _ _ _ _ (offset_read_prog _ _ _ PV) fuel _ _ _ _ _ B Hl1 Hd) as (A2 & _).
      destruct e2; cbn; congruence.
    - (* ToChunkReader *)
      apply N.leb_le in Hg.
      destruct (valid_offset (g_size cfg) off); [|cbn; congruence].
      destruct (offset_init_fuel _ cv_close _ _ PV cv_close_inv fuel off _ Hi0 Hlt0) as [Io0 Mo0].
      set (o0 := offset_init rdv cv_close fuel off (cv_init cfg evs)) in *.
      pose proof (norm_read_prog _ _ _ (offset_read_prog _ _ _ PV) fuel max Hg) as PN.
      destruct (drain (norm_read (offset_read rdv) fuel max) fuel [] (mkNst o0 [])) as [[out e] n] eqn:Hd.
      cbn beta iota zeta.
      destruct (extra_reads (norm_read (offset_read rdv) fuel max) extra n) as [ex n2].
      cbn beta iota zeta. cbn [o_err cv_out].
      refine (proj1 (drain_fuel _ _ _ _ PN fuel _ _ _ _ _ _ _ Hd)).
      + unfold Inm. cbn [n_u]. split; [exact Io0|lia].
      + unfold mun. cbn [n_u n_last length]. lia.
    - (* ToReader *)
      destruct (caps_good _ Hg) as [Hcaps Hlast].
      pose proof (cb_read_prog _ _ _ PV fuel) as PB.
      destruct (rconsume (cb_read rdv fuel) fuel caps (last_cap caps) [] (mkCbst (cv_init cfg evs) []))
        as [[out e] s] eqn:Hrc.
      cbn beta iota zeta.
      destruct (rextra (cb_read rdv fuel) extra (last_cap caps) s) as [ex s2].
      cbn beta iota zeta. cbn [o_err cv_out].
      refine (proj1 (rconsume_fuel _ _ _ PB fuel _ _ _ _ _ _ _ Hcaps Hlast _ _ Hrc)).
      + unfold Icb. cbn [cb_u]. split; [exact Hi0|exact Hlt0].
      + unfold mucb. cbn [cb_u cb_last length]. lia.
    - (* CloneCopy *)
      unfold to_byte_slice_cr, clone_copy_of. destruct (max <? g_size cfg)%N; [cbn; congruence|].
      destruct (drain rdv fuel [] (cv_init cfg evs)) as [[out e] s'] eqn:Hd.
      destruct (drain_fuel _ _ _ _ PV fuel _ _ _ _ _ Hi0 Hlt0 Hd) as (A & _).
      destruct e; cbn; congruence.
    - cbn. congruence.
  Qed.

  (** ** NewCASBufferFromReader *)
  Notation IR := (Iv rtrue rmu fuel).
  Notation MR := (muv rmu).
  Notation rdr := (rv_read H cfg fuel).

  Lemma rv_read_prog : rprog rdr IR MR.
  Proof. exact (vr_read_prog _ _ _ H cfg fuel rsrc_read_prog). Qed.

  Lemma rv_init_inv evs attach :
    measure evs < fuel -> IR (rv_init cfg evs attach) /\ MR (rv_init cfg evs attach) = measure evs.
  Proof. intros Hm. unfold Iv, muv, rv_init, vinit, rmu, rtrue. cbn [v_u v_err r_rest]. fin. Qed.

  Lemma to_byte_slice_r_fuel max st0 r st : IR st0 -> MR st0 < fuel ->
    to_byte_slice_r H cfg fuel max st0 = (r, st) -> snd r <> EFuel.
  Proof.
    unfold to_byte_slice_r. cbv beta zeta. intros Hi Hm Hr.
    destruct (max <? g_size cfg)%N. { inv Hr. cbn. congruence. }
    destruct (0 <? g_size cfg)%N.
    - destruct (read_full rdr fuel (g_size cfg) st0) as [[data e] st1] eqn:Hrf.
      destruct (read_full_fuel _ _ _ rv_read_prog fuel _ _ _ _ _ Hi Hm Hrf) as (A & _).
      destruct e; inv' Hr; cbn; congruence.
    - destruct (rdr 0%N st0) as [[d e] st1] eqn:Hr0.
      destruct (rv_read_prog _ _ _ _ _ Hi Hr0) as (A & _).
      destruct e; inv' Hr; cbn; congruence.
  Qed.

  Theorem reader_fuel_suffices evs attach m : script_fuel evs <= fuel -> good_param m = true ->
    o_err (cas_reader H cfg fuel evs attach m) <> EFuel.
  Proof.
    intros Hf Hg. rewrite script_fuel_measure in Hf.
    assert (Hmf : measure evs < fuel) by lia.
    destruct (rv_init_inv evs attach Hmf) as [Hi0 Hm0].
    assert (Hlt0 : MR (rv_init cfg evs attach) < fuel) by lia.
    pose proof rv_read_prog as PV.
    destruct m; cbn [cas_reader good_param] in *.
    - (* ToByteSlice *)
      destruct (to_byte_slice_r H cfg fuel max (rv_init cfg evs attach)) as [[out e] st] eqn:Hr.
      exact (to_byte_slice_r_fuel _ _ _ _ Hi0 Hlt0 Hr).
    - (* IntoWriter *)
      destruct (copy rdr fuel (rv_init cfg evs attach)) as [[out e] st] eqn:Hc.
      destruct (copy_fuel _ _ _ PV fuel _ _ _ _ Hi0 Hlt0 Hc) as (A & _). cbn. exact A.
    - (* ReadAt *)
      destruct (discard_from_reader rdr fuel off (rv_init cfg evs attach)) as [e0 st] eqn:Hd.
      destruct (discard_from_reader_fuel _ _ _ PV fuel _ _ _ _ Hi0 Hlt0 Hd) as (A & B & C).
      destruct e0; try (cbn; congruence).
      destruct (read_full rdr fuel plen st) as [[got e] st1] eqn:Hrf.
      assert (Hl1 : MR st < fuel) by lia.
      destruct (read_full_fuel _ _ _ PV fuel _ _ _ _ _ B Hl1 Hrf) as (A1 & B1 & C1 & _).
      destruct e; try (cbn; congruence).
      destruct (copy rdr fuel st1) as [[x e2] st2] eqn:Hc.
      assert (Hl2 : MR st1 < fuel) by lia.
      destruct (copy_fuel _ _ _ PV fuel _ _ _ _ B1 Hl2 Hc) as (A2 & _).
      destruct e2; cbn; congruence.
    - (* ToChunkReader *)
      apply N.leb_le in Hg.
      destruct (valid_offset (g_size cfg) off); [|cbn; congruence].
      destruct (discard_from_reader rdr fuel off (rv_init cfg evs attach)) as [e0 st] eqn:Hd.
      destruct (discard_from_reader_fuel _ _ _ PV fuel _ _ _ _ Hi0 Hlt0 Hd) as (A & B & C).
      destruct e0; try (cbn; congruence).
      pose proof (rb_read_prog _ _ _ PV fuel max Hg) as PB.
      destruct (drain (rb_read rdr fuel max) fuel [] (mkRbst st ENone)) as [[out e] s] eqn:Hdr.
      cbn beta iota zeta.
      destruct (extra_reads (rb_read rdr fuel max) extra s) as [ex s2].
      cbn beta iota zeta. cbn [o_err rv_out].
      refine (proj1 (drain_fuel _ _ _ _ PB fuel _ _ _ _ _ _ _ Hdr)).
      + unfold Irb. cbn [rb_u rb_err]. rsplit; [exact B|congruence|lia].
      + unfold murb. cbn [rb_u rb_err is_none]. lia.
    - (* ToReader *)
      destruct (caps_good _ Hg) as [Hcaps Hlast].
      destruct (rconsume rdr fuel caps (last_cap caps) [] (rv_init cfg evs attach)) as [[out e] s] eqn:Hrc.
      cbn beta iota zeta.
      destruct (rextra rdr extra (last_cap caps) s) as [ex s2].
      cbn beta iota zeta. cbn [o_err rv_out].
      exact (proj1 (rconsume_fuel _ _ _ PV fuel _ _ _ _ _ _ _ Hcaps Hlast Hi0 Hlt0 Hrc)).
    - (* CloneCopy *)
      destruct (to_byte_slice_r H cfg fuel max (rv_init cfg evs attach)) as [r st] eqn:Hr.
      pose proof (to_byte_slice_r_fuel _ _ _ _ Hi0 Hlt0 Hr) as A.
      unfold clone_copy_of. destruct (snd r); cbn; congruence.
    - cbn. congruence.
  Qed.

  (** ** NewCASBufferFromByteSlice *)
  Theorem byte_slice_fuel_suffices data m : length data < fuel -> good_param m = true ->
    o_err (cas_byte_slice H cfg fuel data m) <> EFuel.
  Proof.
    intros Hl Hg. unfold cas_byte_slice. cbv beta zeta.
    assert (E : forall e cbs k, e <> EFuel -> o_err (error_buffer e cbs k m) <> EFuel)
      by (intros; destruct m; cbn; congruence).
    destruct (negb (g_size cfg =? lenN data)%N); [apply E; congruence|].
    destruct (negb (bytes_eqb (g_hash cfg) (H data))); [apply E; congruence|].
    clear E. destruct m; cbn [byte_slice_buffer good_param] in *.
    - destruct (max <? lenN data)%N; cbn; congruence.
    - cbn. congruence.
    - destruct (off <? 0)%Z; [cbn; congruence|].
      destruct (lenN data <? Z.to_N off)%N; [cbn; congruence|].
      cbn [o_err]. destruct (lenN (takeN plen (dropN (Z.to_N off) data)) <? plen)%N; congruence.
    - apply N.leb_le in Hg.
      destruct (valid_offset (lenN data) off); [|cbn; congruence].
      destruct (drain (bs_read max) fuel [] (dropN (Z.to_N off) data)) as [[out e] s] eqn:Hd.
      cbn beta iota zeta.
      destruct (extra_reads (bs_read max) extra s) as [ex s2].
      cbn beta iota zeta. cbn [o_err].
      refine (proj1 (drain_fuel _ _ _ _ (bs_read_prog max Hg) fuel _ _ _ _ _ I _ Hd)).
      pose proof (len_dropN_le (Z.to_N off) data). lia.
    - destruct (caps_good _ Hg) as [Hcaps Hlast].
      destruct (rconsume bb_read fuel caps (last_cap caps) [] data) as [[out e] s] eqn:Hrc.
      cbn beta iota zeta.
      destruct (rextra bb_read extra (last_cap caps) s) as [ex s2].
      cbn beta iota zeta. cbn [o_err].
      exact (proj1 (rconsume_fuel _ _ _ bb_read_prog fuel _ _ _ _ _ _ _ Hcaps Hlast I Hl Hrc)).
    - destruct (max <? lenN data)%N; cbn; congruence.
    - cbn. congruence.
  Qed.
End Suffices.

(** the byte-slice instance [run09] uses: the data is the script's content *)
Theorem byte_slice_script_fuel_suffices H cfg fuel evs m : script_fuel evs <= fuel -> good_param m = true ->
  o_err (cas_byte_slice H cfg fuel (fst (content evs)) m) <> EFuel.
Proof.
  intros Hf Hg. rewrite script_fuel_measure in Hf. apply byte_slice_fuel_suffices; [|exact Hg].
  pose proof (content_le_measure evs). lia.
Qed.
