(** C16 — monitor clause 1 (Done reported exactly once to the OUTERMOST
    handler) never fires on the model's own observation, for every input with
    at least one handler (the harness's domain: stacks of 1-3 handlers).
    Clauses 8-10 are proved silent in Run/R16Proofs.v; clause 1 follows from
    clause 8.  Without a handler the observation has no Done count at all and
    clause 1 fires: [clause1_needs_a_handler]. *)
From Coq Require Import List ZArith NArith Bool Lia.
From BBS Require Import Common.Sx Buffer.Source Buffer.Validate Buffer.Convert Buffer.ErrHandler
  Run.R09 Run.R16 Run.R16Proofs.
Import ListNotations.
Open Scope Z_scope.

Lemma last_in {A} (l : list A) d : l <> [] -> In (last l d) l.
Proof.
  induction l as [|x l IH]; intros Hn; [congruence|]. destruct l as [|y l]; [left; reflexivity|].
  right. apply IH. discriminate.
Qed.

Theorem clause_1_silent_on_model : forall inp,
  q_anss (dec_case16 inp) <> [] -> last (obs_dones (run16 inp)) 0 = 1.
Proof.
  intros inp Hne. destruct (clauses_8_9_silent_on_model inp) as (H8 & _).
  unfold clause8 in H8. apply andb_true_iff in H8. destruct H8 as (Hall & Hlen).
  apply Nat.eqb_eq in Hlen.
  assert (Hd : obs_dones (run16 inp) <> []).
  { intros E. rewrite E in Hlen. revert Hlen Hne. destruct (q_anss (dec_case16 inp)); intros Hlen Hne; [congruence|discriminate Hlen]. }
  rewrite forallb_forall in Hall. specialize (Hall _ (last_in _ 0 Hd)). apply Z.eqb_eq in Hall. exact Hall.
Qed.

(** the clause as the monitor evaluates it *)
Corollary clause_1_not_reported : forall inp,
  q_anss (dec_case16 inp) <> [] ->
  (if last (obs_dones (run16 inp)) 0 =? 1 then [] else [1]) = ([] : list Z).
Proof. intros inp Hne. rewrite (clause_1_silent_on_model inp Hne). reflexivity. Qed.

Example clause1_needs_a_handler :
  let inp := L [A 1; L [A 3; L [A 9; A 9]; A 3]; L [A 2; L [A 1; A 2; A 3]]; L []; L [A 1];
                L [L [L [A 1; A 2; A 3]; L [A 9; A 9]]]] in
  q_anss (dec_case16 inp) = [] /\ mon16 inp (run16 inp) = [1].
Proof. vm_compute. auto. Qed.
