(** C09 (fuel) — progress laws for readers and the fuel each consumption loop
    needs.

    A reader [(St, rd)] makes progress w.r.t. a measure [mu : St -> nat] under
    an invariant [I] when no read yields the out-of-fuel marker, a read never
    increases the measure, and a read that does not end the stream strictly
    decreases it.  For chunk readers the decrease is weighted by [wt c] of the
    chunk handed out ([wt = length]: the re-chunking decorators keep the rest
    of a chunk, and that rest must be paid for by the underlying measure).
    Every loop of Source.v / Validate.v / Convert.v over such a reader returns
    something other than [EFuel] as soon as its fuel exceeds the measure, and
    every decorator maps a progressing reader to a progressing reader (its own
    inner loops included: the invariant carries "measure < inner fuel"). *)
From Coq Require Import List ZArith NArith Bool Lia.
From BBS Require Import Buffer.Source Buffer.Validate Buffer.Convert Buffer.StreamProofs Buffer.ValidateProofs.
Import ListNotations.
Open Scope nat_scope.

Ltac fin0 := rsplit; auto; try congruence; try lia; try (intros; congruence); try (intros; lia).
Ltac fin := solve [fin0].
Ltac vsimp := cbn [v_u v_rem v_acc v_err v_cbs v_set_u v_set_err v_notify v_fail fst snd] in *.

(** * Lengths *)
Lemma len_take_drop n l : length (takeN n l) + length (dropN n l) = length l.
Proof. rewrite <- app_length, takeN_dropN. reflexivity. Qed.
Lemma len_dropN_le n l : length (dropN n l) <= length l.
Proof. pose proof (len_take_drop n l). lia. Qed.
Lemma takeN_cons_nonnil n x l : (1 <= n)%N -> takeN n (x :: l) <> [].
Proof. intros Hn. cbn [takeN]. destruct (n =? 0)%N eqn:E; [apply N.eqb_eq in E; lia|discriminate]. Qed.
Lemma len_dropN_lt n l : (1 <= n)%N -> l <> [] -> length (dropN n l) < length l.
Proof.
  intros Hn Hl. destruct l as [|x l]; [congruence|].
  pose proof (len_take_drop n (x :: l)) as L. pose proof (takeN_cons_nonnil n x l Hn) as T.
  destruct (takeN n (x :: l)); [congruence|]. cbn [length] in *. lia.
Qed.
Lemma nonnil_length (l : bytes) : l <> [] -> 0 < length l.
Proof. destruct l; [congruence|cbn; lia]. Qed.
Lemma lenN_lt_length (a b : bytes) : (lenN a < lenN b)%N -> length a < length b.
Proof. unfold lenN. lia. Qed.

(** * Chunk readers *)
Section ChunkLaw.
  Context {St : Type}.
  Variable wt : bytes -> nat.
  Variable rd : St -> (bytes * err) * St.
  Variable I : St -> Prop.
  Variable mu : St -> nat.

  Definition cprog : Prop := forall s c e s', I s -> rd s = ((c, e), s') ->
    e <> EFuel /\ I s' /\ mu s' <= mu s /\ (e = ENone -> mu s' + wt c < mu s).

  Hypothesis P : cprog.

  Lemma drain_fuel : forall fuel out s o e s', I s -> mu s < fuel ->
    drain rd fuel out s = ((o, e), s') -> e <> EFuel /\ I s' /\ mu s' <= mu s.
  Proof.
    induction fuel as [|f IH]; intros out s o e s' Hi Hm Hd; [lia|].
    cbn [drain] in Hd. destruct (rd s) as [[c e1] s1] eqn:Hr. cbn beta iota in Hd.
    destruct (P _ _ _ _ Hi Hr) as (Hne & Hi1 & Hle & Hlt).
    destruct e1; try (inv Hd; fin).
    specialize (Hlt eq_refl). destruct (IH _ _ _ _ _ Hi1 ltac:(lia) Hd) as (A & B & C). fin.
  Qed.

  (** ** casValidatingChunkReader *)
  Variable H : bytes -> bytes.
  Variable cfg : vcfg.

  Lemma finalize_loop_fuel : forall fuel st e st', I (v_u st) -> mu (v_u st) < fuel ->
    finalize_loop H cfg rd fuel st = (e, st') ->
    e <> EFuel /\ I (v_u st') /\ mu (v_u st') <= mu (v_u st) /\ v_err st' = v_err st.
  Proof.
    induction fuel as [|f IH]; intros st e st' Hi Hm Hf; [lia|].
    cbn [finalize_loop] in Hf. destruct (rd (v_u st)) as [[c e1] u1] eqn:Hr. cbn beta iota in Hf.
    destruct (P _ _ _ _ Hi Hr) as (Hne & Hi1 & Hle & Hlt).
    destruct e1; vsimp.
    - specialize (Hlt eq_refl). destruct (v_rem st <? lenN c)%N.
      + inv Hf. vsimp. fin.
      + apply IH in Hf; vsimp; [|assumption|lia]. destruct Hf as (A & B & C & D). fin.
    - destruct (bytes_eqb (g_hash cfg) (H (v_acc st))); inv Hf; vsimp; fin.
    - inv Hf. vsimp. fin.
    - inv Hf. vsimp. fin.
    - congruence.
  Qed.

  Lemma maybe_finalize_fuel fuel st e st' : I (v_u st) -> mu (v_u st) < fuel ->
    maybe_finalize H cfg rd fuel st = (e, st') ->
    e <> EFuel /\ I (v_u st') /\ mu (v_u st') <= mu (v_u st) /\ v_err st' = v_err st.
  Proof.
    unfold maybe_finalize. intros Hi Hm Hf. destruct (0 <? v_rem st)%N.
    - inv Hf. fin.
    - exact (finalize_loop_fuel _ _ _ _ Hi Hm Hf).
  Qed.

  Lemma vcr_do_read_fuel fuel st c e st' : I (v_u st) -> mu (v_u st) < fuel ->
    vcr_do_read H cfg rd fuel st = ((c, e), st') ->
    e <> EFuel /\ I (v_u st') /\ mu (v_u st') <= mu (v_u st) /\ v_err st' = v_err st /\
    (e = ENone -> mu (v_u st') + wt c < mu (v_u st)).
  Proof.
    unfold vcr_do_read. intros Hi Hm Hd.
    destruct (maybe_finalize H cfg rd fuel st) as [e0 st0] eqn:Hf.
    destruct (maybe_finalize_fuel _ _ _ _ Hi Hm Hf) as (A & B & C & D).
    destruct e0; try (inv Hd; fin).
    destruct (rd (v_u st0)) as [[ch e1] u1] eqn:Hr. cbn beta iota in Hd.
    destruct (P _ _ _ _ B Hr) as (Hne & Hi1 & Hle & Hlt).
    destruct e1; vsimp.
    - specialize (Hlt eq_refl). destruct (v_rem st0 <? lenN ch)%N; inv Hd; vsimp; fin.
    - inv Hd. vsimp. fin.
    - inv Hd. vsimp. fin.
    - inv Hd. vsimp. fin.
    - congruence.
  Qed.

  Definition Iv (fuel : nat) (st : vst St) : Prop := I (v_u st) /\ v_err st <> EFuel /\ mu (v_u st) < fuel.
  Definition muv (st : vst St) : nat := mu (v_u st).
End ChunkLaw.

Lemma cprog_weak {St} wt (rd : St -> (bytes * err) * St) I mu :
  cprog wt rd I mu -> cprog (fun _ => 0) rd I mu.
Proof. intros P s c e s' Hi Hr. destruct (P _ _ _ _ Hi Hr) as (A & B & C & D). fin0. intros X. specialize (D X). lia. Qed.

Lemma vcr_read_prog {St} wt (rd : St -> (bytes * err) * St) I mu H cfg fuel :
  cprog wt rd I mu -> cprog wt (vcr_read H cfg rd fuel) (Iv I mu fuel) (muv mu).
Proof.
  intros P st c e st' (Hi & Hve & Hm) Hr. unfold vcr_read in Hr. unfold Iv, muv.
  destruct (v_err st) eqn:Ev; try (inv Hr; rewrite Ev; fin).
  destruct (vcr_do_read H cfg rd fuel st) as [[ch e1] st1] eqn:Hd.
  destruct (vcr_do_read_fuel wt rd I mu P H cfg _ _ _ _ _ Hi Hm Hd) as (A & B & C & D & E).
  destruct e1; try (inv Hr; vsimp; fin).
  destruct (maybe_finalize H cfg rd fuel st1) as [e2 st2] eqn:Hf.
  destruct (maybe_finalize_fuel wt rd I mu P H cfg fuel _ _ _ B ltac:(lia) Hf) as (A2 & B2 & C2 & D2).
  specialize (E eq_refl).
  destruct e2; inv Hr; vsimp; fin.
Qed.

(** ** newOffsetChunkReader, readAtViaChunkReader (weight = length) *)
Definition pfx (p : bytes) : nat := if is_nil p then 0 else S (length p).

Section Offset.
  Context {St : Type}.
  Variable rd : St -> (bytes * err) * St.
  Variable cl : St -> St.
  Variable I : St -> Prop.
  Variable mu : St -> nat.
  Hypothesis P : cprog (@length N) rd I mu.
  Hypothesis Hcl : forall s, I s -> I (cl s) /\ mu (cl s) <= mu s.

  Lemma discard_cr_fuel : forall fuel off s p e s', I s -> mu s < fuel ->
    discard_from_chunk_reader rd fuel off s = ((p, e), s') ->
    e <> EFuel /\ I s' /\ mu s' + pfx p <= mu s.
  Proof.
    induction fuel as [|f IH]; intros off s p e s' Hi Hm Hd; [lia|].
    cbn [discard_from_chunk_reader] in Hd.
    destruct (off =? 0)%N. { inv Hd. change (pfx []) with 0. fin. }
    destruct (rd s) as [[c e1] s1] eqn:Hr. cbn beta iota in Hd.
    destruct (P _ _ _ _ Hi Hr) as (Hne & Hi1 & Hle & Hlt).
    destruct e1; try (inv Hd; change (pfx []) with 0; fin).
    specialize (Hlt eq_refl).
    destruct (off <? lenN c)%N.
    - inv Hd. rsplit; auto; try congruence. unfold pfx.
      pose proof (len_dropN_le off c). destruct (is_nil (dropN off c)); lia.
    - destruct (IH _ _ _ _ _ Hi1 ltac:(lia) Hd) as (A & B & C). fin.
  Qed.

  Definition Io (o : ost St) : Prop := I (o_u o) /\ o_fixed o <> EFuel.
  Definition muo (o : ost St) : nat := mu (o_u o) + pfx (o_prefix o).

  Lemma offset_init_fuel fuel off s : I s -> mu s < fuel ->
    Io (offset_init rd cl fuel off s) /\ muo (offset_init rd cl fuel off s) <= mu s.
  Proof.
    intros Hi Hm. unfold offset_init. destruct (off <? 0)%Z.
    - unfold Io, muo. cbn [o_u o_prefix o_fixed]. change (pfx []) with 0. destruct (Hcl _ Hi). fin.
    - destruct (discard_from_chunk_reader rd fuel (Z.to_N off) s) as [[p e] s'] eqn:Hd.
      destruct (discard_cr_fuel _ _ _ _ _ _ Hi Hm Hd) as (A & B & C).
      destruct (Hcl _ B) as [B1 B2].
      destruct e; unfold Io, muo; cbn [o_u o_prefix o_fixed]; change (pfx []) with 0; fin.
  Qed.

  Lemma offset_read_prog : cprog (@length N) (offset_read rd) Io muo.
  Proof.
    intros o c e o' (Hi & Hf) Hr. unfold offset_read in Hr. unfold Io, muo.
    destruct (o_fixed o) eqn:Ef; try (inv Hr; rewrite Ef; fin).
    destruct (is_nil (o_prefix o)) eqn:En.
    - destruct (rd (o_u o)) as [[c1 e1] u1] eqn:Hr1. inv Hr.
      destruct (P _ _ _ _ Hi Hr1) as (A & B & C & D). cbn [o_u o_prefix o_fixed]. change (pfx []) with 0.
      unfold pfx. rewrite En. fin0. intros X. specialize (D X). lia.
    - inv Hr. cbn [o_u o_prefix o_fixed]. change (pfx []) with 0. unfold pfx. rewrite En. fin.
  Qed.

  Lemma offset_close_inv o : Io o -> Io (offset_close cl o) /\ muo (offset_close cl o) <= muo o.
  Proof.
    intros (Hi & Hf). unfold offset_close, Io, muo. destruct (o_fixed o) eqn:Ef; cbn [o_u o_prefix o_fixed]; rewrite ?Ef; fin0.
    all: destruct (Hcl _ Hi); fin.
  Qed.

  Lemma read_at_fill_fuel : forall fuel left got o g e o', Io o -> muo o < fuel ->
    read_at_fill rd fuel left got o = ((g, e), o') -> e <> EFuel /\ Io o' /\ muo o' <= muo o.
  Proof.
    induction fuel as [|f IH]; intros left got o g e o' Hi Hm Hd; [lia|].
    cbn [read_at_fill] in Hd. destruct (left =? 0)%N. { inv Hd. fin. }
    destruct (offset_read rd o) as [[c e1] o1] eqn:Hr. cbn beta iota in Hd.
    destruct (offset_read_prog _ _ _ _ Hi Hr) as (A & B & C & D).
    destruct e1; try (inv Hd; fin).
    specialize (D eq_refl). destruct (IH _ _ _ _ _ _ B ltac:(lia) Hd) as (A1 & B1 & C1). fin.
  Qed.
End Offset.

(** ** newNormalizingChunkReader: maximum chunk size >= 1 *)
Section Norm.
  Context {St : Type}.
  Variable rd : St -> (bytes * err) * St.
  Variable I : St -> Prop.
  Variable mu : St -> nat.
  Hypothesis P : cprog (@length N) rd I mu.
  Variable fuel : nat.
  Variable max : N.
  Hypothesis Hmax : (1 <= max)%N.

  Definition Inm (n : nst St) : Prop := I (n_u n) /\ mu (n_u n) < fuel.
  Definition mun (n : nst St) : nat := mu (n_u n) + length (n_last n).

  Lemma norm_read_eq f n : norm_read rd f max n =
    if negb (is_nil (n_last n)) then
      if (max <? lenN (n_last n))%N
      then ((takeN max (n_last n), ENone), mkNst (n_u n) (dropN max (n_last n)))
      else ((n_last n, ENone), mkNst (n_u n) [])
    else
      match f with
      | O => (([], EFuel), n)
      | Datatypes.S f =>
          let '((c, e), u') := rd (n_u n) in
          match e with
          | ENone => norm_read rd f max (mkNst u' c)
          | _ => (([], e), mkNst u' [])
          end
      end.
  Proof. destruct f; reflexivity. Qed.

  Lemma norm_read_fuel : forall f n c e n', I (n_u n) -> (mu (n_u n) < f \/ n_last n <> []) ->
    norm_read rd f max n = ((c, e), n') ->
    e <> EFuel /\ I (n_u n') /\ mu (n_u n') <= mu (n_u n) /\ mun n' <= mun n /\ (e = ENone -> mun n' < mun n).
  Proof.
    unfold mun.
    induction f as [|f IH]; intros n c e n' Hi Hm Hr; rewrite norm_read_eq in Hr;
      (destruct (n_last n) as [|x l] eqn:El; cbn [is_nil negb] in Hr;
       [|remember (x :: l) as xl eqn:Exl in *; assert (Hnn : xl <> []) by (subst xl; discriminate); clear Exl;
         pose proof (len_dropN_lt max xl Hmax Hnn);
         destruct (max <? lenN xl)%N; inv Hr; cbn [n_u n_last length] in *; fin]).
    - destruct Hm as [Hm|Hm]; [lia|congruence].
    - destruct (rd (n_u n)) as [[c1 e1] u1] eqn:Hr1. cbn beta iota in Hr.
      destruct (P _ _ _ _ Hi Hr1) as (A & B & C & D).
      destruct e1; try (inv Hr; cbn [n_u n_last length]; fin).
      specialize (D eq_refl).
      apply IH in Hr; cbn [n_u n_last] in *; [|assumption|].
      + destruct Hr as (A1 & B1 & C1 & D1 & E1). cbn [length]. fin.
      + destruct Hm as [Hm|Hm]; [left; lia|congruence].
  Qed.

  Lemma norm_read_prog : cprog (fun _ => 0) (norm_read rd fuel max) Inm mun.
  Proof.
    intros n c e n' (Hi & Hm) Hr.
    destruct (norm_read_fuel _ _ _ _ _ Hi (or_introl Hm) Hr) as (A & B & C & D & E).
    unfold Inm. fin0. intros X. specialize (E X). lia.
  Qed.
End Norm.

(** * io.Readers: a read with a buffer of at least one byte that hands out
    data or does not end the stream strictly decreases the measure *)
Section ReaderLaw.
  Context {St : Type}.
  Variable rd : N -> St -> (bytes * err) * St.
  Variable I : St -> Prop.
  Variable mu : St -> nat.

  Definition rprog : Prop := forall cap s c e s', I s -> rd cap s = ((c, e), s') ->
    e <> EFuel /\ I s' /\ mu s' <= mu s /\ ((1 <= cap)%N -> e = ENone \/ c <> [] -> mu s' < mu s).

  Hypothesis P : rprog.

  Lemma read_full_loop_eq f want got s : read_full_loop rd f want got s =
    if (want <=? lenN got)%N then ((got, ENone), s) else
    match f with
    | O => ((got, EFuel), s)
    | Datatypes.S f =>
        let '((c, e), s') := rd (want - lenN got)%N s in
        let got' := got ++ c in
        match e with
        | ENone => read_full_loop rd f want got' s'
        | _ =>
            if (want <=? lenN got')%N then ((got', ENone), s')
            else match e with
                 | EEof => ((got', if is_nil got' then EEof else EUnexp), s')
                 | _ => ((got', e), s')
                 end
        end
    end.
  Proof. destruct f; reflexivity. Qed.

  Lemma read_full_loop_fuel : forall f want got s g e s', I s -> mu s < f ->
    read_full_loop rd f want got s = ((g, e), s') ->
    e <> EFuel /\ I s' /\ mu s' <= mu s /\ (length got < length g -> mu s' < mu s) /\
    (e = ENone -> (want <= lenN g)%N).
  Proof.
    induction f as [|f IH]; intros want got s g e s' Hi Hm Hr; [lia|].
    rewrite read_full_loop_eq in Hr. destruct (want <=? lenN got)%N eqn:Ew.
    { apply N.leb_le in Ew. inv Hr. fin. }
    apply N.leb_gt in Ew.
    destruct (rd (want - lenN got)%N s) as [[c1 e1] s1] eqn:Hr1. cbn beta iota zeta in Hr.
    destruct (P _ _ _ _ _ Hi Hr1) as (A & B & C & D).
    assert (Hcap : (1 <= want - lenN got)%N) by lia. specialize (D Hcap).
    assert (Hgrow : length got < length (got ++ c1) -> mu s1 < mu s).
    { intros L. apply D. right. rewrite app_length in L. destruct c1; [cbn in L; lia|discriminate]. }
    destruct e1.
    - destruct (IH _ _ _ _ _ _ B ltac:(pose proof (D (or_introl eq_refl)); lia) Hr) as (A1 & B1 & C1 & D1 & E1).
      pose proof (D (or_introl eq_refl)). fin.
    - destruct (want <=? lenN (got ++ c1))%N eqn:Ew2;
        [apply N.leb_le in Ew2|destruct (is_nil (got ++ c1))]; inv Hr; fin.
    - destruct (want <=? lenN (got ++ c1))%N eqn:Ew2; [apply N.leb_le in Ew2|]; inv Hr; fin.
    - destruct (want <=? lenN (got ++ c1))%N eqn:Ew2; [apply N.leb_le in Ew2|]; inv Hr; fin.
    - congruence.
  Qed.

  Lemma read_full_fuel fuel want s g e s' : I s -> mu s < fuel ->
    read_full rd fuel want s = ((g, e), s') ->
    e <> EFuel /\ I s' /\ mu s' <= mu s /\ (g <> [] -> mu s' < mu s) /\ (e = ENone -> (want <= lenN g)%N).
  Proof.
    unfold read_full. intros Hi Hm Hr.
    destruct (read_full_loop_fuel _ _ _ _ _ _ _ Hi Hm Hr) as (A & B & C & D & E). fin0.
    intros X. apply D. cbn [length]. apply nonnil_length. exact X.
  Qed.

  Lemma copy_loop_fuel : forall f cap out s o e s', (1 <= cap)%N -> I s -> mu s < f ->
    copy_loop rd f cap out s = ((o, e), s') -> e <> EFuel /\ I s' /\ mu s' <= mu s.
  Proof.
    induction f as [|f IH]; intros cap out s o e s' Hcap Hi Hm Hr; [lia|].
    cbn [copy_loop] in Hr. destruct (rd cap s) as [[c1 e1] s1] eqn:Hr1. cbn beta iota zeta in Hr.
    destruct (P _ _ _ _ _ Hi Hr1) as (A & B & C & D). specialize (D Hcap).
    destruct e1; try (inv Hr; fin).
    pose proof (D (or_introl eq_refl)).
    destruct (IH _ _ _ _ _ _ Hcap B ltac:(lia) Hr) as (A1 & B1 & C1). fin.
  Qed.

  Lemma copy_fuel fuel s o e s' : I s -> mu s < fuel ->
    copy rd fuel s = ((o, e), s') -> e <> EFuel /\ I s' /\ mu s' <= mu s.
  Proof. unfold copy. apply copy_loop_fuel. unfold copy_buf. lia. Qed.

  Lemma copy_n_loop_eq f left s : copy_n_loop rd f left s =
    if (left =? 0)%N then (ENone, s) else
    match f with
    | O => (EFuel, s)
    | Datatypes.S f =>
        let '((c, e), s') := rd (N.min discard_buf left) s in
        let left' := (left - lenN c)%N in
        match e with
        | ENone => copy_n_loop rd f left' s'
        | EEof => (if (left' =? 0)%N then ENone else EEof, s')
        | _ => (if (left' =? 0)%N then ENone else e, s')
        end
    end.
  Proof. destruct f; reflexivity. Qed.

  Lemma copy_n_loop_fuel : forall f left s e s', I s -> mu s < f ->
    copy_n_loop rd f left s = (e, s') -> e <> EFuel /\ I s' /\ mu s' <= mu s.
  Proof.
    induction f as [|f IH]; intros left s e s' Hi Hm Hr; [lia|].
    rewrite copy_n_loop_eq in Hr. destruct (left =? 0)%N eqn:E0. { inv Hr. fin. }
    apply N.eqb_neq in E0.
    destruct (rd (N.min discard_buf left) s) as [[c1 e1] s1] eqn:Hr1. cbn beta iota zeta in Hr.
    destruct (P _ _ _ _ _ Hi Hr1) as (A & B & C & D).
    assert (Hcap : (1 <= N.min discard_buf left)%N) by (unfold discard_buf; lia). specialize (D Hcap).
    destruct e1; try (destruct (left - lenN c1 =? 0)%N; inv Hr; fin).
    pose proof (D (or_introl eq_refl)).
    destruct (IH _ _ _ _ B ltac:(lia) Hr) as (A1 & B1 & C1). fin.
  Qed.

  Lemma discard_from_reader_fuel fuel off s e s' : I s -> mu s < fuel ->
    discard_from_reader rd fuel off s = (e, s') -> e <> EFuel /\ I s' /\ mu s' <= mu s.
  Proof.
    unfold discard_from_reader. intros Hi Hm Hr. destruct (off <? 0)%Z.
    - inv Hr. fin.
    - exact (copy_n_loop_fuel _ _ _ _ _ Hi Hm Hr).
  Qed.

  Lemma rconsume_fuel : forall f caps lastcap out s o e s',
    Forall (fun c => (1 <= c)%N) caps -> (1 <= lastcap)%N -> I s -> mu s < f ->
    rconsume rd f caps lastcap out s = ((o, e), s') -> e <> EFuel /\ I s' /\ mu s' <= mu s.
  Proof.
    induction f as [|f IH]; intros caps lastcap out s o e s' Hcaps Hlast Hi Hm Hr; [lia|].
    cbn [rconsume] in Hr. destruct (rd (hd lastcap caps) s) as [[c1 e1] s1] eqn:Hr1. cbn beta iota zeta in Hr.
    destruct (P _ _ _ _ _ Hi Hr1) as (A & B & C & D).
    assert (Hcap : (1 <= hd lastcap caps)%N) by (destruct Hcaps; cbn [hd]; assumption). specialize (D Hcap).
    assert (Htl : Forall (fun c => (1 <= c)%N) (tl caps)) by (destruct Hcaps; cbn [tl]; auto).
    destruct e1; try (inv Hr; fin).
    pose proof (D (or_introl eq_refl)).
    destruct (IH _ _ _ _ _ _ _ Htl Hlast B ltac:(lia) Hr) as (A1 & B1 & C1). fin.
  Qed.

End ReaderLaw.

(** ** casValidatingReader *)
Ltac inv' H := cbn beta iota zeta in H; inv H.
Ltac lastc D :=
  let Hc := fresh "Hc" in let X := fresh "X" in
  intros Hc [X|X]; try congruence;
  try (specialize (D Hc (or_introl eq_refl)); lia); try (specialize (D Hc (or_intror X)); lia).
Ltac finr D := solve [rsplit; auto; try congruence; try lia; try (lastc D)].

Lemma vr_do_read_fuel {St} (rd : N -> St -> (bytes * err) * St) I mu H cfg fuel : rprog rd I mu ->
  forall cap st c e st', I (v_u st) -> mu (v_u st) < fuel ->
  vr_do_read H cfg rd fuel cap st = ((c, e), st') ->
  e <> EFuel /\ I (v_u st') /\ mu (v_u st') <= mu (v_u st) /\ v_err st' = v_err st /\
  ((1 <= cap)%N -> e = ENone \/ c <> [] -> mu (v_u st') < mu (v_u st)).
Proof.
  intros P cap st c e st' Hi Hm Hr. unfold vr_do_read, vr_compare, v_fail in Hr.
  destruct (rd cap (v_u st)) as [[data re] u1] eqn:Hr1. cbn beta iota zeta in Hr. vsimp.
  destruct (P _ _ _ _ _ Hi Hr1) as (A & B & C & D).
  destruct (v_rem st <? lenN data)%N. { inv' Hr. vsimp. finr D. }
  destruct re; vsimp.
  - destruct (v_rem st - lenN data =? 0)%N.
    + destruct (read_full rd fuel 1 u1) as [[fin_ fe] u2] eqn:Hrf. cbn beta iota zeta in Hr. vsimp.
      destruct (read_full_fuel rd I mu P fuel _ _ _ _ _ B ltac:(lia) Hrf) as (A2 & B2 & C2 & _ & _).
      destruct fe; try (inv' Hr; vsimp; finr D);
        (destruct (v_rem st - lenN data <? lenN fin_)%N; [inv' Hr; vsimp; finr D|];
         destruct (bytes_eqb (g_hash cfg) (H (v_acc st ++ data))); inv' Hr; vsimp; finr D).
    + inv' Hr. vsimp. finr D.
  - destruct (negb (v_rem st - lenN data =? 0)%N). { inv' Hr. vsimp. finr D. }
    destruct (bytes_eqb (g_hash cfg) (H (v_acc st ++ data))); inv' Hr; vsimp; finr D.
  - inv' Hr. vsimp. finr D.
  - inv' Hr. vsimp. finr D.
  - congruence.
Qed.

Lemma vr_read_prog {St} (rd : N -> St -> (bytes * err) * St) I mu H cfg fuel :
  rprog rd I mu -> rprog (vr_read H cfg rd fuel) (Iv I mu fuel) (muv mu).
Proof.
  intros P cap st c e st' (Hi & Hve & Hm) Hr. unfold vr_read in Hr. unfold Iv, muv.
  destruct (v_err st) eqn:Ev;
    try (inv Hr; rewrite Ev; rsplit; auto; try congruence; try lia; intros _ [X|X]; congruence).
  destruct (vr_do_read H cfg rd fuel cap st) as [[d e1] st1] eqn:Hd. inv' Hr.
  destruct (vr_do_read_fuel rd I mu H cfg fuel P _ _ _ _ _ Hi Hm Hd) as (A & B & C & D & E). vsimp. fin.
Qed.

(** ** newReaderBackedChunkReader: maximum chunk size >= 1 *)
Section Rb.
  Context {St : Type}.
  Variable rd : N -> St -> (bytes * err) * St.
  Variable I : St -> Prop.
  Variable mu : St -> nat.
  Hypothesis P : rprog rd I mu.
  Variable fuel : nat.
  Variable max : N.
  Hypothesis Hmax : (1 <= max)%N.

  Definition Irb (st : rbst St) : Prop := I (rb_u st) /\ rb_err st <> EFuel /\ mu (rb_u st) < fuel.
  Definition murb (st : rbst St) : nat := mu (rb_u st) + (if is_none (rb_err st) then 1 else 0).

  Lemma rb_read_prog : cprog (fun _ => 0) (rb_read rd fuel max) Irb murb.
  Proof.
    intros st c e st' (Hi & He & Hm) Hr. unfold rb_read in Hr. unfold Irb, murb.
    destruct (rb_err st) eqn:Er; try (inv Hr; rewrite Er; cbn [is_none]; fin).
    destruct (read_full rd fuel max (rb_u st)) as [[data e1] u1] eqn:Hrf. cbn beta iota zeta in Hr.
    destruct (read_full_fuel rd I mu P _ _ _ _ _ _ Hi Hm Hrf) as (A & B & C & D & E).
    destruct data as [|x data]; cbn [is_nil negb] in Hr.
    - assert (e1 <> ENone).
      { intros ->. specialize (E eq_refl). unfold lenN in E. cbn [length] in E. lia. }
      destruct e1; try congruence; inv Hr; cbn [rb_u rb_err is_none]; fin.
    - specialize (D ltac:(discriminate)).
      destruct e1; inv Hr; cbn [rb_u rb_err is_none]; fin.
  Qed.
End Rb.

(** ** newChunkReaderBackedReader over a chunk reader of weight [length] *)
Section Cb.
  Context {St : Type}.
  Variable rd : St -> (bytes * err) * St.
  Variable I : St -> Prop.
  Variable mu : St -> nat.
  Hypothesis P : cprog (@length N) rd I mu.
  Variable fuel : nat.

  Definition Icb (st : cbst St) : Prop := I (cb_u st) /\ mu (cb_u st) < fuel.
  Definition mucb (st : cbst St) : nat := mu (cb_u st) + length (cb_last st).

  Lemma cb_loop_eq f left got st : cb_loop rd f left got st =
    if (left =? 0)%N then ((got, ENone), st) else
    match f with
    | O => ((got, EFuel), st)
    | Datatypes.S f =>
        let '((c, e), u') := rd (cb_u st) in
        match e with
        | ENone =>
            let part := takeN left c in
            cb_loop rd f (left - lenN part)%N (got ++ part) (mkCbst u' (dropN left c))
        | _ => ((got, e), mkCbst u' (cb_last st))
        end
    end.
  Proof. destruct f; reflexivity. Qed.

  Lemma cb_loop_fuel : forall f left got st g e st', I (cb_u st) -> mu (cb_u st) < f ->
    cb_loop rd f left got st = ((g, e), st') ->
    e <> EFuel /\ I (cb_u st') /\ mu (cb_u st') <= mu (cb_u st) /\ mucb st' <= mucb st /\
    (length got < length g \/ (e = ENone /\ left <> 0%N) -> mucb st' < mucb st).
  Proof.
    unfold mucb.
    induction f as [|f IH]; intros left got st g e st' Hi Hm Hr; [lia|].
    rewrite cb_loop_eq in Hr. destruct (left =? 0)%N eqn:E0.
    { apply N.eqb_eq in E0. inv Hr. rsplit; auto; try congruence. intros [X|[_ X]]; [lia|congruence]. }
    destruct (rd (cb_u st)) as [[c1 e1] u1] eqn:Hr1. cbn beta iota zeta in Hr.
    destruct (P _ _ _ _ Hi Hr1) as (A & B & C & D).
    destruct e1; try congruence;
      try (inv Hr; cbn [cb_u cb_last]; rsplit; auto; try congruence; try lia; intros [X|[X _]]; [lia|congruence]).
    specialize (D eq_refl). pose proof (len_dropN_le left c1) as L.
    apply IH in Hr; cbn [cb_u cb_last] in *; [|assumption|lia].
    destruct Hr as (A1 & B1 & C1 & D1 & _). fin.
  Qed.

  Lemma cb_read_prog : rprog (cb_read rd fuel) Icb mucb.
  Proof.
    intros cap st g e st' (Hi & Hm) Hr. unfold cb_read in Hr.
    apply cb_loop_fuel in Hr; cbn [cb_u cb_last] in *; [|assumption|assumption].
    destruct Hr as (A & B & C & D & E). unfold Icb, mucb in *. cbn [cb_u cb_last] in *.
    pose proof (len_dropN_le cap (cb_last st)) as L.
    rsplit; auto; try lia.
    intros Hcap Hx.
    destruct (cb_last st) as [|x l] eqn:El.
    - cbn [takeN dropN length] in *. apply E. destruct Hx as [Hx|Hx].
      + right. split; [exact Hx|]. unfold lenN. cbn [length]. lia.
      + left. apply nonnil_length. exact Hx.
    - pose proof (len_dropN_lt cap (x :: l) Hcap ltac:(discriminate)). lia.
  Qed.
End Cb.

(** ** byteSliceChunkReader and bytes.Buffer *)
Lemma bs_read_prog max : (1 <= max)%N -> cprog (fun _ => 0) (bs_read max) (fun _ => True) (@length N).
Proof.
  intros Hmax d c e d' _ Hr. unfold bs_read in Hr.
  destruct d as [|x d]; cbn [is_nil] in Hr. { inv Hr. fin. }
  remember (x :: d) as xl eqn:Exl in *. assert (Hnn : xl <> []) by (subst; discriminate). clear Exl.
  pose proof (len_dropN_lt max xl Hmax Hnn). destruct (lenN xl <=? max)%N; inv Hr; cbn [length]; fin.
Qed.

Lemma bb_read_prog : rprog bb_read (fun _ => True) (@length N).
Proof.
  intros cap d c e d' _ Hr. unfold bb_read in Hr.
  destruct d as [|x d]; cbn [is_nil] in Hr.
  - destruct (cap =? 0)%N eqn:E0; inv Hr; rsplit; auto; try congruence; intros Hc [X|X]; try congruence.
    apply N.eqb_eq in E0. lia.
  - remember (x :: d) as xl eqn:Exl in *. assert (Hnn : xl <> []) by (subst; discriminate). clear Exl.
    inv Hr. pose proof (len_dropN_le cap xl). rsplit; auto; try congruence.
    intros Hc _. apply len_dropN_lt; assumption.
Qed.

(** * Scripted sources: the measure of a script *)
Definition evm (e : ev) : nat := match e with Chunk bs => S (length bs) | _ => 1 end.
Definition measure (evs : list ev) : nat := fold_right (fun e a => evm e + a) 0 evs.
Lemma measure_cons e r : measure (e :: r) = evm e + measure r.
Proof. reflexivity. Qed.
Lemma measure_nil : measure [] = 0.
Proof. reflexivity. Qed.

Lemma content_le_measure evs : length (fst (content evs)) <= measure evs.
Proof.
  induction evs as [|[bs|x|] r IH]; cbn [content]; rewrite ?measure_cons; cbn [evm fst length]; try lia.
  destruct (content r) as [c e]. cbn [fst] in *. rewrite app_length. lia.
Qed.

Lemma csrc_read_prog : cprog (@length N) csrc_read (fun _ => True) (fun s => measure (c_rest s)).
Proof.
  intros s c e s' _ Hr. unfold csrc_read in Hr.
  destruct (c_rest s) as [|[bs|x|] r] eqn:Er; inv Hr; cbn [c_rest]; rewrite ?Er, ?measure_cons; cbn [evm]; fin.
Qed.

Lemma rsrc_read_prog : rprog rsrc_read (fun _ => True) (fun s => measure (r_rest s)).
Proof.
  intros cap s c e s' _ Hr. unfold rsrc_read in Hr. cbn beta iota zeta in Hr.
  destruct (r_rest s) as [|[bs|x|] r] eqn:Er.
  - inv Hr. rewrite Er. rsplit; auto; try congruence. intros _ [X|X]; congruence.
  - pose proof (len_take_drop cap bs) as L.
    destruct (is_nil (dropN cap bs)) eqn:En; cbn [negb] in Hr.
    + apply is_nil_true in En. rewrite En in L. cbn [length] in L.
      destruct (r_attach s); [destruct r as [|[bs2|x2|] r2]|]; inv Hr; cbn [r_rest];
        rewrite ?measure_cons, ?measure_nil; cbn [evm]; rsplit; auto; try congruence; try lia; intros; lia.
    + assert (Hb : bs <> []) by (intros ->; cbn in En; discriminate).
      inv Hr. cbn [r_rest]. rewrite !measure_cons. cbn [evm]. pose proof (len_dropN_le cap bs).
      rsplit; auto; try congruence; try lia.
      intros Hc _. pose proof (len_dropN_lt cap bs Hc Hb). lia.
  - inv Hr. cbn [r_rest]. rewrite measure_cons. cbn [evm]. rsplit; auto; try congruence; try lia; intros; lia.
  - inv Hr. cbn [r_rest]. rewrite measure_cons. cbn [evm]. rsplit; auto; try congruence; try lia; intros; lia.
Qed.
