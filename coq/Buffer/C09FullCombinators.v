(** C09 (completion) — every decorator and consumer of pkg/blobstore/buffer
    modelled in Buffer/Source.v and Buffer/Convert.v depends on the reader it
    wraps only through the reads it performs: if two read functions agree on
    a set of states [P] that reads (and Close) do not leave, the decorated
    readers / consumers agree as well and stay inside [P].

    Used twice: with [rd1 = rd2] it is preservation of an invariant through
    any consumption method; with the validators for two hash functions it is
    "the hash is not consulted". *)
From Coq Require Import List ZArith NArith Bool Lia.
From BBS Require Import Buffer.Source Buffer.Validate Buffer.Convert.
Import ListNotations.
Open Scope N_scope.

(** two results are equal and the resulting state is in [P] *)
Definition same {X S : Type} (P : S -> Prop) (a b : X * S) : Prop := a = b /\ P (snd a).
Definition agree {S : Type} (P : S -> Prop) (rd1 rd2 : S -> (bytes * err) * S) : Prop :=
  forall s, P s -> same P (rd1 s) (rd2 s).
Definition ragree {S : Type} (P : S -> Prop) (rd1 rd2 : N -> S -> (bytes * err) * S) : Prop :=
  forall cap s, P s -> same P (rd1 cap s) (rd2 cap s).

Lemma same_refl {X S : Type} (P : S -> Prop) (a : X * S) : P (snd a) -> same P a a.
Proof. split; auto. Qed.

Section OverChunk.
  Variable S : Type.
  Variable P : S -> Prop.
  Variables rd1 rd2 : S -> (bytes * err) * S.
  Variable cl : S -> S.
  Hypothesis Hag : agree P rd1 rd2.
  Hypothesis Hcl : forall s, P s -> P (cl s).

  Lemma drain_agree : forall f out s, P s -> same P (drain rd1 f out s) (drain rd2 f out s).
  Proof.
    induction f as [|f IH]; intros out s Hs; cbn [drain]; [apply same_refl; exact Hs|].
    destruct (Hag s Hs) as [E Hp]. rewrite <- E. destruct (rd1 s) as [[c e] s']. cbn [snd] in Hp.
    destruct e; try (apply same_refl; exact Hp). apply IH; exact Hp.
  Qed.

  Lemma extra_reads_agree : forall k s, P s -> same P (extra_reads rd1 k s) (extra_reads rd2 k s).
  Proof.
    induction k as [|k IH]; intros s Hs; cbn [extra_reads]; [apply same_refl; exact Hs|].
    destruct (Hag s Hs) as [E Hp]. rewrite <- E. destruct (rd1 s) as [r s']. cbn [snd] in Hp.
    destruct (IH s' Hp) as [E2 Hp2]. rewrite <- E2. destruct (extra_reads rd1 k s') as [l s''].
    apply same_refl. exact Hp2.
  Qed.

  Lemma discard_cr_agree : forall f off s, P s ->
    same P (discard_from_chunk_reader rd1 f off s) (discard_from_chunk_reader rd2 f off s).
  Proof.
    induction f as [|f IH]; intros off s Hs; cbn [discard_from_chunk_reader];
      (destruct (off =? 0); [apply same_refl; exact Hs|]); [apply same_refl; exact Hs|].
    destruct (Hag s Hs) as [E Hp]. rewrite <- E. destruct (rd1 s) as [[c e] s']. cbn [snd] in Hp.
    destruct e; try (apply same_refl; exact Hp).
    destruct (off <? lenN c); [apply same_refl; exact Hp|]. apply IH; exact Hp.
  Qed.

  Definition Po (o : ost S) : Prop := P (o_u o).

  Lemma offset_init_agree f off s : P s ->
    offset_init rd1 cl f off s = offset_init rd2 cl f off s /\ Po (offset_init rd1 cl f off s).
  Proof.
    intros Hs. unfold offset_init. destruct (off <? 0)%Z; [split; [reflexivity|apply Hcl; exact Hs]|].
    destruct (discard_cr_agree f (Z.to_N off) s Hs) as [E Hp]. rewrite <- E.
    destruct (discard_from_chunk_reader rd1 f (Z.to_N off) s) as [[prefix e] s']. cbn [snd] in Hp.
    destruct e; split; try reflexivity; unfold Po; cbn [o_u]; auto.
  Qed.

  Lemma offset_read_agree : agree Po (offset_read rd1) (offset_read rd2).
  Proof.
    intros o Ho. unfold offset_read. destruct (o_fixed o); try (apply same_refl; exact Ho).
    destruct (is_nil (o_prefix o)); [|apply same_refl; exact Ho].
    destruct (Hag (o_u o) Ho) as [E Hp]. rewrite <- E. destruct (rd1 (o_u o)) as [r u'].
    apply same_refl. exact Hp.
  Qed.

  Lemma offset_close_P o : Po o -> Po (offset_close cl o).
  Proof. unfold Po, offset_close. destruct (o_fixed o); cbn [o_u]; auto. Qed.

  Definition Pn (n : nst S) : Prop := P (n_u n).

  Lemma norm_read_agree max : forall f, agree Pn (norm_read rd1 f max) (norm_read rd2 f max).
  Proof.
    induction f as [|f IH]; intros n Hn; cbn [norm_read].
    - destruct (negb (is_nil (n_last n))); [destruct (max <? lenN (n_last n))|]; apply same_refl; exact Hn.
    - destruct (negb (is_nil (n_last n))); [destruct (max <? lenN (n_last n)); apply same_refl; exact Hn|].
      destruct (Hag (n_u n) Hn) as [E Hp]. rewrite <- E. destruct (rd1 (n_u n)) as [[c e] u']. cbn [snd] in Hp.
      destruct e; try (apply same_refl; exact Hp). apply IH. exact Hp.
  Qed.

  Lemma norm_close_P n : Pn n -> Pn (norm_close cl n).
  Proof. unfold Pn, norm_close. cbn [n_u]. auto. Qed.

  Definition Pcb (st : cbst S) : Prop := P (cb_u st).

  Lemma cb_loop_agree : forall f left got st, Pcb st ->
    same Pcb (cb_loop rd1 f left got st) (cb_loop rd2 f left got st).
  Proof.
    induction f as [|f IH]; intros left got st Hs; cbn [cb_loop];
      (destruct (left =? 0); [apply same_refl; exact Hs|]); [apply same_refl; exact Hs|].
    destruct (Hag (cb_u st) Hs) as [E Hp]. rewrite <- E. destruct (rd1 (cb_u st)) as [[c e] u']. cbn [snd] in Hp.
    destruct e; try (apply same_refl; exact Hp). apply IH. exact Hp.
  Qed.

  Lemma cb_read_agree f : ragree Pcb (cb_read rd1 f) (cb_read rd2 f).
  Proof. intros cap st Hs. unfold cb_read. apply cb_loop_agree. exact Hs. Qed.

  Lemma cb_close_P st : Pcb st -> Pcb (cb_close cl st).
  Proof. unfold Pcb, cb_close. cbn [cb_u]. auto. Qed.

  Lemma into_writer_cr_agree f s : P s -> same P (into_writer_cr rd1 cl f s) (into_writer_cr rd2 cl f s).
  Proof.
    intros Hs. unfold into_writer_cr. destruct (drain_agree f [] s Hs) as [E Hp]. rewrite <- E.
    destruct (drain rd1 f [] s) as [[out e] s']. apply same_refl. cbn [snd] in *. auto.
  Qed.

  Lemma to_byte_slice_cr_agree f size max s : P s ->
    same P (to_byte_slice_cr rd1 cl f size max s) (to_byte_slice_cr rd2 cl f size max s).
  Proof.
    intros Hs. unfold to_byte_slice_cr. destruct (max <? size); [apply same_refl; cbn [snd]; auto|].
    destruct (drain_agree f [] s Hs) as [E Hp]. rewrite <- E.
    destruct (drain rd1 f [] s) as [[out e] s']. apply same_refl. cbn [snd] in *. auto.
  Qed.
End OverChunk.

Section ReadAt.
  Variable S : Type.
  Variable P : S -> Prop.
  Variables rd1 rd2 : S -> (bytes * err) * S.
  Variable cl : S -> S.
  Hypothesis Hag : agree P rd1 rd2.
  Hypothesis Hcl : forall s, P s -> P (cl s).

  Lemma read_at_fill_agree : forall f left got o, Po S P o ->
    same (Po S P) (read_at_fill rd1 f left got o) (read_at_fill rd2 f left got o).
  Proof.
    induction f as [|f IH]; intros left got o Ho; cbn [read_at_fill];
      (destruct (left =? 0); [apply same_refl; exact Ho|]); [apply same_refl; exact Ho|].
    destruct (offset_read_agree S P rd1 rd2 Hag o Ho) as [E Hp]. rewrite <- E.
    destruct (offset_read rd1 o) as [[c e] o']. cbn [snd] in Hp.
    destruct e; try (apply same_refl; exact Hp). apply IH. exact Hp.
  Qed.

  Lemma read_at_cr_agree f plen off s : P s ->
    same (Po S P) (read_at_cr rd1 cl f plen off s) (read_at_cr rd2 cl f plen off s).
  Proof.
    intros Hs. unfold read_at_cr.
    destruct (offset_init_agree S P rd1 rd2 cl Hag Hcl f off s Hs) as [E Ho]. rewrite <- E.
    destruct (read_at_fill_agree f plen [] _ Ho) as [E2 Ho2]. rewrite <- E2.
    destruct (read_at_fill rd1 f plen [] (offset_init rd1 cl f off s)) as [[got e] o]. cbn [snd] in Ho2.
    pose proof (offset_close_P S P cl Hcl) as Hc.
    destruct e; try (apply same_refl; cbn [snd]; auto).
    destruct (drain_agree (ost S) (Po S P) _ _ (offset_read_agree S P rd1 rd2 Hag) f [] o Ho2) as [E3 Ho3].
    rewrite <- E3. destruct (drain (offset_read rd1) f [] o) as [[x e2] o2]. cbn [snd] in Ho3.
    apply same_refl. cbn [snd]. auto.
  Qed.
End ReadAt.

Section OverReaderAgree.
  Variable S : Type.
  Variable P : S -> Prop.
  Variables rd1 rd2 : N -> S -> (bytes * err) * S.
  Hypothesis Hag : ragree P rd1 rd2.

  Lemma read_full_loop_agree : forall f want got s, P s ->
    same P (read_full_loop rd1 f want got s) (read_full_loop rd2 f want got s).
  Proof.
    induction f as [|f IH]; intros want got s Hs; cbn [read_full_loop];
      (destruct (want <=? lenN got); [apply same_refl; exact Hs|]); [apply same_refl; exact Hs|].
    destruct (Hag (want - lenN got) s Hs) as [E Hp]. rewrite <- E.
    destruct (rd1 (want - lenN got) s) as [[c e] s']. cbn [snd] in Hp.
    destruct e; try (destruct (want <=? lenN (got ++ c)); apply same_refl; exact Hp).
    apply IH. exact Hp.
  Qed.

  Lemma read_full_agree f want s : P s -> same P (read_full rd1 f want s) (read_full rd2 f want s).
  Proof. apply read_full_loop_agree. Qed.

  Lemma copy_loop_agree : forall f cap w s, P s -> same P (copy_loop rd1 f cap w s) (copy_loop rd2 f cap w s).
  Proof.
    induction f as [|f IH]; intros cap w s Hs; cbn [copy_loop]; [apply same_refl; exact Hs|].
    destruct (Hag cap s Hs) as [E Hp]. rewrite <- E. destruct (rd1 cap s) as [[c e] s']. cbn [snd] in Hp.
    destruct e; try (apply same_refl; exact Hp). apply IH. exact Hp.
  Qed.

  Lemma copy_agree f s : P s -> same P (copy rd1 f s) (copy rd2 f s).
  Proof. apply copy_loop_agree. Qed.

  Lemma copy_n_loop_agree : forall f left s, P s -> same P (copy_n_loop rd1 f left s) (copy_n_loop rd2 f left s).
  Proof.
    induction f as [|f IH]; intros left s Hs; cbn [copy_n_loop];
      (destruct (left =? 0); [apply same_refl; exact Hs|]); [apply same_refl; exact Hs|].
    destruct (Hag (N.min discard_buf left) s Hs) as [E Hp]. rewrite <- E.
    destruct (rd1 (N.min discard_buf left) s) as [[c e] s']. cbn [snd] in Hp.
    destruct e; try (apply same_refl; exact Hp). apply IH. exact Hp.
  Qed.

  Lemma discard_from_reader_agree f off s : P s ->
    same P (discard_from_reader rd1 f off s) (discard_from_reader rd2 f off s).
  Proof.
    intros Hs. unfold discard_from_reader. destruct (off <? 0)%Z; [apply same_refl; exact Hs|].
    apply copy_n_loop_agree. exact Hs.
  Qed.

  Definition Prb (st : rbst S) : Prop := P (rb_u st).

  Lemma rb_read_agree f max : agree Prb (rb_read rd1 f max) (rb_read rd2 f max).
  Proof.
    intros st Hs. unfold rb_read. destruct (rb_err st); try (apply same_refl; exact Hs).
    destruct (read_full_agree f max (rb_u st) Hs) as [E Hp]. rewrite <- E.
    destruct (read_full rd1 f max (rb_u st)) as [[data e] u']. cbn [snd] in Hp.
    destruct (negb (is_nil data)); apply same_refl; exact Hp.
  Qed.

  Lemma rconsume_agree : forall f caps lc out s, P s ->
    same P (rconsume rd1 f caps lc out s) (rconsume rd2 f caps lc out s).
  Proof.
    induction f as [|f IH]; intros caps lc out s Hs; cbn [rconsume]; [apply same_refl; exact Hs|].
    destruct (Hag (hd lc caps) s Hs) as [E Hp]. rewrite <- E.
    destruct (rd1 (hd lc caps) s) as [[c e] s']. cbn [snd] in Hp.
    destruct e; try (apply same_refl; exact Hp). apply IH. exact Hp.
  Qed.

  Lemma rextra_agree : forall k cap s, P s -> same P (rextra rd1 k cap s) (rextra rd2 k cap s).
  Proof.
    induction k as [|k IH]; intros cap s Hs; cbn [rextra]; [apply same_refl; exact Hs|].
    destruct (Hag cap s Hs) as [E Hp]. rewrite <- E. destruct (rd1 cap s) as [r s']. cbn [snd] in Hp.
    destruct (IH cap s' Hp) as [E2 Hp2]. rewrite <- E2. destruct (rextra rd1 k cap s') as [l s''].
    apply same_refl. exact Hp2.
  Qed.
End OverReaderAgree.
