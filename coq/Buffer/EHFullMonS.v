(** C16 — the monitor is silent on the model for every streaming method
    (IntoWriter, ToChunkReader, ToReader): all clauses of [mon16] (1-5, 7-10;
    clause 6 concerns the other methods), for inputs of the harness's domain on
    which the model does not run out of fuel. *)
From Coq Require Import List ZArith NArith Bool Lia.
From BBS Require Import Common.Sx Buffer.Source Buffer.Validate Buffer.Convert Buffer.ErrHandler
  Buffer.StreamProofs Buffer.ValidateProofs Buffer.ConvertProofs Buffer.C09FullMonitor Buffer.ErrHandlerProofs Buffer.StackRuleProofs
  Buffer.EHFullCarry Buffer.EHFullExact Buffer.EHFullPrefix Buffer.EHFullStackExact Buffer.EHFullStacking
  Buffer.EHFullCompleted Buffer.EHFullPartial Buffer.EHFullRuns Buffer.EHFullMon Buffer.EHFullMon3
  Run.R09 Run.R16 Run.R16Proofs.
Import ListNotations.
Open Scope Z_scope.

(** * The specification: the error a handler returned last *)
Lemma stitch_returned : forall ans b k p t offs c,
  stitch b k ans = (p, t, offs) -> returned ans (length offs) = Some c -> t = ECode c.
Proof.
  induction ans as [|a rest IH]; intros b k p t offs c Hs Hr; cbn [stitch] in Hs;
    destruct (piece_of b k) as [p1 t1].
  - destruct t1; inv Hs; cbn in Hr; try discriminate; inv Hr; reflexivity.
  - destruct a as [b'|c0].
    + destruct (stitch b' (k + lenN p1)%N rest) as [[p2 t2] offs2] eqn:Hs2.
      assert (Hgen : (p1 ++ p2, t2, t1 :: offs2) = (p, t, offs) -> t = ECode c).
      { intros Hx. inv Hx. cbn [length returned] in Hr. destruct (length offs2) as [|n] eqn:El; [cbn in Hr; discriminate|].
        cbn [nth_error] in Hr. eapply IH; [exact Hs2|]. rewrite El. cbn [returned]. exact Hr. }
      destruct t1; try (apply Hgen; exact Hs). inv Hs. cbn in Hr. discriminate.
    + destruct t1; inv Hs; cbn in Hr; try discriminate; inv Hr; reflexivity.
Qed.

Lemma stitch_from_returned x t ans p1 t1 offs c :
  stitch_from x t ans = (p1, t1, offs) -> returned ans (length offs) = Some c -> t1 = ECode c.
Proof.
  unfold stitch_from. intros Hs Hr.
  assert (Heof : t = EEof -> t1 = ECode c) by (intros ->; inv Hs; cbn in Hr; discriminate).
  destruct ans as [|[b'|c0] rest].
  - destruct t; try (apply Heof; reflexivity); inv Hs; cbn in Hr; inv Hr; reflexivity.
  - destruct (stitch b' (lenN x) rest) as [[p2 t2] offs2] eqn:Hs2.
    assert (Hgen : (x ++ p2, t2, t :: offs2) = (p1, t1, offs) -> t1 = ECode c).
    { intros Hx. inv Hx. cbn [length returned] in Hr. destruct (length offs2) as [|n] eqn:El; [cbn in Hr; discriminate|].
      cbn [nth_error] in Hr. eapply stitch_returned; [exact Hs2|]. rewrite El. cbn [returned]. exact Hr. }
    destruct t; try (apply Heof; reflexivity); apply Hgen; exact Hs.
  - destruct t; try (apply Heof; reflexivity); inv Hs; cbn in Hr; inv Hr; reflexivity.
Qed.

Lemma stitch_stack_returned : forall anss x t st term offss c,
  stitch_stack x t anss = (st, term, offss) -> anss <> [] ->
  returned (last anss []) (length (last offss [])) = Some c -> term = ECode c.
Proof.
  induction anss as [|a r IH]; intros x t st term offss c Hs Hn Hr; [congruence|].
  cbn [stitch_stack] in Hs. destruct (stitch_from x t a) as [[p1 t1] offs] eqn:Hf.
  destruct (stitch_stack p1 t1 r) as [[p2 t2] offss'] eqn:Hs'. inv Hs.
  destruct r as [|a2 r2].
  - cbn in Hs'. inv Hs'. cbn in Hr. eapply stitch_from_returned; eassumption.
  - pose proof (stitch_stack_length (a2 :: r2) p1 t1) as Hl. rewrite Hs' in Hl. cbn [snd] in Hl.
    destruct offss' as [|o os]; [discriminate|].
    eapply (IH p1 t1 _ _ _ c Hs'); [discriminate|]. exact Hr.
Qed.

(** * Decoding the model's observation *)
Lemma obs_offered_out r o : obs_offered (enc_out16s r o) = map (map R16.code_of) (map oell (y_logs o)).
Proof.
  unfold obs_offered, enc_out16s, sx_nth. cbn [sx_list nth]. rewrite !map_map. apply map_ext. intros log.
  rewrite enc_onerrors_codes. reflexivity.
Qed.

Lemma is_prefix_map q r : is_prefix (map R16.code_of q) (map R16.code_of (q ++ r)) = true.
Proof. induction q as [|x q IH]; cbn; [reflexivity|]. now rewrite Z.eqb_refl, IH. Qed.

Lemma forall2b_offers (done : bool) : forall L offss,
  Forall2 lpre L offss -> (done = true -> L = offss) ->
  forall2b (fun o offs => is_prefix o (map R16.code_of offs) && (negb done || (length o =? length offs)%nat))
           (map (map R16.code_of) L) offss = true.
Proof.
  induction 1 as [|q o qs os (r & ->) Hf IH]; intros Hd; [reflexivity|]. cbn [map forall2b].
  rewrite is_prefix_map. cbn [andb]. apply andb_true_intro. split.
  - destruct done; [|reflexivity]. specialize (Hd eq_refl). injection Hd as Hq Hqs. cbn. rewrite map_length, <- Hq. apply Nat.eqb_refl.
  - apply IH. intros E. specialize (Hd E). injection Hd as _ Hqs. exact Hqs.
Qed.

Lemma bytes_prefix_app a r : bytes_prefix a (a ++ r) = true.
Proof. induction a as [|x a IH]; cbn; [reflexivity|]. now rewrite N.eqb_refl, IH. Qed.

Lemma expected_streaming m st : streaming m -> expected_slice m st = dropN (Z.to_N (m_off m)) st.
Proof. destruct m; try contradiction; intros _; cbn; rewrite ?dropN_0; reflexivity. Qed.

Lemma last_map {A B} (f : A -> B) l d : last (map f l) (f d) = f (last l d).
Proof. induction l as [|x l IH]; [reflexivity|]. destruct l; [reflexivity|]. cbn [map last] in *. exact IH. Qed.

Definition dom16s (inp : sx) : Prop :=
  dom16 inp /\ y_err (out16 inp) <> EFuel /\
  bad_param (g_size (q_cfg (dec_case16 inp))) (q_meth (dec_case16 inp)) = false /\
  streaming (q_meth (dec_case16 inp)).

Theorem mon16_silent_on_model_streaming : forall inp, dom16s inp -> mon16 inp (run16 inp) = [].
Proof.
  intros inp (Hdom & Hef & Hbp & Hs). pose proof Hdom as (Hne & Hwf & Hnf & Hpos).
  destruct (mon16 inp (run16 inp)) as [|k l] eqn:Hmon; [reflexivity|]. exfalso.
  assert (Hin : In k (mon16 inp (run16 inp))) by (rewrite Hmon; left; reflexivity). clear Hmon.
  destruct (Z.eq_dec k 3) as [->|Hk3]; [exact (clause_3_silent_on_model inp Hdom Hin)|].
  pose proof (clause_1_silent_on_model inp Hne) as H1.
  destruct (clauses_8_9_silent_on_model inp) as (H8 & H9). pose proof (clause_10_silent_on_model inp) as H10.
  rewrite run16_out16 in *. unfold mon16 in Hin.
  set (c := dec_case16 inp) in *. set (o := out16 inp) in *.
  pose proof (run_stack_streaming_facts (lookup (q_tbl c)) (q_cfg c) (stack_fuel (q_b0 c) (q_anss c))
                (q_b0 c) (q_anss c) (q_meth c) Hs Hne Hbp Hwf Hef Hnf) as Hfacts.
  pose proof (run_stack_completed_streaming (lookup (q_tbl c)) (q_cfg c) (stack_fuel (q_b0 c) (q_anss c))
                (q_b0 c) (q_anss c) (q_meth c) Hs Hne) as Hthm.
  cbv zeta in Hfacts, Hthm. change (run_stack _ _ _ _ _ _) with o in Hfacts, Hthm.
  destruct (piece_of (q_b0 c) 0) as [p0 t0].
  destruct (stitch_stack p0 t0 (q_anss c)) as [[st term] offss] eqn:Hspec.
  destruct Hfacts as (HA & HB).
  cbv zeta in Hin.
  rewrite H1 in Hin. rewrite H8, H9, H10 in Hin. rewrite Z.eqb_refl in Hin. cbv iota in Hin. cbn [app] in Hin.
  assert (Hnd : is_discard (q_meth c) = false) by (destruct (q_meth c); try contradiction; reflexivity).
  rewrite Hnd in Hin.
  assert (Hsb : match q_meth c with MIntoWriter | MToChunkReader _ _ _ | MToReader _ _ => true | _ => false end = true)
    by (destruct (q_meth c); try contradiction; reflexivity).
  rewrite Hsb in Hin.
  (* the decoded observation *)
  unfold enc_out16s, sx_nth in Hin. cbn [sx_list nth] in Hin.
  change (L [of_Ns (y_data o); enc_err (y_err o); L (map enc_err (y_extra o));
             L (if q_report c then map of_bool (y_cbs o) else []);
             L (map enc_onerrors (y_logs o)); L (map enc_dones (y_logs o)); of_Ns (y_aux o); of_nats (y_closes o)])
    with (enc_out16s (q_report c) o) in Hin.
  rewrite obs_offered_out, sx_Z_enc_err, dec_bytes_of_Ns in Hin.
  set (Lg := map oell (y_logs o)) in *.
  assert (Hdone : completes (q_meth c) (R16.code_of (y_err o)) = completed (q_meth c) (y_err o))
    by (apply completes_completed; exact Hpos).
  rewrite Hdone in Hin.
  assert (Hcomp : completed (q_meth c) (y_err o) = true -> Lg = offss /\ term = EEof /\
            y_data o = expected_slice (q_meth c) st /\
            (bytes_trusted (lookup (q_tbl c)) (q_cfg c) (q_b0 c) (q_anss c) -> valid_bytes (lookup (q_tbl c)) (q_cfg c) st)).
  { intros Hc. destruct (Hthm Hc Hwf Hnf) as (st' & Hsp & Hd & Hv). inv Hsp. auto. }
  repeat (apply in_app_or in Hin; destruct Hin as [Hin|Hin]).
  - (* 2 *)
    destruct (returned _ _) as [c'|] eqn:Hret; [|contradiction].
    match type of Hin with In _ (if ?x then _ else _) => destruct x eqn:Hc2 end; [contradiction|].
    apply orb_false_iff in Hc2. destruct Hc2 as (Hcode & Htl).
    assert (Hj : length (last (map (map R16.code_of) Lg) []) = length (last Lg [])).
    { change (@nil Z) with (map R16.code_of []). rewrite last_map, map_length. reflexivity. }
    rewrite Hj in Hret.
    destruct HB as [(He3 & _ & -> & HL)|(out & e & rest & Hen & Hst & Hdat & Herr & Hwh & Hend)].
    + rewrite HL in Hret. pose proof (stitch_stack_returned _ _ _ _ _ _ _ Hspec Hne Hret). discriminate.
    + destruct Hend as [(-> & HL)|[(-> & -> & HL)|(-> & Hlen)]].
      * rewrite HL in Hret. pose proof (stitch_stack_returned _ _ _ _ _ _ _ Hspec Hne Hret) as ->.
        assert (y_err o = ECode c') by (rewrite Herr; destruct (q_meth c); reflexivity).
        rewrite H in Hcode. cbn in Hcode. rewrite Z.eqb_refl in Hcode. discriminate.
      * rewrite HL in Hret. pose proof (stitch_stack_returned _ _ _ _ _ _ _ Hspec Hne Hret). discriminate.
      * assert (y_err o = ECode (g_code (q_cfg c))) by (rewrite Herr; destruct (q_meth c); reflexivity).
        rewrite H in Htl. cbn [R16.code_of] in Htl. rewrite Z.eqb_refl in Htl.
        apply N.ltb_lt in Hlen. rewrite Hlen in Htl. cbn in Htl. discriminate.
  - (* 3 *) match type of Hin with In _ (if ?x then _ else _) => destruct x end; [|contradiction].
    apply In_single in Hin. congruence.
  - (* 4 *)
    match type of Hin with In _ (if ?x then _ else _) => destruct x eqn:Hc4 end; [contradiction|].
    rewrite (forall2b_offers _ _ _ HA) in Hc4; [discriminate|]. intros Hc. exact (proj1 (Hcomp Hc)).
  - (* 7 *)
    match type of Hin with In _ (if ?x then _ else _) => destruct x eqn:Hc7 end; [|contradiction].
    apply andb_true_iff in Hc7. destruct Hc7 as (_ & Hc7). apply negb_true_iff in Hc7.
    change (expected (q_meth c) st) with (expected_slice (q_meth c) st) in Hc7.
    rewrite (expected_streaming _ _ Hs) in Hc7.
    destruct HB as [(_ & Hd0 & _)|(out & e & rest & Hen & Hst & Hdat & _)].
    + rewrite Hd0 in Hc7. discriminate.
    + rewrite Hdat, Hst in Hc7. destruct (dropN_prefix (Z.to_N (m_off (q_meth c))) out rest) as (r' & Hr').
      rewrite Hr', bytes_prefix_app in Hc7. discriminate.
  - (* 5 *)
    match type of Hin with In _ (if ?x then _ else _) => destruct x eqn:Hc5 end; [|contradiction].
    apply andb_true_iff in Hc5. destruct Hc5 as (Hc5 & Hlt). apply andb_true_iff in Hc5. destruct Hc5 as (Hc5 & Hnn).
    apply andb_true_iff in Hc5. destruct Hc5 as (Htr & Hnv).
    apply negb_true_iff in Hlt, Hnn, Hnv.
    destruct HB as [(_ & Hd0 & _)|(out & e & rest & Hen & Hst & Hdat & Herr & Hwh & Hend)].
    + rewrite Hd0 in Hnn. discriminate.
    + destruct (err_eqb e EEof) eqn:Hee.
      * destruct e; try discriminate.
        assert (Hc : completed (q_meth c) (y_err o) = true) by (rewrite Herr; destruct (q_meth c); try contradiction; reflexivity).
        destruct (Hcomp Hc) as (_ & -> & _ & Hv). destruct (Hv (trusted_bytes _ _ _ _ Htr)) as (Hl & Hh).
        cbn [err_eqb] in Hnv. rewrite Hl, N.eqb_refl in Hnv.
        assert (Hhb : bytes_eqb (g_hash (q_cfg c)) (lookup (q_tbl c) st) = true) by (apply bytes_eqb_eq; exact Hh).
        rewrite Hhb in Hnv. discriminate.
      * assert (Hne' : e <> EEof) by (intros ->; discriminate).
        assert (Hoff : 0 <= m_off (q_meth c)) by (eapply m_off_nonneg; exact Hbp).
        assert (Hlen : lenN (y_data o) = (lenN out - Z.to_N (m_off (q_meth c)))%N) by (rewrite Hdat; apply lenN_dropN).
        assert (Hpos' : (0 < lenN (y_data o))%N).
        { destruct (y_data o); [discriminate|]. unfold lenN. cbn. lia. }
        destruct (Hwh Hne') as [->|Hl]; [rewrite lenN_nil in Hlen; lia|].
        apply Z.ltb_ge in Hlt. lia.
Qed.
