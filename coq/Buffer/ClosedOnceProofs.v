(** C16 — every scripted source is closed exactly once.

    Generic part: a predicate [P0] of the underlying reader's state that every
    read preserves ("not yet closed") and a predicate [P1] that Close()
    establishes from it ("closed once") are carried through the decorators
    of Buffer/Convert.v; the offset reader, which closes its underlying reader
    when its construction fails and does not close it again later, is in state
    [P0] while [o_fixed = ENone] and in state [P1] otherwise.

    Special part: every consumption method of a CAS chunk-reader buffer and
    of a CAS reader buffer closes the scripted source exactly once
    ([plain_closed_once]); the unvalidated readers handed to the
    error-handling readers own a source that is closed exactly once after
    their Close() ([ucr_ok], [urd_ok]). *)
From Coq Require Import List ZArith NArith Bool Lia.
From BBS Require Import Buffer.Source Buffer.Validate Buffer.Convert Buffer.StreamProofs
  Buffer.ValidateProofs Buffer.PreserveProofs Buffer.ErrHandler.
Import ListNotations.
Open Scope N_scope.

Section MoreOverChunk.
  Variable S : Type.
  Variable rd : S -> (bytes * err) * S.
  Variable P : S -> Prop.
  Hypothesis rd_pres : forall s r s', rd s = (r, s') -> P s -> P s'.

  Lemma norm_read_pres max fuel : forall n r n',
    norm_read rd fuel max n = (r, n') -> P (n_u n) -> P (n_u n').
  Proof.
    induction fuel as [|f IH]; intros n r n' Hr Hp; cbn [norm_read] in Hr;
      destruct (negb (is_nil (n_last n)));
      try (destruct (max <? lenN (n_last n)); inv Hr; assumption);
      try (inv Hr; assumption).
    destruct (rd (n_u n)) as [[c e] u'] eqn:Hu. apply rd_pres in Hu; [|assumption].
    destruct e; try (inv Hr; assumption). eapply IH in Hr; [exact Hr|exact Hu].
  Qed.
  Lemma cb_loop_pres fuel : forall left got st r st',
    cb_loop rd fuel left got st = (r, st') -> P (cb_u st) -> P (cb_u st').
  Proof.
    induction fuel as [|f IH]; intros left got st r st' Hr Hp; cbn [cb_loop] in Hr;
      destruct (left =? 0); try (inv Hr; assumption).
    destruct (rd (cb_u st)) as [[c e] u'] eqn:Hu. apply rd_pres in Hu; [|assumption].
    destruct e; try (inv Hr; assumption). eapply IH in Hr; [exact Hr|exact Hu].
  Qed.
  Lemma cb_read_pres fuel cap st r st' :
    cb_read rd fuel cap st = (r, st') -> P (cb_u st) -> P (cb_u st').
  Proof. unfold cb_read. intros Hr Hp. eapply cb_loop_pres in Hr; [exact Hr|exact Hp]. Qed.
End MoreOverChunk.

Section MoreOverReader.
  Variable S : Type.
  Variable rd : N -> S -> (bytes * err) * S.
  Variable P : S -> Prop.
  Hypothesis rd_pres : forall cap s r s', rd cap s = (r, s') -> P s -> P s'.

  Lemma copy_loop_pres fuel : forall cap written s r s',
    copy_loop rd fuel cap written s = (r, s') -> P s -> P s'.
  Proof.
    induction fuel as [|f IH]; intros cap written s r s' Hr Hp; cbn [copy_loop] in Hr; [inv Hr; assumption|].
    destruct (rd cap s) as [[c e] s1] eqn:Hu. apply rd_pres in Hu; [|assumption].
    destruct e; try (inv Hr; assumption). eapply IH in Hr; [exact Hr|exact Hu].
  Qed.
  Lemma copy_n_loop_pres fuel : forall left s e s',
    copy_n_loop rd fuel left s = (e, s') -> P s -> P s'.
  Proof.
    induction fuel as [|f IH]; intros left s e s' Hr Hp; cbn [copy_n_loop] in Hr;
      destruct (left =? 0); try (inv Hr; assumption).
    destruct (rd (N.min discard_buf left) s) as [[c e0] s1] eqn:Hu. apply rd_pres in Hu; [|assumption].
    destruct e0; try (inv Hr; assumption). eapply IH in Hr; [exact Hr|exact Hu].
  Qed.
  Lemma discard_from_reader_pres fuel off s e s' :
    discard_from_reader rd fuel off s = (e, s') -> P s -> P s'.
  Proof.
    unfold discard_from_reader. destruct (off <? 0)%Z; [intros E; inv E; auto|apply copy_n_loop_pres].
  Qed.
  Lemma rb_read_pres fuel max st r st' :
    rb_read rd fuel max st = (r, st') -> P (rb_u st) -> P (rb_u st').
  Proof.
    unfold rb_read. intros Hr Hp. destruct (rb_err st); try (inv Hr; assumption).
    destruct (read_full rd fuel max (rb_u st)) as [[data e] u'] eqn:Hf.
    unfold read_full in Hf. eapply (read_full_loop_pres _ rd P rd_pres) in Hf; [|exact Hp].
    destruct (negb (is_nil data)); inv Hr; exact Hf.
  Qed.
End MoreOverReader.

(** * The offset reader: open ([P0]) while [o_fixed = ENone], closed ([P1]) otherwise *)
Section OffsetOk.
  Variable S : Type.
  Variable rd : S -> (bytes * err) * S.
  Variable cl : S -> S.
  Variables P0 P1 : S -> Prop.
  Hypothesis rd_pres : forall s r s', rd s = (r, s') -> P0 s -> P0 s'.
  Hypothesis cl_ok : forall s, P0 s -> P1 (cl s).

  Definition ost_ok (o : ost S) : Prop :=
    match o_fixed o with ENone => P0 (o_u o) | _ => P1 (o_u o) end.

  Lemma offset_init_ok fuel off s : P0 s -> ost_ok (offset_init rd cl fuel off s).
  Proof.
    intros Hp. unfold offset_init, ost_ok. destruct (off <? 0)%Z; [cbn; auto|].
    destruct (discard_from_chunk_reader rd fuel (Z.to_N off) s) as [[prefix e] s'] eqn:Hd.
    eapply (discard_pres _ rd P0 rd_pres) in Hd; [|exact Hp].
    destruct e; cbn; auto.
  Qed.
  Lemma offset_read_ok o r o' : offset_read rd o = (r, o') -> ost_ok o -> ost_ok o'.
  Proof.
    unfold offset_read, ost_ok. intros Hr Hq.
    destruct (o_fixed o) eqn:Ef; try (inv Hr; rewrite Ef; exact Hq).
    destruct (is_nil (o_prefix o)); [|inv Hr; exact Hq].
    destruct (rd (o_u o)) as [x u'] eqn:Hu. inv Hr. cbn. eapply rd_pres; eassumption.
  Qed.
  Lemma offset_close_ok o : ost_ok o -> P1 (o_u (offset_close cl o)).
  Proof. unfold offset_close, ost_ok. destruct (o_fixed o); cbn; auto. Qed.

  Lemma read_at_fill_ok fuel : forall left got o r o',
    read_at_fill rd fuel left got o = (r, o') -> ost_ok o -> ost_ok o'.
  Proof.
    induction fuel as [|f IH]; intros left got o r o' Hr Hq; cbn [read_at_fill] in Hr;
      destruct (left =? 0); try (inv Hr; assumption).
    destruct (offset_read rd o) as [[c e] o1] eqn:Ho. apply offset_read_ok in Ho; [|assumption].
    destruct e; try (inv Hr; assumption). eapply IH in Hr; [exact Hr|exact Ho].
  Qed.
  Lemma read_at_cr_ok fuel plen off s r o :
    read_at_cr rd cl fuel plen off s = (r, o) -> P0 s -> P1 (o_u o).
  Proof.
    unfold read_at_cr. intros Hr Hp.
    pose proof (offset_init_ok fuel off s Hp) as H0.
    destruct (read_at_fill rd fuel plen [] (offset_init rd cl fuel off s)) as [[got e] o1] eqn:Hf.
    apply read_at_fill_ok in Hf; [|exact H0].
    destruct e.
    - destruct (drain (offset_read rd) fuel [] o1) as [[x e2] o2] eqn:Hd.
      eapply (drain_pres _ (offset_read rd) ost_ok offset_read_ok) in Hd; [|exact Hf].
      inv Hr. apply offset_close_ok. exact Hd.
    - inv Hr. apply offset_close_ok. exact Hf.
    - inv Hr. apply offset_close_ok. exact Hf.
    - inv Hr. apply offset_close_ok. exact Hf.
    - inv Hr. apply offset_close_ok. exact Hf.
  Qed.
  Lemma into_writer_cr_ok fuel s r s' : into_writer_cr rd cl fuel s = (r, s') -> P0 s -> P1 s'.
  Proof.
    unfold into_writer_cr. intros Hr Hp. destruct (drain rd fuel [] s) as [[out e] s1] eqn:Hd.
    eapply (drain_pres _ rd P0 rd_pres) in Hd; [|exact Hp]. inv Hr. auto.
  Qed.
  Lemma to_byte_slice_cr_ok fuel size max s r s' :
    to_byte_slice_cr rd cl fuel size max s = (r, s') -> P0 s -> P1 s'.
  Proof.
    unfold to_byte_slice_cr. intros Hr Hp. destruct (max <? size); [inv Hr; auto|].
    destruct (drain rd fuel [] s) as [[out e] s1] eqn:Hd.
    eapply (drain_pres _ rd P0 rd_pres) in Hd; [|exact Hp]. inv Hr. auto.
  Qed.
End OffsetOk.
Arguments ost_ok {S}.

(** * The scripted sources *)
Lemma csrc_read_closed n s r s' : csrc_read s = (r, s') -> c_closed s = n -> c_closed s' = n.
Proof.
  unfold csrc_read. intros Hr Hc. destruct (c_rest s) as [|[bs|c|] rest]; inv Hr; reflexivity.
Qed.
Lemma rsrc_read_closed n cap s r s' : rsrc_read cap s = (r, s') -> r_closed s = n -> r_closed s' = n.
Proof.
  unfold rsrc_read. intros Hr Hc. destruct (r_rest s) as [|[bs|c|] rest]; try (inv Hr; reflexivity).
  destruct (negb (is_nil (dropN cap bs))); [inv Hr; reflexivity|].
  destruct (r_attach s); [|inv Hr; reflexivity].
  destruct rest as [|[bs'|c'|] rest']; inv Hr; reflexivity.
Qed.

(** * The unvalidated readers of plain buffers *)
Definition copen (s : csrc) : Prop := c_closed s = 0%nat.
Definition cclosed (s : csrc) : Prop := c_closed s = 1%nat.
Definition ucr_ok (u : ucr) : Prop :=
  match u with
  | UNorm n => ost_ok copen cclosed (n_u n)
  | URb r => r_closed (rb_u r) = 0%nat
  | UFail _ s => r_closed s = 1%nat
  | _ => True
  end.
Definition urd_ok (u : urd) : Prop :=
  match u with
  | RCb c => ost_ok copen cclosed (cb_u c)
  | RRaw s => r_closed s = 0%nat
  | RFail _ s => r_closed s = 1%nat
  | _ => True
  end.
Definition all_one (l : list nat) : Prop := Forall (fun n => n = 1%nat) l.

Lemma csrc_open_pres s r s' : csrc_read s = (r, s') -> copen s -> copen s'.
Proof. apply csrc_read_closed. Qed.
Lemma csrc_close_ok s : copen s -> cclosed (csrc_close s).
Proof. unfold copen, cclosed. cbn. lia. Qed.

Lemma ucr_open_ok fuel b off : ucr_ok (ucr_open fuel b off).
Proof.
  destruct b as [evs|evs a|d|c]; cbn [ucr_open ucr_ok].
  - cbn [n_u]. apply (offset_init_ok _ csrc_read csrc_close copen cclosed csrc_open_pres csrc_close_ok). reflexivity.
  - destruct (discard_from_reader rsrc_read fuel (Z.of_N off) (mkRsrc evs a 0)) as [e s] eqn:Hd.
    eapply (discard_from_reader_pres _ rsrc_read (fun s => r_closed s = 0%nat)) in Hd;
      [|intros cap s0 r0 s0'; apply rsrc_read_closed|reflexivity].
    destruct e; cbn; try rewrite Hd; auto.
  - destruct (off <=? lenN d); exact I.
  - exact I.
Qed.
Lemma ucr_read_ok fuel max u r u' : ucr_read fuel max u = (r, u') -> ucr_ok u -> ucr_ok u'.
Proof.
  destruct u as [n|rb|d|e|e s]; cbn [ucr_read ucr_ok]; intros Hr Hk.
  - destruct (norm_read (offset_read csrc_read) fuel max n) as [x n'] eqn:Hn. inv Hr. cbn [ucr_ok].
    eapply (norm_read_pres _ (offset_read csrc_read) (ost_ok copen cclosed)) in Hn; [exact Hn| |exact Hk].
    intros o r0 o'. apply (offset_read_ok _ csrc_read copen cclosed csrc_open_pres).
  - destruct (rb_read rsrc_read fuel max rb) as [x rb'] eqn:Hn. inv Hr. cbn [ucr_ok].
    eapply (rb_read_pres _ rsrc_read (fun s => r_closed s = 0%nat)) in Hn; [exact Hn| |exact Hk].
    intros cap s0 r0 s0'. apply rsrc_read_closed.
  - destruct (bs_read max d) as [x d']. inv Hr. exact I.
  - inv Hr. exact I.
  - inv Hr. exact Hk.
Qed.
Lemma ucr_close_ok u : ucr_ok u -> all_one (ucr_closes (ucr_close u)).
Proof.
  destruct u as [n|rb|d|e|e s]; cbn [ucr_ok ucr_close ucr_closes]; intros Hk; unfold all_one.
  - constructor; [|constructor]. cbn [norm_close n_u].
    apply (offset_close_ok _ csrc_close copen cclosed csrc_close_ok). exact Hk.
  - constructor; [|constructor]. cbn. rewrite Hk. reflexivity.
  - constructor.
  - constructor.
  - constructor; [exact Hk|constructor].
Qed.

Lemma urd_open_ok fuel b off : urd_ok (urd_open fuel b off).
Proof.
  destruct b as [evs|evs a|d|c]; cbn [urd_open urd_ok].
  - cbn [cb_u]. apply (offset_init_ok _ csrc_read csrc_close copen cclosed csrc_open_pres csrc_close_ok). reflexivity.
  - destruct (discard_from_reader rsrc_read fuel (Z.of_N off) (mkRsrc evs a 0)) as [e s] eqn:Hd.
    eapply (discard_from_reader_pres _ rsrc_read (fun s => r_closed s = 0%nat)) in Hd;
      [|intros cap s0 r0 s0'; apply rsrc_read_closed|reflexivity].
    destruct e; cbn; try rewrite Hd; auto.
  - destruct (off <=? lenN d); exact I.
  - exact I.
Qed.
Lemma urd_read_ok fuel cap u r u' : urd_read fuel cap u = (r, u') -> urd_ok u -> urd_ok u'.
Proof.
  destruct u as [c|s|d|e|e s]; cbn [urd_read urd_ok]; intros Hr Hk.
  - destruct (cb_read (offset_read csrc_read) fuel cap c) as [x c'] eqn:Hn. inv Hr. cbn [urd_ok].
    eapply (cb_read_pres _ (offset_read csrc_read) (ost_ok copen cclosed)) in Hn; [exact Hn| |exact Hk].
    intros o r0 o'. apply (offset_read_ok _ csrc_read copen cclosed csrc_open_pres).
  - destruct (rsrc_read cap s) as [x s'] eqn:Hn. inv Hr. cbn [urd_ok].
    eapply rsrc_read_closed; eassumption.
  - destruct (bb_read cap d) as [x d']. inv Hr. exact I.
  - inv Hr. exact I.
  - inv Hr. exact Hk.
Qed.
Lemma urd_close_ok u : urd_ok u -> all_one (urd_closes (urd_close u)).
Proof.
  destruct u as [c|s|d|e|e s]; cbn [urd_ok urd_close urd_closes]; intros Hk; unfold all_one.
  - constructor; [|constructor]. cbn [cb_close cb_u].
    apply (offset_close_ok _ csrc_close copen cclosed csrc_close_ok). exact Hk.
  - constructor; [|constructor]. cbn. rewrite Hk. reflexivity.
  - constructor.
  - constructor.
  - constructor; [exact Hk|constructor].
Qed.

(** * Whole operations on plain CAS buffers close the source exactly once *)
Section Plain.
  Variable H : bytes -> bytes.
  Variable cfg : vcfg.
  Variable fuel : nat.

  Definition vopen (st : cvs) : Prop := c_closed (v_u st) = 0%nat.
  Definition vclosed (st : cvs) : Prop := c_closed (v_u st) = 1%nat.
  Lemma cv_read_open st r st' : cv_read H cfg fuel st = (r, st') -> vopen st -> vopen st'.
  Proof.
    unfold cv_read, vopen. intros Hr Hp.
    exact (vcr_read_pres _ csrc_read copen csrc_open_pres H cfg fuel st r st' Hr Hp).
  Qed.
  Lemma cv_close_closed st : vopen st -> vclosed (cv_close st).
  Proof. unfold vopen, vclosed, cv_close. cbn. lia. Qed.

  Lemma cas_chunk_reader_closed_once evs m : o_closed (cas_chunk_reader H cfg fuel evs m) = 1%nat.
  Proof.
    assert (H0 : vopen (cv_init cfg evs)) by reflexivity.
    pose proof cv_read_open as Hrd. pose proof cv_close_closed as Hcl.
    destruct m; cbn [cas_chunk_reader].
    - destruct (to_byte_slice_cr _ _ _ _ _ _) as [[out e] st] eqn:Ht.
      eapply (to_byte_slice_cr_ok _ _ _ vopen vclosed Hrd Hcl) in Ht; [exact Ht|exact H0].
    - destruct (into_writer_cr _ _ _ _) as [[out e] st] eqn:Ht.
      eapply (into_writer_cr_ok _ _ _ vopen vclosed Hrd Hcl) in Ht; [exact Ht|exact H0].
    - destruct (read_at_cr _ _ _ _ _ _) as [[out e] o] eqn:Ht.
      eapply (read_at_cr_ok _ _ _ vopen vclosed Hrd Hcl) in Ht; [exact Ht|exact H0].
    - destruct (valid_offset (g_size cfg) off); [|cbn [o_closed cv_out rv_out]; apply Hcl; exact H0].
      pose proof (offset_init_ok _ (cv_read H cfg fuel) (cv_close) vopen vclosed Hrd Hcl fuel off _ H0) as Hi.
      assert (Hor := offset_read_ok _ (cv_read H cfg fuel) vopen vclosed Hrd).
      assert (Hnr : forall n r n', norm_read (offset_read (cv_read H cfg fuel)) fuel max n = (r, n') ->
                                   ost_ok vopen vclosed (n_u n) -> ost_ok vopen vclosed (n_u n')).
      { intros n r n'. apply (norm_read_pres _ _ (ost_ok vopen vclosed) Hor). }
      destruct (drain _ fuel [] _) as [[out e] n] eqn:Hd.
      eapply (drain_pres _ _ (fun n => ost_ok vopen vclosed (n_u n)) Hnr) in Hd; [|exact Hi].
      destruct (extra_reads _ extra n) as [ex n2] eqn:He.
      eapply (extra_reads_pres _ _ (fun n => ost_ok vopen vclosed (n_u n)) Hnr) in He; [|exact Hd].
      cbn [o_closed cv_out rv_out]. apply (offset_close_ok _ cv_close vopen vclosed Hcl). exact He.
    - assert (Hcb : forall cap s r s', cb_read (cv_read H cfg fuel) fuel cap s = (r, s') ->
                                       vopen (cb_u s) -> vopen (cb_u s')).
      { intros cap s r s'. apply (cb_read_pres _ _ vopen Hrd). }
      destruct (rconsume _ fuel caps _ [] _) as [[out e] s] eqn:Hc.
      eapply (rconsume_pres _ _ (fun s => vopen (cb_u s)) Hcb) in Hc; [|exact H0].
      destruct (rextra _ extra _ s) as [ex s2] eqn:He.
      eapply (rextra_pres _ _ (fun s => vopen (cb_u s)) Hcb) in He; [|exact Hc].
      cbn [o_closed cv_out rv_out]. apply Hcl. exact He.
    - destruct (to_byte_slice_cr _ _ _ _ _ _) as [r st] eqn:Ht.
      eapply (to_byte_slice_cr_ok _ _ _ vopen vclosed Hrd Hcl) in Ht; [|exact H0].
      unfold clone_copy_of. destruct (snd r); exact Ht.
    - cbn [o_closed cv_out rv_out]. apply Hcl. exact H0.
  Qed.

  Definition ropen (st : rvs) : Prop := r_closed (v_u st) = 0%nat.
  Lemma rv_read_open cap st r st' : rv_read H cfg fuel cap st = (r, st') -> ropen st -> ropen st'.
  Proof.
    unfold rv_read, ropen. intros Hr Hp.
    exact (vr_read_pres _ rsrc_read (fun s => r_closed s = 0%nat)
             (fun cap0 s0 r0 s0' => rsrc_read_closed 0 cap0 s0 r0 s0') H cfg fuel cap st r st' Hr Hp).
  Qed.
  Lemma rv_close_closed st : ropen st -> r_closed (v_u (rv_close st)) = 1%nat.
  Proof. unfold ropen, rv_close. cbn. lia. Qed.

  Lemma to_byte_slice_r_closed max st0 r st :
    to_byte_slice_r H cfg fuel max st0 = (r, st) -> ropen st0 -> r_closed (v_u st) = 1%nat.
  Proof.
    unfold to_byte_slice_r. intros Hr Hp.
    destruct (max <? g_size cfg); [inv Hr; apply rv_close_closed; exact Hp|].
    destruct (0 <? g_size cfg).
    - destruct (read_full _ fuel (g_size cfg) st0) as [[data e] st1] eqn:Hf. unfold read_full in Hf.
      eapply (read_full_loop_pres _ _ ropen rv_read_open) in Hf; [|exact Hp].
      inv Hr. apply rv_close_closed. exact Hf.
    - destruct (rv_read H cfg fuel 0 st0) as [[x e] st1] eqn:Hf. apply rv_read_open in Hf; [|exact Hp].
      inv Hr. apply rv_close_closed. exact Hf.
  Qed.

  Lemma cas_reader_closed_once evs attach m : o_closed (cas_reader H cfg fuel evs attach m) = 1%nat.
  Proof.
    assert (H0 : ropen (rv_init cfg evs attach)) by reflexivity.
    pose proof rv_read_open as Hrd. pose proof rv_close_closed as Hcl.
    destruct m; cbn [cas_reader].
    - destruct (to_byte_slice_r _ _ _ _ _) as [[out e] st] eqn:Ht.
      eapply to_byte_slice_r_closed in Ht; [exact Ht|exact H0].
    - destruct (copy _ fuel _) as [[out e] st] eqn:Ht. unfold copy in Ht.
      eapply (copy_loop_pres _ _ ropen Hrd) in Ht; [|exact H0]. cbn [o_closed cv_out rv_out]. apply Hcl. exact Ht.
    - destruct (discard_from_reader _ fuel off _) as [e0 st] eqn:Hd.
      eapply (discard_from_reader_pres _ _ ropen Hrd) in Hd; [|exact H0].
      destruct e0; try (cbn [o_closed cv_out rv_out]; apply Hcl; exact Hd).
      destruct (read_full _ fuel plen st) as [[got e] st1] eqn:Hf. unfold read_full in Hf.
      eapply (read_full_loop_pres _ _ ropen Hrd) in Hf; [|exact Hd].
      destruct e; try (cbn [o_closed cv_out rv_out]; apply Hcl; exact Hf).
      destruct (copy _ fuel st1) as [[x e2] st2] eqn:Hc. unfold copy in Hc.
      eapply (copy_loop_pres _ _ ropen Hrd) in Hc; [|exact Hf].
      destruct e2; cbn [o_closed cv_out rv_out]; apply Hcl; exact Hc.
    - destruct (valid_offset (g_size cfg) off); [|cbn [o_closed cv_out rv_out]; apply Hcl; exact H0].
      destruct (discard_from_reader _ fuel off _) as [e0 st] eqn:Hd.
      eapply (discard_from_reader_pres _ _ ropen Hrd) in Hd; [|exact H0].
      destruct e0; try (cbn [o_closed cv_out rv_out]; apply Hcl; exact Hd).
      assert (Hrb : forall s r s', rb_read (rv_read H cfg fuel) fuel max s = (r, s') ->
                                   ropen (rb_u s) -> ropen (rb_u s')).
      { intros s r s'. apply (rb_read_pres _ _ ropen Hrd). }
      destruct (drain _ fuel [] _) as [[out e] s] eqn:Hdr.
      eapply (drain_pres _ _ (fun s => ropen (rb_u s)) Hrb) in Hdr; [|exact Hd].
      destruct (extra_reads _ extra s) as [ex s2] eqn:He.
      eapply (extra_reads_pres _ _ (fun s => ropen (rb_u s)) Hrb) in He; [|exact Hdr].
      cbn [o_closed cv_out rv_out]. apply Hcl. exact He.
    - destruct (rconsume _ fuel caps _ [] _) as [[out e] st] eqn:Hc.
      eapply (rconsume_pres _ _ ropen Hrd) in Hc; [|exact H0].
      destruct (rextra _ extra _ st) as [ex st2] eqn:He.
      eapply (rextra_pres _ _ ropen Hrd) in He; [|exact Hc].
      cbn [o_closed cv_out rv_out]. apply Hcl. exact He.
    - destruct (to_byte_slice_r _ _ _ _ _) as [r st] eqn:Ht.
      eapply to_byte_slice_r_closed in Ht; [|exact H0].
      unfold clone_copy_of. destruct (snd r); exact Ht.
    - cbn [o_closed cv_out rv_out]. apply Hcl. exact H0.
  Qed.

  (** every method applied to a plain buffer closes its scripted source exactly once *)
  Theorem plain_closed_once b m : all_one (closes_of b (plain H cfg fuel b m)).
  Proof.
    destruct b as [evs|evs a|d|c]; cbn [closes_of plain]; unfold all_one.
    - constructor; [apply cas_chunk_reader_closed_once|constructor].
    - constructor; [apply cas_reader_closed_once|constructor].
    - constructor.
    - constructor.
  Qed.
End Plain.
