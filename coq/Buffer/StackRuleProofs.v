(** C16 — the offering rule for stacks of error handlers, over a whole run of
    [run_stack].

    A handler's [trace] is the list of (error offered, answer given) pairs, in
    order; [hrun ans h tr] says that the handler state [h] is what the scripted
    handler with script [ans] becomes by being offered the errors of [tr] and
    giving the answers of [tr] (and possibly being told Done).  The rule for
    two neighbouring levels ([adj inner outer]):
    - either the inner handler has answered with replacements only (or was
      never asked) and the outer handler has not been asked at all,
    - or the inner handler's LAST answer is an error [c], every earlier answer
      of it a replacement (it was not asked again after answering with an
      error), and the FIRST error the outer handler was offered is [c]. *)
From Coq Require Import List ZArith NArith Bool Lia.
From BBS Require Import Buffer.Source Buffer.Validate Buffer.Convert Buffer.ErrHandler
  Buffer.StreamProofs Buffer.ValidateProofs Buffer.ConvertProofs Buffer.PreserveProofs
  Buffer.ErrHandlerProofs Buffer.ClosedOnceProofs.
Import ListNotations.
Open Scope N_scope.

Definition trace := list (err * answer).
Inductive hrun (ans : list answer) : hst -> trace -> Prop :=
| hr_init : hrun ans (mkHst ans []) []
| hr_ask h tr e : hrun ans h tr -> hrun ans (snd (on_error h e)) (tr ++ [(e, fst (on_error h e))])
| hr_done h tr : hrun ans h tr -> hrun ans (done h) tr.

Definition isrep (p : err * answer) : Prop := exists b, snd p = Replace b.
Definition quietT (tr : trace) : Prop := Forall isrep tr.
Definition failedT (c : Z) (tr : trace) : Prop := exists l e, tr = l ++ [(e, Fail c)] /\ Forall isrep l.
Definition starts (c : Z) (tr : trace) : Prop := exists a rest, tr = (ECode c, a) :: rest.
Definition adj2 (p t : trace) : Prop := exists c, failedT c p /\ starts c t.
Definition adj (p t : trace) : Prop := (quietT p /\ t = []) \/ adj2 p t.

Definition pc (prev : option trace) (t : trace) : Prop :=
  match prev with None => True | Some p => adj p t end.
Fixpoint chain (prev : option trace) (l : list trace) : Prop :=
  match l with
  | [] => True
  | t :: r => pc prev t /\ chain (Some t) r
  end.
Definition lastT (prev : option trace) (l : list trace) : option trace :=
  fold_left (fun _ t => Some t) l prev.

Lemma lastT_app prev l1 l2 : lastT prev (l1 ++ l2) = lastT (lastT prev l1) l2.
Proof. unfold lastT. apply fold_left_app. Qed.
Lemma chain_app : forall l1 prev l2, chain prev (l1 ++ l2) <-> chain prev l1 /\ chain (lastT prev l1) l2.
Proof.
  induction l1 as [|t l1 IH]; intros prev l2; cbn [app chain].
  - cbn. tauto.
  - rewrite IH. cbn [lastT fold_left]. unfold lastT. tauto.
Qed.

Lemma quietT_snoc tr e b : quietT tr -> quietT (tr ++ [(e, Replace b)]).
Proof. intros Hq. apply Forall_app. split; [exact Hq|]. constructor; [exists b; reflexivity|constructor]. Qed.
Lemma failedT_snoc tr e c : quietT tr -> failedT c (tr ++ [(e, Fail c)]).
Proof. intros Hq. exists tr, e. split; [reflexivity|exact Hq]. Qed.
Lemma starts_app c t x : starts c t -> starts c (t ++ x).
Proof. intros (a & rest & ->). exists a, (rest ++ x). reflexivity. Qed.

(** the handler about to be offered [e]: either it has been offered its
    predecessor's error before, or it has not been asked yet and [e] is the
    predecessor's error *)
Definition pend (prev : option trace) (e : err) (t : trace) : Prop :=
  match prev with
  | None => True
  | Some p => adj2 p t \/ (t = [] /\ exists c, failedT c p /\ e = ECode c)
  end.
Lemma pend_asked prev e t a : pend prev e t ->
  match prev with None => True | Some p => adj2 p (t ++ [(e, a)]) end.
Proof.
  destruct prev as [p|]; [|auto]. intros [(c & Hf & Hs)|(-> & c & Hf & ->)].
  - exists c. split; [exact Hf|apply starts_app; exact Hs].
  - exists c. split; [exact Hf|]. exists a, []. reflexivity.
Qed.

(** * Ghost annotation of the handlers of a world *)
Record ghost := mkG { g_ans : list answer; g_h : hst; g_tr : trace }.
Definition gvalid (g : ghost) : Prop :=
  hrun (g_ans g) (g_h g) (g_tr g) /\ (quietT (g_tr g) \/ exists c, failedT c (g_tr g)).
Definition hs (G : list ghost) := map g_h G.
Definition trs (G : list ghost) := map g_tr G.
Definition scr (G : list ghost) := map g_ans G.
Definition gdone (g : ghost) : ghost := mkG (g_ans g) (done (g_h g)) (g_tr g).

Lemma gdone_valid g : gvalid g -> gvalid (gdone g).
Proof. intros [Hr Hq]. split; [apply hr_done; exact Hr|exact Hq]. Qed.
Lemma hs_gdone G : hs (map gdone G) = map done (hs G).
Proof. unfold hs. rewrite !map_map. reflexivity. Qed.
Lemma trs_gdone G : trs (map gdone G) = trs G.
Proof. unfold trs. rewrite map_map. reflexivity. Qed.
Lemma scr_gdone G : scr (map gdone G) = scr G.
Proof. unfold scr. rewrite map_map. reflexivity. Qed.
Lemma Forall_gdone G : Forall gvalid G -> Forall gvalid (map gdone G).
Proof. induction 1; cbn; constructor; auto using gdone_valid. Qed.

(** the active levels: the lowest one has not failed, the others have not been asked *)
Definition live_chain (prev : option trace) (l : list trace) : Prop :=
  match l with
  | [] => True
  | t :: rest =>
      quietT t /\ (match prev with None => True | Some p => adj2 p t end) /\ Forall (fun t' => t' = []) rest
  end.
Lemma chain_empties : forall rest t, quietT t -> Forall (fun t' : trace => t' = []) rest -> chain (Some t) rest.
Proof.
  induction rest as [|t' rest IH]; intros t Hq Hall; cbn [chain]; [exact I|].
  inversion Hall as [|x l Hx Hr]; subst. split; [left; split; [exact Hq|reflexivity]|].
  apply IH; [constructor|exact Hr].
Qed.
Lemma live_chain_chain prev l : live_chain prev l -> chain prev l.
Proof.
  destruct l as [|t rest]; cbn [live_chain chain]; [auto|]. intros (Hq & Hp & Hall). split.
  - destruct prev; [right; exact Hp|exact I].
  - apply chain_empties; assumption.
Qed.

Lemma escalate_live : forall G prev e r passed act',
  escalate e (hs G) = (r, passed, act') ->
  Forall gvalid G ->
  match G with
  | [] => True
  | g :: rest => quietT (g_tr g) /\ pend prev e (g_tr g) /\ Forall (fun g' => g_tr g' = []) rest
  end ->
  exists Gp Ga, hs Gp = passed /\ hs Ga = act' /\ Forall gvalid (Gp ++ Ga) /\ chain prev (trs Gp) /\
    match fst r with
    | Some _ => scr (Gp ++ Ga) = scr G /\ live_chain (lastT prev (trs Gp)) (trs Ga)
    | None => Ga = [] /\ scr Gp = scr G
    end.
Proof.
  induction G as [|g rest IH]; intros prev e r passed act' He Hv Hpre; cbn [hs map escalate] in He.
  - inv He. exists [], []. cbn. rsplit; auto.
  - destruct Hpre as (Hq & Hpend & Hemp). inversion Hv as [|x l [Hrun Hst] Hvr]; subst.
    pose proof (hr_ask _ _ _ e Hrun) as Hask. pose proof (pend_asked _ _ _ (fst (on_error (g_h g) e)) Hpend) as Hadj.
    destruct (on_error (g_h g) e) as [a h'] eqn:Ho. cbn [fst snd] in Hask, Hadj.
    set (g' := mkG (g_ans g) h' (g_tr g ++ [(e, a)])).
    destruct a as [b|c].
    + inv He. exists [], (g' :: rest). cbn [hs map app trs fst chain lastT fold_left live_chain scr g_h g_tr g_ans g'].
      rsplit; auto.
      * constructor; [|exact Hvr]. split; [exact Hask|left; apply quietT_snoc; exact Hq].
      * apply quietT_snoc; exact Hq.
      * clear -Hemp. induction Hemp; cbn; constructor; auto.
    + destruct (escalate (ECode c) (map g_h rest)) as [[r0 p] a'] eqn:Hr. inv He.
      assert (Hf : failedT c (g_tr g')) by (apply failedT_snoc; exact Hq).
      destruct (IH (Some (g_tr g')) (ECode c) _ _ _ Hr Hvr) as (Gp & Ga & Hhp & Hha & Hval & Hch & Hm).
      { destruct rest as [|g2 rest2]; [exact I|]. inversion Hemp as [|x l H2 Hr2]; subst.
        rewrite H2. rsplit; [constructor| |exact Hr2].
        right. split; [reflexivity|]. exists c. split; [exact Hf|reflexivity]. }
      exists (g' :: Gp), Ga. cbn [hs map app trs chain g_h g_tr].
      rsplit; auto.
      * unfold hs in Hhp. rewrite Hhp. reflexivity.
      * constructor; [|exact Hval]. split; [exact Hask|right; exists c; exact Hf].
      * destruct prev; [right; exact Hadj|exact I].
      * destruct (fst r).
        -- destruct Hm as (Hs & Hl). split; [cbn [scr map app g_ans g'] in *; unfold scr in Hs; rewrite Hs; reflexivity|].
           cbn [lastT fold_left]. exact Hl.
        -- destruct Hm as (-> & Hs). split; [reflexivity|]. cbn [scr map g_ans g'] in *. unfold scr in Hs. rewrite Hs. reflexivity.
Qed.

Lemma escalate_none_err : forall act e e' passed act',
  escalate e act = ((None, e'), passed, act') -> e' = e \/ exists c, e' = ECode c.
Proof.
  induction act as [|h rest IH]; intros e e' passed act' He; cbn [escalate] in He.
  - inv He. left. reflexivity.
  - destruct (on_error h e) as [a h']. destruct a as [b|c]; [inv He|].
    destruct (escalate (ECode c) rest) as [[r p] a'] eqn:Hr. inv He.
    destruct (IH _ _ _ _ Hr) as [->|Hx]; right; [exists c; reflexivity|exact Hx].
Qed.

(** * The world: live (a further error can be offered) / dead (the outermost
    handler has answered with an error, or everything is finished) *)
Definition liveW (S : list (list answer)) (w : world) : Prop :=
  exists Gdn Gact, hs Gdn = w_dn w /\ hs Gact = w_act w /\ scr (Gdn ++ Gact) = S /\
    Forall gvalid (Gdn ++ Gact) /\ chain None (trs Gdn) /\ live_chain (lastT None (trs Gdn)) (trs Gact).
Definition deadW (S : list (list answer)) (w : world) : Prop :=
  exists G, hs G = w_dn w ++ w_act w /\ scr G = S /\ Forall gvalid G /\ chain None (trs G).

Lemma live_dead S w : liveW S w -> deadW S w.
Proof.
  intros (Gdn & Gact & Hd & Ha & Hs & Hv & Hc & Hl). exists (Gdn ++ Gact). rsplit; auto.
  - unfold hs in *. rewrite map_app, Hd, Ha. reflexivity.
  - unfold trs. rewrite map_app. apply chain_app. split; [exact Hc|apply live_chain_chain; exact Hl].
Qed.

Lemma live_escalate S w e r passed act' :
  escalate e (w_act w) = (r, passed, act') -> liveW S w ->
  match fst r with
  | Some _ => forall c, liveW S (after_replace w passed act' c)
  | None => deadW S (after_failure w passed)
  end.
Proof.
  intros He (Gdn & Gact & Hd & Ha & Hs & Hv & Hc & Hl).
  rewrite <- Ha in He. apply Forall_app in Hv. destruct Hv as [Hvd Hva].
  destruct (escalate_live Gact (lastT None (trs Gdn)) e _ _ _ He Hva) as (Gp & Ga & Hhp & Hha & Hval & Hch & Hm).
  { destruct Gact as [|g rest]; [exact I|]. cbn [trs map live_chain] in Hl. destruct Hl as (Hq & Hp & Hemp).
    rsplit; [exact Hq| |].
    - destruct (lastT None (trs Gdn)); [left; exact Hp|exact I].
    - clear -Hemp. apply Forall_map in Hemp. exact Hemp. }
  apply Forall_app in Hval. destruct Hval as [Hvp Hvga].
  destruct (fst r).
  - destruct Hm as (Hscr & Hlive). intros c.
    exists (Gdn ++ map gdone Gp), Ga. cbn [after_replace w_dn w_act]. rsplit.
    + unfold hs. rewrite map_app. fold (hs Gdn). fold (hs (map gdone Gp)). rewrite hs_gdone, Hd, Hhp. reflexivity.
    + exact Hha.
    + rewrite <- Hs. unfold scr in *. rewrite !map_app in *. rewrite map_map. rewrite <- Hscr, app_assoc. reflexivity.
    + apply Forall_app. split; [apply Forall_app; split; [exact Hvd|apply Forall_gdone; exact Hvp]|exact Hvga].
    + unfold trs. rewrite map_app. fold (trs Gdn). fold (trs (map gdone Gp)). rewrite trs_gdone.
      apply chain_app. split; assumption.
    + unfold trs. rewrite map_app. fold (trs Gdn). fold (trs (map gdone Gp)). rewrite trs_gdone, lastT_app. exact Hlive.
  - destruct Hm as (-> & Hscr). exists (Gdn ++ Gp). cbn [after_failure w_dn w_act]. rsplit.
    + unfold hs. rewrite map_app. fold (hs Gdn). fold (hs Gp). rewrite Hd, Hhp. reflexivity.
    + rewrite <- Hs. unfold scr in *. rewrite !map_app, Hscr. reflexivity.
    + apply Forall_app. split; assumption.
    + unfold trs. rewrite map_app. apply chain_app. split; assumption.
Qed.

Lemma dead_all_done S w : deadW S w -> deadW S (all_done w).
Proof.
  intros (G & Hh & Hs & Hv & Hc). unfold all_done.
  (* split G according to w_dn / w_act *)
  exists (firstn (length (w_dn w)) G ++ map gdone (skipn (length (w_dn w)) G)).
  assert (Hsplit : G = firstn (length (w_dn w)) G ++ skipn (length (w_dn w)) G) by (symmetry; apply firstn_skipn).
  assert (Hf : hs (firstn (length (w_dn w)) G) = w_dn w).
  { unfold hs in *. rewrite <- firstn_map, Hh, firstn_app, Nat.sub_diag, firstn_all. cbn. apply app_nil_r. }
  assert (Hk : hs (skipn (length (w_dn w)) G) = w_act w).
  { unfold hs in *. rewrite <- skipn_map, Hh, skipn_app, Nat.sub_diag, skipn_all. reflexivity. }
  cbn [w_dn w_act]. rewrite app_nil_r. rsplit.
  - unfold hs. rewrite map_app. fold (hs (firstn (length (w_dn w)) G)).
    fold (hs (map gdone (skipn (length (w_dn w)) G))). rewrite hs_gdone, Hf, Hk. reflexivity.
  - rewrite <- Hs. rewrite Hsplit at 3. unfold scr. rewrite !map_app. fold (scr (map gdone (skipn (length (w_dn w)) G))).
    rewrite scr_gdone. reflexivity.
  - rewrite Hsplit in Hv. apply Forall_app in Hv. destruct Hv as [H1 H2].
    apply Forall_app. split; [exact H1|apply Forall_gdone; exact H2].
  - rewrite Hsplit in Hc. unfold trs in *. rewrite map_app in *. fold (trs (map gdone (skipn (length (w_dn w)) G))).
    rewrite trs_gdone. exact Hc.
Qed.
Lemma dead_retire S w c : deadW S w -> deadW S (retire w c).
Proof. intros H. exact H. Qed.
Lemma live_retire S w c : liveW S w -> liveW S (retire w c).
Proof. intros H. exact H. Qed.

(** * The nested readers *)
Definition ok_err (e : err) : Prop := e = ENone \/ e = EEof.

Lemma sch_read_two S ifuel max : forall f r c e r',
  sch_read ifuel f max r = ((c, e), r') -> liveW S (sc_w r) ->
  deadW S (sc_w r') /\ (ok_err e -> liveW S (sc_w r')).
Proof.
  induction f as [|f IH]; intros r c e r' Hr Hl; cbn [sch_read] in Hr.
  - inv Hr. split; [apply live_dead; exact Hl|]. intros [Hx|Hx]; discriminate.
  - destruct (ucr_read ifuel max (sc_cur r)) as [[chunk t] cur'] eqn:Hrd.
    assert (Hother : t <> ENone -> t <> EEof ->
      (let '(ob, e', passed, act') := escalate t (w_act (sc_w r)) in
       match ob with
       | None => (([], e'), mkSch cur' (sc_off r) (after_failure (sc_w r) passed))
       | Some b =>
           sch_read ifuel f max
             (mkSch (ucr_open ifuel b (sc_off r)) (sc_off r)
                    (after_replace (sc_w r) passed act' (ucr_closes (ucr_close cur'))))
       end) = ((c, e), r') -> deadW S (sc_w r') /\ (ok_err e -> liveW S (sc_w r'))).
    { intros Hn1 Hn2. destruct (escalate t (w_act (sc_w r))) as [[[ob e'] passed] act'] eqn:He.
      pose proof (live_escalate S _ _ _ _ _ He Hl) as Hx. cbn [fst] in Hx. destruct ob as [b|].
      - intros Hy. eapply IH; [exact Hy|]. cbn [sc_w]. apply Hx.
      - intros Hy. inv Hy. cbn [sc_w]. split; [exact Hx|].
        destruct (escalate_none_err _ _ _ _ _ He) as [->|(c0 & ->)]; intros [Hz|Hz]; congruence. }
    destruct t; try (inv Hr; cbn [sc_w]; split; [apply live_dead; exact Hl|intros _; exact Hl]);
      apply Hother; try congruence; exact Hr.
Qed.

Lemma shr_read_two S fuel cap r c e r' :
  shr_read fuel cap r = ((c, e), r') -> liveW S (sr_w r) ->
  deadW S (sr_w r') /\ (ok_err e -> liveW S (sr_w r')).
Proof.
  unfold shr_read. intros Hr Hl.
  destruct (urd_read fuel cap (sr_cur r)) as [[data t] cur'] eqn:Hrd.
  assert (Hother : t <> ENone -> t <> EEof ->
    (let '(ob, e', passed, act') := escalate t (w_act (sr_w r)) in
     match ob with
     | None => ((data, e'), mkShr cur' (sr_off r + lenN data) (after_failure (sr_w r) passed))
     | Some b => ((data, ENone), mkShr (urd_open fuel b (sr_off r + lenN data)) (sr_off r + lenN data)
                                      (after_replace (sr_w r) passed act' (urd_closes (urd_close cur'))))
     end) = ((c, e), r') -> deadW S (sr_w r') /\ (ok_err e -> liveW S (sr_w r'))).
  { intros Hn1 Hn2. destruct (escalate t (w_act (sr_w r))) as [[[ob e'] passed] act'] eqn:He.
    pose proof (live_escalate S _ _ _ _ _ He Hl) as Hx. cbn [fst] in Hx. destruct ob as [b|].
    - intros Hy. inv Hy. cbn [sr_w]. split; [apply live_dead; apply Hx|intros _; apply Hx].
    - intros Hy. inv Hy. cbn [sr_w]. split; [exact Hx|].
      destruct (escalate_none_err _ _ _ _ _ He) as [->|(c0 & ->)]; intros [Hz|Hz]; congruence. }
  destruct t; try (inv Hr; cbn [sr_w]; split; [apply live_dead; exact Hl|intros _; exact Hl]);
    apply Hother; try congruence; exact Hr.
Qed.

(** * Through the validating readers: once the underlying reader has returned an
    error (other than io.EOF) it is not read again, because the error sticks *)
Section TwoStateChunk.
  Variable S : Type.
  Variable rd : S -> (bytes * err) * S.
  Variables Live Dead : S -> Prop.
  Hypothesis live_dead_s : forall s, Live s -> Dead s.
  Hypothesis step : forall s c e s', rd s = ((c, e), s') -> Live s -> Dead s' /\ (ok_err e -> Live s').
  Variable H : bytes -> bytes.
  Variable cfg : vcfg.

  Definition vinv (st : vst S) : Prop := Dead (v_u st) /\ (v_err st = ENone -> Live (v_u st)).

  Lemma finalize_two f : forall st e st',
    finalize_loop H cfg rd f st = (e, st') -> Live (v_u st) -> Dead (v_u st') /\ e <> ENone.
  Proof.
    induction f as [|f IH]; intros st e st' Hf Hp; cbn [finalize_loop] in Hf.
    - inv Hf. split; [auto|discriminate].
    - destruct (rd (v_u st)) as [[c e0] u'] eqn:Hr. destruct (step _ _ _ _ Hr Hp) as [Hd Hl].
      destruct e0; cbn in Hf.
      + destruct (v_rem st <? lenN c); [inv Hf; split; [exact Hd|discriminate]|].
        apply IH in Hf; [exact Hf|apply Hl; left; reflexivity].
      + destruct (bytes_eqb _ _); inv Hf; (split; [exact Hd|discriminate]).
      + inv Hf. split; [exact Hd|discriminate].
      + inv Hf. split; [exact Hd|discriminate].
      + inv Hf. split; [exact Hd|discriminate].
  Qed.
  Lemma maybe_finalize_two f st e st' :
    maybe_finalize H cfg rd f st = (e, st') -> Live (v_u st) ->
    Dead (v_u st') /\ (e = ENone -> Live (v_u st')).
  Proof.
    unfold maybe_finalize. destruct (0 <? v_rem st).
    - intros E Hp. inv E. split; auto.
    - intros E Hp. destruct (finalize_two _ _ _ _ E Hp) as [Hd Hne]. split; [exact Hd|contradiction].
  Qed.
  Lemma vcr_read_two f st r st' : vcr_read H cfg rd f st = (r, st') -> vinv st -> vinv st'.
  Proof.
    unfold vcr_read, vcr_do_read, vinv. intros Hr [Hd Hl].
    destruct (v_err st) eqn:Eerr; try (inv Hr; split; [exact Hd|rewrite Eerr; discriminate]).
    specialize (Hl eq_refl).
    destruct (maybe_finalize H cfg rd f st) as [e0 st0] eqn:Hm.
    destruct (maybe_finalize_two _ _ _ _ Hm Hl) as [Hd0 Hl0].
    destruct e0; try (inv Hr; cbn; split; [exact Hd0|discriminate]).
    specialize (Hl0 eq_refl).
    destruct (rd (v_u st0)) as [[c e1] u'] eqn:Hrd. destruct (step _ _ _ _ Hrd Hl0) as [Hd1 Hl1].
    destruct e1; cbn in Hr; try (inv Hr; cbn; split; [exact Hd1|discriminate]).
    destruct (v_rem st0 <? lenN c); cbn in Hr; [inv Hr; cbn; split; [exact Hd1|discriminate]|].
    match type of Hr with context [maybe_finalize H cfg rd f ?s] =>
      destruct (maybe_finalize H cfg rd f s) as [e2 st2] eqn:Hm2;
      destruct (maybe_finalize_two _ _ _ _ Hm2 (Hl1 (or_introl eq_refl))) as [Hd2 Hl2] end.
    destruct e2; inv Hr; cbn; (split; [exact Hd2|try discriminate; intros _; apply Hl2; reflexivity]).
  Qed.
End TwoStateChunk.

Section TwoStateReader.
  Variable S : Type.
  Variable rd : N -> S -> (bytes * err) * S.
  Variables Live Dead : S -> Prop.
  Hypothesis live_dead_s : forall s, Live s -> Dead s.
  Hypothesis step : forall cap s c e s', rd cap s = ((c, e), s') -> Live s -> Dead s' /\ (ok_err e -> Live s').
  Variable H : bytes -> bytes.
  Variable cfg : vcfg.

  Lemma read_full_loop_two fuel : forall want got s r s',
    read_full_loop rd fuel want got s = (r, s') -> Live s -> Dead s'.
  Proof.
    induction fuel as [|f IH]; intros want got s r s' Hd Hp; cbn in Hd; destruct (want <=? lenN got);
      try (inv Hd; auto; fail).
    destruct (rd (want - lenN got) s) as [[c e] s1] eqn:Hr. destruct (step _ _ _ _ _ Hr Hp) as [Hd1 Hl1].
    destruct e; try (destruct (want <=? lenN (got ++ c)); inv Hd; exact Hd1).
    eapply IH; [exact Hd|apply Hl1; left; reflexivity].
  Qed.

  Definition vinvr (st : vst S) : Prop := Dead (v_u st) /\ (v_err st = ENone -> Live (v_u st)).

  Lemma vr_read_two f cap st r st' : vr_read H cfg rd f cap st = (r, st') -> vinvr st -> vinvr st'.
  Proof.
    unfold vr_read, vr_do_read, vinvr. intros Hr [Hd Hl].
    destruct (v_err st) eqn:Eerr; try (inv Hr; split; [exact Hd|rewrite Eerr; discriminate]).
    specialize (Hl eq_refl).
    destruct (rd cap (v_u st)) as [[data re] u'] eqn:Hrd. destruct (step _ _ _ _ _ Hrd Hl) as [Hd1 Hl1].
    cbn [v_set_u v_rem v_u v_acc v_err v_cbs] in Hr.
    destruct (v_rem st <? lenN data); [cbn in Hr; inv Hr; cbn; split; [exact Hd1|discriminate]|].
    destruct re; cbn [v_rem v_u] in Hr.
    - destruct (v_rem st - lenN data =? 0).
      + destruct (read_full rd f 1 u') as [[fin fe] u''] eqn:Hrf.
        unfold read_full in Hrf. apply read_full_loop_two in Hrf; [|apply Hl1; left; reflexivity].
        assert (Hfin : forall st1 : vst S, v_u st1 = u'' ->
          (let '(data0, e, st2) :=
             (if v_rem st1 <? lenN fin then let '(e', st3) := v_fail cfg st1 in (([], e'), st3)
              else let '(e', st3) := vr_compare H cfg st1 in
                   match e' with
                   | ENone => ((data, EEof), v_notify st3 true)
                   | _ => (([], e'), st3)
                   end) in ((data0, e), v_set_err st2 e)) = (r, st') ->
          Dead (v_u st') /\ (v_err st' = ENone -> Live (v_u st'))).
        { intros st1 Hu Hx. destruct (v_rem st1 <? lenN fin); cbn in Hx.
          - inv Hx. cbn. split; [exact Hrf|discriminate].
          - unfold vr_compare in Hx. destruct (bytes_eqb _ _); cbn in Hx; inv Hx; cbn; (split; [exact Hrf|discriminate]). }
        destruct fe; try (eapply Hfin; [|exact Hr]; reflexivity);
          (cbn in Hr; inv Hr; cbn; split; [exact Hrf|discriminate]).
      + inv Hr. cbn. split; [exact Hd1|intros _; apply Hl1; left; reflexivity].
    - cbn in Hr. destruct (negb _); cbn in Hr; [inv Hr; cbn; split; [exact Hd1|discriminate]|].
      unfold vr_compare in Hr. cbn in Hr. destruct (bytes_eqb _ _); cbn in Hr; inv Hr; cbn; (split; [exact Hd1|discriminate]).
    - inv Hr. cbn. split; [exact Hd1|discriminate].
    - inv Hr. cbn. split; [exact Hd1|discriminate].
    - inv Hr. cbn. split; [exact Hd1|discriminate].
  Qed.
End TwoStateReader.

(** * The outcome of a run *)
Definition ruled (S : list (list answer)) (logs : list (list hev)) : Prop :=
  exists G, scr G = S /\ map (fun g => h_log (g_h g)) G = logs /\ Forall gvalid G /\ chain None (trs G).

Lemma dead_ruled S w : deadW S w -> ruled S (logs_of w).
Proof.
  intros (G & Hh & Hs & Hv & Hc). exists G. rsplit; auto.
  unfold logs_of. rewrite <- Hh. unfold hs. rewrite map_map. reflexivity.
Qed.

Definition liveS S (r : sch) := liveW S (sc_w r).
Definition deadS S (r : sch) := deadW S (sc_w r).
Definition liveR S (r : shr) := liveW S (sr_w r).
Definition deadR S (r : shr) := deadW S (sr_w r).

Section RuleProofs.
  Variable H : bytes -> bytes.
  Variable cfg : vcfg.
  Variable fuel : nat.

  Lemma try_stack_rule S : forall n m b w cbs d0 e cbs' w',
    try_stack H cfg fuel n m b w cbs = (d0, e, cbs', w') -> liveW S w -> deadW S w'.
  Proof.
    induction n as [|n IH]; intros m b w cbs d0 e cbs' w' Ht Hl; cbn [try_stack] in Ht;
      set (o := plain H cfg fuel b m) in *; set (w1 := retire w (closes_of b o)) in *;
      assert (Hl1 : liveW S w1) by exact Hl.
    - destruct (o_err o) eqn:Ee; try (inv Ht; apply dead_all_done, live_dead; exact Hl1);
        (destruct (escalate (o_err o) (w_act w1)) as [[[ob e'] passed] act'] eqn:He; rewrite Ee in He;
         pose proof (live_escalate S _ _ _ _ _ He Hl1) as Hx; cbn [fst] in Hx; rewrite He in Ht;
         destruct ob; inv Ht; [apply live_dead; exact Hl1|apply dead_all_done; exact Hx]).
    - destruct (o_err o) eqn:Ee; try (inv Ht; apply dead_all_done, live_dead; exact Hl1);
        (destruct (escalate (o_err o) (w_act w1)) as [[[ob e'] passed] act'] eqn:He; rewrite Ee in He;
         pose proof (live_escalate S _ _ _ _ _ He Hl1) as Hx; cbn [fst] in Hx; rewrite He in Ht;
         destruct ob; [eapply IH; [exact Ht|apply Hx]|inv Ht; apply dead_all_done; exact Hx]).
  Qed.

  Definition p0 S (st : shv) : Prop := vinv _ (liveS S) (deadS S) st.
  Definition p1 S (st : shv) : Prop := deadS S (v_u st).

  Lemma shv_read_rule S max s r s' : shv_read H cfg fuel max s = (r, s') -> p0 S s -> p0 S s'.
  Proof.
    unfold shv_read, p0. apply (vcr_read_two _ _ (liveS S) (deadS S)).
    - intros s0. apply live_dead.
    - intros s0 c e s0' Hr Hl. unfold liveS, deadS in *. eapply sch_read_two; eassumption.
  Qed.
  Lemma shv_close_rule S st : p0 S st -> p1 S (shv_close st).
  Proof.
    intros [Hd _]. unfold p1, deadS, shv_close, sch_close in *. cbn. apply dead_all_done. exact Hd.
  Qed.
  Lemma shrv_read_rule S cap s r s' :
    shrv_read H cfg fuel cap s = (r, s') -> vinvr _ (liveR S) (deadR S) s -> vinvr _ (liveR S) (deadR S) s'.
  Proof.
    unfold shrv_read. apply (vr_read_two _ _ (liveR S) (deadR S)).
    - intros s0. apply live_dead.
    - intros cap0 s0 c e s0' Hr Hl. unfold liveR, deadR in *. eapply shr_read_two; eassumption.
  Qed.

  Lemma ehs_method_rule S b w m : liveW S w -> ruled S (y_logs (ehs_method H cfg fuel b w m)).
  Proof.
    intros Hl.
    assert (Hs0 : p0 S (vinit cfg (sch_init fuel b w))).
    { split; [apply live_dead; exact Hl|intros _; exact Hl]. }
    assert (Hr0 : vinvr _ (liveR S) (deadR S) (vinit cfg (shr_init fuel b w))).
    { split; [apply live_dead; exact Hl|intros _; exact Hl]. }
    pose proof (shv_close_rule S) as Hcl.
    assert (Hdis : deadW S (discarded H cfg fuel b w)).
    { unfold discarded. apply dead_retire, dead_all_done, live_dead. exact Hl. }
    destruct m; cbn [ehs_method].
    - destruct (try_stack _ _ _ _ _ _ _ _) as [[[d0 e] cbs] w'] eqn:Ht. cbn [y_logs].
      apply dead_ruled. eapply try_stack_rule; eassumption.
    - destruct (into_writer_cr _ _ fuel _) as [[out e] st] eqn:Ht. cbn [y_logs]. apply dead_ruled.
      eapply (into_writer_cr_ok _ _ _ (p0 S) (p1 S) (fun s r s' => shv_read_rule S _ s r s') Hcl) in Ht;
        [exact Ht|exact Hs0].
    - destruct (try_stack _ _ _ _ _ _ _ _) as [[[d0 e] cbs] w'] eqn:Ht. cbn [y_logs].
      apply dead_ruled. eapply try_stack_rule; eassumption.
    - destruct (valid_offset (g_size cfg) off).
      + assert (Hrd : forall s r s', shv_read H cfg fuel max s = (r, s') -> p0 S s -> p0 S s')
          by (intros s r s'; apply shv_read_rule).
        pose proof (offset_init_ok _ _ (shv_close) (p0 S) (p1 S) Hrd Hcl fuel off (vinit cfg (sch_init fuel b w)) Hs0) as Hi.
        assert (Hor := offset_read_ok _ (shv_read H cfg fuel max) (p0 S) (p1 S) Hrd).
        destruct (drain _ fuel [] _) as [[out e] o] eqn:Hd.
        eapply (drain_pres _ _ (ost_ok (p0 S) (p1 S)) Hor) in Hd; [|exact Hi].
        destruct (extra_reads _ extra o) as [ex o2] eqn:He.
        eapply (extra_reads_pres _ _ (ost_ok (p0 S) (p1 S)) Hor) in He; [|exact Hd].
        cbn [y_logs]. apply dead_ruled.
        apply (offset_close_ok _ shv_close (p0 S) (p1 S) Hcl). exact He.
      + cbn [y_logs]. apply dead_ruled. exact Hdis.
    - destruct (rconsume _ fuel caps _ [] _) as [[out e] st] eqn:Hc.
      assert (Hrd : forall cap s r s', shrv_read H cfg fuel cap s = (r, s') ->
                      vinvr _ (liveR S) (deadR S) s -> vinvr _ (liveR S) (deadR S) s')
        by (intros cap s r s'; apply shrv_read_rule).
      eapply (rconsume_pres _ _ (vinvr _ (liveR S) (deadR S)) Hrd) in Hc; [|exact Hr0].
      destruct (rextra _ extra _ st) as [ex st2] eqn:He.
      eapply (rextra_pres _ _ (vinvr _ (liveR S) (deadR S)) Hrd) in He; [|exact Hc].
      cbn [y_logs]. apply dead_ruled. cbn. destruct He as [Hd _]. apply dead_all_done. exact Hd.
    - destruct (try_stack _ _ _ _ _ _ _ _) as [[[d0 e] cbs] w'] eqn:Ht.
      assert (Hp : deadW S w') by (eapply try_stack_rule; eassumption).
      destruct e; cbn [y_logs]; apply dead_ruled; exact Hp.
    - cbn [y_logs]. apply dead_ruled. exact Hdis.
  Qed.
End RuleProofs.

(** * Construction: the handlers applied one after the other *)
Definition KS (prev : option trace) (b : bufscript) : Prop :=
  match prev with
  | None => True
  | Some p => (quietT p /\ exists d, b = BBytes d) \/ (exists c, failedT c p /\ b = BError c)
  end.

Lemma hrun_ask ans h tr e a h' : hrun ans h tr -> on_error h e = (a, h') -> hrun ans h' (tr ++ [(e, a)]).
Proof. intros Hr Ho. pose proof (hr_ask _ _ _ e Hr) as Hx. rewrite Ho in Hx. exact Hx. Qed.

Lemma weh_ghost : forall n b h r h' ans tr,
  with_error_handler n b h = (r, h') -> (length (h_answers h) < n)%nat -> hrun ans h tr -> quietT tr ->
  exists new, hrun ans h' (tr ++ new) /\
    (forall c, b = BError c -> starts c new) /\ ((forall c, b <> BError c) -> new = []) /\
    match r with
    | inl b1 => quietT (tr ++ new) /\ (forall d, b <> BBytes d)
    | inr b1 => (quietT (tr ++ new) /\ exists d, b1 = BBytes d) \/ (exists c', failedT c' (tr ++ new) /\ b1 = BError c')
    end.
Proof.
  induction n as [|n IH]; intros b h r h' ans tr Hw Hlen Hrun Hq; [lia|].
  destruct b as [evs|evs a|d|c]; cbn [with_error_handler] in Hw.
  - inv Hw. exists []. rewrite app_nil_r. rsplit; auto; try discriminate; try (intros c Hc; discriminate).
  - inv Hw. exists []. rewrite app_nil_r. rsplit; auto; try discriminate; try (intros c Hc; discriminate).
  - inv Hw. exists []. rewrite app_nil_r. rsplit; auto.
    + apply hr_done. exact Hrun.
    + intros c Hc; discriminate.
    + left. split; [exact Hq|exists d; reflexivity].
  - destruct (on_error h (ECode c)) as [a h1] eqn:Ho. pose proof (hrun_ask _ _ _ _ _ _ Hrun Ho) as Hrun1.
    destruct a as [b'|c'].
    + pose proof (on_error_len_replace _ _ _ _ Ho) as Hl1.
      destruct (IH b' h1 r h' ans _ Hw ltac:(lia) Hrun1 (quietT_snoc _ _ _ Hq)) as (new1 & Hr1 & _ & _ & Hm).
      exists ((ECode c, Replace b') :: new1).
      replace (tr ++ (ECode c, Replace b') :: new1) with ((tr ++ [(ECode c, Replace b')]) ++ new1)
        by (rewrite <- app_assoc; reflexivity).
      rsplit; auto.
      * intros c0 Hc0. inv Hc0. exists (Replace b'), new1. reflexivity.
      * intros Hne. exfalso. apply (Hne c). reflexivity.
      * destruct r; [|exact Hm]. destruct Hm as [Hm _]. split; [exact Hm|discriminate].
    + inv Hw. exists [(ECode c, Fail c')]. rsplit.
      * apply hr_done. exact Hrun1.
      * intros c0 Hc0. inv Hc0. exists (Fail c'), []. reflexivity.
      * intros Hne. exfalso. apply (Hne c). reflexivity.
      * right. exists c'. split; [apply failedT_snoc; exact Hq|reflexivity].
Qed.

Definition consW (S : list (list answer)) (b : bufscript) (w : world) : Prop :=
  exists Gdn Gact, hs Gdn = w_dn w /\ hs Gact = w_act w /\ scr (Gdn ++ Gact) = S /\
    Forall gvalid (Gdn ++ Gact) /\ chain None (trs Gdn) /\
    match Gact with
    | [] => KS (lastT None (trs Gdn)) b
    | _ :: _ => live_chain (lastT None (trs Gdn)) (trs Gact)
    end.

Section Construction.
  Variable H : bytes -> bytes.
  Variable cfg : vcfg.
  Variable fuel : nat.

  Lemma stack_handlers_rule : forall scripts b w b' w' S0,
    stack_handlers b w (map (fun a => mkHst a []) scripts) = (b', w') ->
    consW S0 b w -> consW (S0 ++ scripts) b' w'.
  Proof.
    induction scripts as [|ans rest IH]; intros b w b' w' S0 Hs Hc; cbn [map stack_handlers] in Hs.
    - inv Hs. rewrite app_nil_r. exact Hc.
    - replace (S0 ++ ans :: rest) with ((S0 ++ [ans]) ++ rest) by (rewrite <- app_assoc; reflexivity).
      destruct Hc as (Gdn & Gact & Hd & Ha & Hscr & Hv & Hch & Hm).
      set (g0 := mkG ans (mkHst ans []) []).
      assert (Hv0 : gvalid g0) by (split; [apply hr_init|left; constructor]).
      destruct (w_act w) as [|a0 arest] eqn:Eact.
      + destruct Gact as [|gx Gx]; [|discriminate].
        rewrite app_nil_r in *.
        destruct (with_error_handler _ b (mkHst ans [])) as [r h'] eqn:Hweh.
        destruct (weh_ghost _ _ _ _ _ ans [] Hweh ltac:(cbn; lia) (hr_init ans) (Forall_nil _))
          as (new & Hrun & Hst & Hemp & Hres).
        cbn [app] in Hrun, Hres.
        set (g' := mkG ans h' new).
        assert (Hpc : pc (lastT None (trs Gdn)) new).
        { destruct (lastT None (trs Gdn)) as [p|]; [|exact I]. cbn [pc KS] in *.
          destruct Hm as [(Hq & d & ->)|(c & Hf & ->)].
          - left. split; [exact Hq|]. apply Hemp. intros c Hc. discriminate.
          - right. exists c. split; [exact Hf|apply Hst; reflexivity]. }
        destruct r as [b1|b1]; (eapply IH; [exact Hs|]).
        * destruct Hres as (Hq & Hnb).
          exists Gdn, [g']. cbn [w_dn w_act hs map trs live_chain g_h g_tr g']. rsplit; auto.
          -- unfold scr in *. rewrite map_app, Hscr. reflexivity.
          -- apply Forall_app. split; [exact Hv|constructor; [|constructor]]. split; [exact Hrun|left; exact Hq].
          -- destruct (lastT None (trs Gdn)) as [p|]; [|exact I]. cbn [KS] in Hm.
             destruct Hm as [(_ & d & ->)|(c & Hf & ->)]; [exfalso; eapply Hnb; reflexivity|].
             exists c. split; [exact Hf|apply Hst; reflexivity].
        * exists (Gdn ++ [g']), []. rewrite app_nil_r. cbn [w_dn w_act]. rsplit; auto.
          -- unfold hs in *. rewrite map_app, Hd. reflexivity.
          -- unfold scr in *. rewrite map_app, Hscr. reflexivity.
          -- apply Forall_app. split; [exact Hv|constructor; [|constructor]]. split; [exact Hrun|].
             destruct Hres as [(Hq & _)|(c' & Hf & _)]; [left; exact Hq|right; exists c'; exact Hf].
          -- unfold trs. rewrite map_app. apply chain_app. split; [exact Hch|]. cbn. split; [exact Hpc|exact I].
          -- unfold trs. rewrite map_app, lastT_app. cbn [map lastT fold_left g_tr g' KS]. exact Hres.
      + destruct Gact as [|gx Gx]; [discriminate|].
        eapply IH; [exact Hs|]. exists Gdn, ((gx :: Gx) ++ [g0]). cbn [w_dn w_act]. rsplit; auto.
        * unfold hs in *. rewrite map_app, Ha. reflexivity.
        * unfold scr in *. rewrite app_assoc, map_app, Hscr. reflexivity.
        * rewrite app_assoc. apply Forall_app. split; [exact Hv|constructor; [exact Hv0|constructor]].
        * cbn [app trs map live_chain] in *. destruct Hm as (Hq & Hp & He). rsplit; auto.
          rewrite map_app. apply Forall_app. split; [exact He|constructor; [reflexivity|constructor]].
  Qed.

  Theorem run_stack_ruled b0 anss m : ruled anss (y_logs (run_stack H cfg fuel b0 anss m)).
  Proof.
    unfold run_stack.
    destruct (stack_handlers b0 _ _) as [b w] eqn:Hs.
    apply (stack_handlers_rule _ _ _ _ _ []) in Hs.
    - cbn [app] in Hs. destruct Hs as (Gdn & Gact & Hd & Ha & Hscr & Hv & Hch & Hm).
      destruct (w_act w) as [|a0 arest] eqn:Eact.
      + destruct Gact as [|gx Gx]; [|discriminate]. rewrite app_nil_r in *.
        cbn [y_logs]. exists Gdn. rsplit; auto.
        unfold logs_of. rewrite Eact, app_nil_r, <- Hd. unfold hs. rewrite map_map. reflexivity.
      + destruct Gact as [|gx Gx]; [discriminate|].
        apply ehs_method_rule. exists Gdn, (gx :: Gx). rewrite Eact. rsplit; auto.
    - exists [], []. cbn. rsplit; auto.
  Qed.
End Construction.

(** the errors of a trace are exactly the OnError calls of the handler's log, in order *)
Definition onerrors (log : list hev) : list err :=
  flat_map (fun x => match x with HOnError e => [e] | HDone => [] end) log.
Lemma hrun_log ans h tr : hrun ans h tr -> onerrors (h_log h) = map fst tr.
Proof.
  induction 1 as [|h tr e _ IH|h tr _ IH].
  - reflexivity.
  - rewrite on_error_log. unfold onerrors in *. rewrite flat_map_app, IH, map_app. reflexivity.
  - cbn [done h_log]. unfold onerrors in *. rewrite flat_map_app, IH. cbn. apply app_nil_r.
Qed.
(** a handler that has answered with an error was not asked again: every answer but the last is a replacement *)
Lemma Forall_removelast {A} (P : A -> Prop) : forall l, Forall P l -> Forall P (removelast l).
Proof.
  induction l as [|x l IH]; intros Hq; [constructor|]. inversion Hq; subst.
  destruct l; [constructor|]. cbn [removelast]. constructor; [assumption|]. apply IH. assumption.
Qed.
Lemma gvalid_not_asked_again g : gvalid g -> Forall isrep (removelast (g_tr g)).
Proof.
  intros [_ [Hq|(c & l & e & -> & Hl)]].
  - apply Forall_removelast. exact Hq.
  - rewrite removelast_last. exact Hl.
Qed.
