(** C16N — NESTED error handling: a replacement buffer supplied by an error
    handler is itself a stream-backed buffer with its own error handler
    (a read-fallback over a mirrored backend, a buffer decorated with
    metrics / existence-precondition handlers, ...).  Buffers are TREES:

      t ::= plain scripted buffer (chunk reader / reader / byte slice / error)
          | WithErrorHandler(t, h)       h's scripted answers: replacement TREES or errors

    to any depth.  The error-handling readers nest in the same way: the
    errorHandlingChunkReader of a wrapped buffer that is opened as a
    REPLACEMENT starts at the delivered offset of the reader that asked for
    it ([newErrorHandlingChunkReader(b, h, off, max)], [off > 0]) and the
    position it hands to ITS replacements must keep counting from there
    ([r.off], initialised with [off]).  C16's model (Buffer/ErrHandler.v)
    stacks handlers only around the original buffer, where every
    error-handling reader starts at offset 0.

    Definitions only; the plain buffers, validators and consumers are those of
    C09 / C16.  Out of fuel is the explicit error [EFuel]. *)
From Coq Require Import List ZArith NArith Bool.
From BBS Require Import Buffer.Source Buffer.Validate Buffer.Convert Buffer.ErrHandler.
Import ListNotations.
Open Scope N_scope.

(** * Buffer trees and handler scripts *)
Inductive nbuf :=
| NB (b : bufscript)                         (* a plain buffer *)
| NW (inner : nbuf) (ans : nanss)            (* WithErrorHandler(inner, handler with script ans) *)
with nanss :=
| ANil
| ARep (b : nbuf) (rest : nanss)             (* OnError returns a replacement buffer *)
| AFail (c : Z) (rest : nanss).              (* OnError returns an error *)

Scheme nbuf_mind := Induction for nbuf Sort Prop
  with nanss_mind := Induction for nanss Sort Prop.
Combined Scheme nbuf_nanss_ind from nbuf_mind, nanss_mind.

(** WithErrorHandler applied to a stream-backed buffer wraps it into a
    casErrorHandlingBuffer; applied to a buffer in a known state (byte slice,
    error buffer) the handler is consulted / finished at once and no wrapper
    exists (C16's [with_error_handler]).  The trees of this model wrap
    stream-backed buffers only. *)
Definition stream_leaf (b : bufscript) : bool :=
  match b with BChunk _ | BReader _ _ => true | _ => false end.
Fixpoint wrapped_ok (t : nbuf) : bool :=
  match t with
  | NB _ => true
  | NW inner ans =>
      (match inner with NB b => stream_leaf b | NW _ _ => true end) && wrapped_ok inner && wrapped_ok_ans ans
  end
with wrapped_ok_ans (a : nanss) : bool :=
  match a with
  | ANil => true
  | ARep b r => wrapped_ok b && wrapped_ok_ans r
  | AFail _ r => wrapped_ok_ans r
  end.

(** * What is observed of a run: per handler the errors it was offered, the
    number of Done() calls and the buffers it has held (the one it was applied
    to, then every replacement it returned), per plain buffer the number of
    Close() calls on its scripted source (0 for byte slices / error buffers). *)
Inductive otree :=
| OLeaf (closes : nat)
| ONode (offers : list err) (dones : nat) (kids : list otree).

(** the handler as a scripted oracle with its record *)
Record hnd := mkHnd { hn_ans : nanss; hn_off : list err; hn_done : nat; hn_dead : list otree }.
Inductive nanswer := NReplace (b : nbuf) | NFailWith (c : Z).
Definition hn_new (ans : nanss) : hnd := mkHnd ans [] 0 [].
Definition hn_on_error (h : hnd) (e : err) : nanswer * hnd :=
  let log := hn_off h ++ [e] in
  match hn_ans h with
  | ANil => (NFailWith 10, mkHnd ANil log (hn_done h) (hn_dead h))   (* no answer left: ABORTED *)
  | ARep b r => (NReplace b, mkHnd r log (hn_done h) (hn_dead h))
  | AFail c r => (NFailWith c, mkHnd r log (hn_done h) (hn_dead h))
  end.
Definition hn_finish (h : hnd) : hnd := mkHnd (hn_ans h) (hn_off h) (S (hn_done h)) (hn_dead h).
(** the buffer held so far has been given up (closed) *)
Definition hn_retire (h : hnd) (o : otree) : hnd := mkHnd (hn_ans h) (hn_off h) (hn_done h) (hn_dead h ++ [o]).
Definition hn_obs (h : hnd) (cur : list otree) : otree := ONode (hn_off h) (hn_done h) (hn_dead h ++ cur).

Definition sum_nat (l : list nat) : nat := fold_right plus O l.

(** * toUnvalidatedChunkReader(off, max) of a tree: nested errorHandlingChunkReaders *)
Inductive ncr :=
| CL (u : ucr)                                   (* the unvalidated reader of a plain buffer *)
| CE (cur : ncr) (off : N) (h : hnd).            (* errorHandlingChunkReader{r, errorHandler, off} *)

Section Nested.
  Variable ifuel : nat.     (* bounds the loops of the plain readers *)

  (** casErrorHandlingBuffer.toUnvalidatedChunkReader(off, max) =
      newErrorHandlingChunkReader(base, h, off, max):
      [r: base.toUnvalidatedChunkReader(off, max), off: off] *)
  Fixpoint nopen (t : nbuf) (off : N) : ncr :=
    match t with
    | NB b => CL (ucr_open ifuel b off)
    | NW inner ans => CE (nopen inner off) off (hn_new ans)
    end.

  (** Close(): [r.errorHandler.Done(); r.r.Close()] *)
  Fixpoint nclose (r : ncr) : ncr :=
    match r with
    | CL u => CL (ucr_close u)
    | CE cur off h => CE (nclose cur) off (hn_finish h)
    end.
  Fixpoint nobs (r : ncr) : otree :=
    match r with
    | CL u => OLeaf (sum_nat (ucr_closes u))
    | CE cur _ h => hn_obs h [nobs cur]
    end.

  (** Read(): [fuel] bounds the nesting depth plus the number of replacements
      tried within one call *)
  Fixpoint nread (fuel : nat) (max : N) (r : ncr) : (bytes * err) * ncr :=
    match fuel with
    | O => (([], EFuel), r)
    | S f =>
        match r with
        | CL u => let '(x, u') := ucr_read ifuel max u in (x, CL u')
        | CE cur off h =>
            let '((chunk, e), cur') := nread f max cur in
            match e with
            | ENone => ((chunk, ENone), CE cur' (off + lenN chunk) h)
            | EEof => (([], EEof), CE cur' off h)
            | _ =>
                let '(a, h') := hn_on_error h e in
                match a with
                | NFailWith c => (([], ECode c), CE cur' off h')
                | NReplace t' =>
                    (* r.r.Close(); r.r = b.toUnvalidatedChunkReader(r.off, max) *)
                    nread f max (CE (nopen t' off) off (hn_retire h' (nobs (nclose cur'))))
                end
            end
        end
    end.

  (** * toUnvalidatedReader(off): nested errorHandlingReaders *)
  Inductive nrd :=
  | RL (u : urd)
  | RE (cur : nrd) (off : N) (h : hnd).

  Fixpoint nropen (t : nbuf) (off : N) : nrd :=
    match t with
    | NB b => RL (urd_open ifuel b off)
    | NW inner ans => RE (nropen inner off) off (hn_new ans)
    end.
  Fixpoint nrclose (r : nrd) : nrd :=
    match r with
    | RL u => RL (urd_close u)
    | RE cur off h => RE (nrclose cur) off (hn_finish h)
    end.
  Fixpoint nrobs (r : nrd) : otree :=
    match r with
    | RL u => OLeaf (sum_nat (urd_closes u))
    | RE cur _ h => hn_obs h [nrobs cur]
    end.
  Fixpoint nrread (cap : N) (r : nrd) : (bytes * err) * nrd :=
    match r with
    | RL u => let '(x, u') := urd_read ifuel cap u in (x, RL u')
    | RE cur off h =>
        let '((data, e), cur') := nrread cap cur in
        let off' := off + lenN data in
        match e with
        | ENone | EEof => ((data, e), RE cur' off' h)
        | _ =>
            let '(a, h') := hn_on_error h e in
            match a with
            | NFailWith c => ((data, ECode c), RE cur' off' h')
            | NReplace t' => ((data, ENone), RE (nropen t' off') off' (hn_retire h' (nrobs (nrclose cur'))))
            end
        end
    end.
End Nested.

(** * Outcome of one case *)
Record outN := mkOutN {
  z_data : bytes; z_err : err; z_extra : list err; z_cbs : list bool; z_aux : bytes; z_tree : otree
}.

Section NestedMethods.
  Variable H : bytes -> bytes.
  Variable cfg : vcfg.
  Variable fuel : nat.
  Let size := g_size cfg.

  (** Discard(): [errorHandler.Done(); base.Discard()] *)
  Fixpoint discard_tree (t : nbuf) : otree :=
    match t with
    | NB b => OLeaf (o_closed (plain H cfg fuel b MDiscard))
    | NW inner ans => hn_obs (hn_finish (hn_new ans)) [discard_tree inner]
    end.

  (** tryRepeatedly (ToByteSlice, ReadAt): the operation is applied to the
      base; an error is offered to the handler; a replacement is tried in turn;
      Done is deferred.  [whole] is the operation on a tree, [try_ans] the loop
      of one casErrorHandlingBuffer over the results of its base and of the
      replacements of its script. *)
  Definition wres : Type := (bytes * err * list bool) * otree.
  Fixpoint whole (m : meth) (t : nbuf) : wres :=
    match t with
    | NB b => let o := plain H cfg fuel b m in ((o_data o, o_err o, o_cbs o), OLeaf (o_closed o))
    | NW inner ans => try_ans m ans (whole m inner) [] [] []
    end
  with try_ans (m : meth) (ans : nanss) (r : wres) (offers : list err) (dead : list otree) (cbs : list bool)
    : wres :=
    let '((d, e, cb), o) := r in
    let cbs := cbs ++ cb in
    match e with
    | ENone | EEof => ((d, e, cbs), ONode offers 1 (dead ++ [o]))
    | _ =>
        match ans with
        | ANil => (([], ECode 10, cbs), ONode (offers ++ [e]) 1 (dead ++ [o]))
        | AFail c _ => (([], ECode c, cbs), ONode (offers ++ [e]) 1 (dead ++ [o]))
        | ARep t' rest => try_ans m rest (whole m t') (offers ++ [e]) (dead ++ [o]) cbs
        end
    end.

  Definition nv := vst ncr.
  Definition nv_read (max : N) : nv -> (bytes * err) * nv := vcr_read H cfg (nread fuel fuel max) fuel.
  Definition nv_close (st : nv) : nv := v_set_u st (nclose (v_u st)).
  Definition nrv := vst nrd.
  Definition nrv_read : N -> nrv -> (bytes * err) * nrv := vr_read H cfg (nrread fuel) fuel.

  Definition run_tree (t : nbuf) (m : meth) : outN :=
    match t with
    | NB b =>
        let o := plain H cfg fuel b m in
        mkOutN (o_data o) (o_err o) (o_extra o) (o_cbs o) (o_aux o) (OLeaf (o_closed o))
    | NW _ _ =>
        match m with
        | MToByteSlice _ | MReadAt _ _ =>
            let '((d, e, cbs), o) := whole m t in mkOutN d e [] cbs [] o
        | MCloneCopy max =>       (* cloneCopyViaByteSlice: not exercised by C16N *)
            let '((d, e, cbs), o) := whole (MToByteSlice max) t in mkOutN d e [] cbs [] o
        | MIntoWriter =>
            let '((out, e), st) := into_writer_cr (nv_read 65536) nv_close fuel (vinit cfg (nopen fuel t 0)) in
            mkOutN out e [] (v_cbs st) [] (nobs (v_u st))
        | MToChunkReader off max k =>
            if valid_offset size off then
              let o0 := offset_init (nv_read max) nv_close fuel off (vinit cfg (nopen fuel t 0)) in
              let '((out, e), o) := drain (offset_read (nv_read max)) fuel [] o0 in
              let '(ex, o) := extra_reads (offset_read (nv_read max)) k o in
              let o := offset_close nv_close o in
              mkOutN out e (errs_of ex) (v_cbs (o_u o)) (datas_of ex) (nobs (v_u (o_u o)))
            else mkOutN [] (ECode 3) (repeat (ECode 3) k) [] [] (discard_tree t)
        | MToReader caps k =>
            let '((out, e), st) := rconsume nrv_read fuel caps (last_cap caps) [] (vinit cfg (nropen fuel t 0)) in
            let '(ex, st) := rextra nrv_read k (last_cap caps) st in
            let st := v_set_u st (nrclose (v_u st)) in
            mkOutN out e (errs_of ex) (v_cbs st) (datas_of ex) (nrobs (v_u st))
        | MDiscard => mkOutN [] ENone [] [] [] (discard_tree t)
        end
    end.
End NestedMethods.
