(** C16 — runs that stop early: whatever a consumer has pulled out of the
    nested error-handling readers of a stack is a PREFIX of the stream of the
    level-wise specification [stitch_stack], and every level's OnError log is
    a prefix of the offers the specification lists for it.  (A validating
    reader stops reading as soon as it knows the stream is too long.) *)
From Coq Require Import List ZArith NArith Bool Lia.
From BBS Require Import Common.Sx Buffer.Source Buffer.Validate Buffer.Convert Buffer.ErrHandler
  Buffer.StreamProofs Buffer.ValidateProofs Buffer.ValidateReaderProofs Buffer.ConvertProofs
  Buffer.ReaderBufferProofs Buffer.ErrHandlerProofs
  Buffer.EHFullCarry Buffer.EHFullReader Buffer.EHFullPrefix Buffer.EHFullExact Buffer.EHFullStackExact
  Buffer.EHFullStacking
  Run.R09 Run.R16.
Import ListNotations.
Open Scope N_scope.

(** * A buffer opened at ANY offset (beyond its end as well) hands out a prefix
    of its content from there *)
Definition I_ucr2 (C : bytes) (u : ucr) : Prop :=
  match u with
  | UNorm n => I_norm _ (I_off2 _ I_csrc) C n
  | URb r => I_rb _ I_rsrc C r
  | UBs d => d = C
  | UErr e | UFail e _ => e = EEof -> C = []
  end.

Lemma ucr_claw2 ifuel max : claw (ucr_read ifuel max) I_ucr2.
Proof.
  intros u c e u' C Hr Hi. destruct u as [n|r|d|x|x s]; cbn [ucr_read I_ucr2] in *.
  - destruct (norm_read (offset_read csrc_read) ifuel max n) as [[c0 e0] n'] eqn:Hn. inv Hr.
    exact (norm_claw _ _ _ (offset_claw2 _ _ _ csrc_claw) _ _ _ _ _ _ _ Hn Hi).
  - destruct (rb_read rsrc_read ifuel max r) as [[c0 e0] r'] eqn:Hn. inv Hr.
    exact (rb_claw _ _ _ rsrc_rlaw_strong _ _ _ _ _ _ _ Hn Hi).
  - destruct (bs_read max d) as [[c0 e0] d'] eqn:Hn. inv Hr.
    eapply bs_claw; [exact Hn|reflexivity].
  - inv Hr. exists C. rsplit; auto.
  - inv Hr. exists C. rsplit; auto.
Qed.

Lemma ucr_open_carries2 ifuel b k C : carries_full C b -> I_ucr2 (dropN k C) (ucr_open ifuel b k).
Proof.
  intros Hc. destruct b as [evs|evs a|d|x]; cbn [ucr_open].
  - cbn [I_ucr2]. exists (dropN k C). cbn. split; [reflexivity|].
    rewrite <- (N2Z.id k) at 1. apply offset_init_law2; [exact csrc_claw|exact Hc|lia].
  - unfold discard_from_reader. destruct (Z.of_N k <? 0)%Z eqn:Hneg; [apply Z.ltb_lt in Hneg; lia|]. rewrite N2Z.id.
    destruct (copy_n_loop rsrc_read ifuel k (mkRsrc evs a 0)) as [e s] eqn:Hd.
    assert (Hi : I_rsrc C (mkRsrc evs a 0)) by (unfold I_rsrc; cbn; exact Hc).
    destruct (copy_n_law _ _ _ rsrc_rlaw_strong _ _ _ _ _ _ Hd Hi) as (d & C' & -> & Hl & Hn & He).
    destruct e; cbn [I_ucr2]; try congruence.
    + destruct (Hn eq_refl) as (<- & Hi'). rewrite dropN_exact. unfold I_rb. cbn. exact Hi'.
    + intros _. destruct (He eq_refl) as (-> & Hlt). rewrite app_nil_r. apply dropN_all. lia.
  - cbn in Hc. subst d. destruct (k <=? lenN C) eqn:E; [reflexivity|cbn; congruence].
  - cbn. congruence.
Qed.

Definition I_urd2 (C : bytes) (u : urd) : Prop :=
  match u with
  | RCb c => I_cb _ (I_off2 _ I_csrc) C c
  | RRaw s => I_rsrc C s
  | RBb d => d = C
  | RErr e | RFail e _ => e = EEof -> C = []
  end.

Lemma urd_rlaw2 fuel : rlaw (urd_read fuel) I_urd2.
Proof.
  intros cap u c e u' C Hr Hi. destruct u as [cb|s|d|x|x s]; cbn [urd_read I_urd2] in *.
  - destruct (cb_read (offset_read csrc_read) fuel cap cb) as [[c0 e0] cb'] eqn:Hn. inv Hr.
    exact (cb_rlaw _ _ _ (offset_claw2 _ _ _ csrc_claw) _ _ _ _ _ _ _ Hn Hi).
  - destruct (rsrc_read cap s) as [[c0 e0] s1] eqn:Hn. inv Hr.
    exact (rlaw_strong_weak _ _ rsrc_rlaw_strong _ _ _ _ _ _ Hn Hi).
  - destruct (bb_read cap d) as [[c0 e0] d'] eqn:Hn. inv Hr.
    eapply bb_rlaw; [exact Hn|reflexivity].
  - inv Hr. exists C. rsplit; auto.
  - inv Hr. exists C. rsplit; auto.
Qed.

Lemma urd_open_carries2 fuel b k C : carries_full C b -> I_urd2 (dropN k C) (urd_open fuel b k).
Proof.
  intros Hc. destruct b as [evs|evs a|d|x]; cbn [urd_open].
  - cbn [I_urd2]. exists (dropN k C). cbn. split; [reflexivity|].
    rewrite <- (N2Z.id k) at 1. apply offset_init_law2; [exact csrc_claw|exact Hc|lia].
  - unfold discard_from_reader. destruct (Z.of_N k <? 0)%Z eqn:Hneg; [apply Z.ltb_lt in Hneg; lia|]. rewrite N2Z.id.
    destruct (copy_n_loop rsrc_read fuel k (mkRsrc evs a 0)) as [e s] eqn:Hd.
    assert (Hi : I_rsrc C (mkRsrc evs a 0)) by (unfold I_rsrc; cbn; exact Hc).
    destruct (copy_n_law _ _ _ rsrc_rlaw_strong _ _ _ _ _ _ Hd Hi) as (d & C' & -> & Hl & Hn & He).
    destruct e; cbn [I_urd2]; try congruence.
    + destruct (Hn eq_refl) as (<- & Hi'). rewrite dropN_exact. exact Hi'.
    + intros _. destruct (He eq_refl) as (-> & Hlt). rewrite app_nil_r. apply dropN_all. lia.
  - cbn in Hc. subst d. destruct (k <=? lenN C) eqn:E; [reflexivity|cbn; congruence].
  - cbn. congruence.
Qed.

(** a well-formed buffer carries its own content *)
Lemma self_carrier b : wf_buf b -> carries_full (fst (ucontent b)) b.
Proof.
  destruct b as [evs|evs a|d|x]; cbn [wf_buf ucontent carries_full]; intros Hw; auto.
  - exists []. rewrite app_nil_r. auto.
  - assert (Hc : ccar (fst (content evs)) evs) by (exists []; rewrite app_nil_r; auto).
    destruct a; [apply clean_ccar_rcar; assumption|exact Hc].
Qed.

Lemma piece_data b k : fst (piece_of b k) = dropN k (fst (ucontent b)).
Proof.
  unfold piece_of. destruct (ucontent b) as [c t]. cbn [fst]. destruct (k <=? lenN c) eqn:E; [reflexivity|].
  apply N.leb_gt in E. cbn. symmetry. apply dropN_all. lia.
Qed.

Lemma pulls_piece_prefix ifuel max b k p s' :
  pulls (ucr_read ifuel max) (ucr_open ifuel b k) p s' -> wf_buf b -> exists r, fst (piece_of b k) = p ++ r.
Proof.
  intros Hp Hw. rewrite piece_data.
  destruct (claw_pulls _ _ _ (ucr_claw2 ifuel max) _ _ _ Hp _ (ucr_open_carries2 ifuel b k _ (self_carrier b Hw))) as (C' & E & _).
  eauto.
Qed.
Lemma rpulls_piece_prefix fuel b k p s' :
  rpulls (urd_read fuel) (urd_open fuel b k) p s' -> wf_buf b -> exists r, fst (piece_of b k) = p ++ r.
Proof.
  intros Hp Hw. rewrite piece_data.
  pose proof (urd_open_carries2 fuel b k _ (self_carrier b Hw)) as Hi. revert Hi.
  generalize (dropN k (fst (ucontent b))). induction Hp as [s|cap s c s1 bs s2 Hr _ IH]; intros C Hi; [exists C; reflexivity|].
  destruct (urd_rlaw2 fuel _ _ _ _ _ _ Hr Hi) as (C1 & -> & Hn & _).
  destruct (IH _ (Hn eq_refl)) as (r & ->). exists r. now rewrite app_assoc.
Qed.

(** * The specification side: prefixes *)
Definition lpre (q o : list err) : Prop := exists r, o = q ++ r.

Lemma stitch_stack_extends : forall anss x t, exists more, fst (fst (stitch_stack x t anss)) = x ++ more.
Proof.
  induction anss as [|a r IH]; intros x t; cbn [stitch_stack]; [exists []; cbn; now rewrite app_nil_r|].
  assert (Hf : exists m1, fst (fst (stitch_from x t a)) = x ++ m1).
  { unfold stitch_from. destruct t; try (exists []; cbn; now rewrite app_nil_r);
      destruct a as [|[b|cc] rest]; try (exists []; cbn; now rewrite app_nil_r);
      destruct (stitch b (lenN x) rest) as [[p2 t2] offs]; exists p2; reflexivity. }
  destruct (stitch_from x t a) as [[p1 t1] offs]. destruct Hf as (m1 & Hf). cbn in Hf. subst p1.
  destruct (IH (x ++ m1) t1) as (m2 & Hm). destruct (stitch_stack (x ++ m1) t1 r) as [[p2 t2] offss]. cbn in *.
  subst p2. exists (m1 ++ m2). now rewrite app_assoc.
Qed.

Lemma esc_K_data : forall acts t K, fst (esc_K t acts K) = fst K.
Proof.
  induction acts as [|h r IH]; intros t K; cbn [esc_K]; [reflexivity|].
  destruct (fst (on_error h t)) as [b|c].
  - destruct K as [[D E] offss]. reflexivity.
  - specialize (IH (ECode c) K). destruct (esc_K (ECode c) r K) as [[D E] offss]. exact IH.
Qed.
Lemma esc_K_offers : forall acts t D E D' E' q, snd (esc_K t acts (D, E, q)) = snd (esc_K t acts (D', E', q)).
Proof.
  induction acts as [|h r IH]; intros t D E D' E' q; cbn [esc_K]; [reflexivity|].
  destruct (fst (on_error h t)) as [b|c]; [reflexivity|].
  specialize (IH (ECode c) D E D' E' q).
  destruct (esc_K (ECode c) r (D, E, q)) as [[D1 E1] o1]. destruct (esc_K (ECode c) r (D', E', q)) as [[D2 E2] o2].
  cbn in *. now rewrite IH.
Qed.
Lemma esc_K_prefix : forall acts t D E q o,
  Forall2 lpre q o -> Forall2 lpre (snd (esc_K t acts (D, E, q))) (snd (esc_K t acts (D, E, o))).
Proof.
  induction acts as [|h r IH]; intros t D E q o Hf; cbn [esc_K]; [exact Hf|].
  destruct (fst (on_error h t)) as [b|c].
  - cbn. destruct Hf as [|q1 o1 qs os (r1 & ->) Hf]; constructor; [exists r1; reflexivity|exact Hf].
  - specialize (IH (ECode c) D E q o Hf).
    destruct (esc_K (ECode c) r (D, E, q)) as [[D1 E1] q1]. destruct (esc_K (ECode c) r (D, E, o)) as [[D2 E2] o2].
    cbn in *. constructor; [exists []; now rewrite app_nil_r|exact IH].
Qed.

Lemma Forall2_len {A B} (R : A -> B -> Prop) l l' : Forall2 R l l' -> length l = length l'.
Proof. induction 1; cbn; congruence. Qed.

Lemma zipo_nils_r : forall (ls : list (list err)), zipo ls (map (fun _ => []) ls) = ls.
Proof. induction ls as [|l r IH]; cbn; [reflexivity|]. now rewrite app_nil_r, IH. Qed.
Lemma lpre_nils : forall (ls : list hst) (os : list (list err)),
  length os = length ls -> Forall2 lpre (map (fun _ => []) (map oel ls)) os.
Proof.
  induction ls as [|l r IH]; intros [|o os] Hl; cbn in *; try discriminate; constructor.
  - exists o. reflexivity.
  - apply IH. lia.
Qed.

(** * Partial runs of the flattened stack, over any kind of reader *)
Section GenericPartial.
  Variable S : Type.
  Variable open : bufscript -> N -> S.
  Variable dr : S -> bytes -> err -> S -> Prop.
  Variable pl : S -> bytes -> S -> Prop.
  Hypothesis exact : forall b k p t s', dr (open b k) p t s' -> t <> EFuel -> wf_buf b -> piece_of b k = (p, t).
  Hypothesis exact_prefix : forall b k p s', pl (open b k) p s' -> wf_buf b -> exists r, fst (piece_of b k) = p ++ r.

  Inductive sstp : S -> N -> list hst -> bytes -> list hst -> Prop :=
  | sp_base cur k acts p cur' : pl cur p cur' -> sstp cur k acts p acts
  | sp_replace cur k acts p t cur' b e0 passed act' p2 fin :
      dr cur p t cur' -> t <> EEof -> escalate t acts = ((Some b, e0), passed, act') ->
      sstp (open b (k + lenN p)) (k + lenN p) act' p2 fin ->
      sstp cur k acts (p ++ p2) (map done passed ++ fin).

  Theorem sstp_is_prefix_of_stitch_stack : forall cur k acts out fin,
    sstp cur k acts out fin ->
    forall b pre p t, cur = open b k -> lenN pre = k -> piece_of b k = (p, t) ->
    wf_buf b -> hs_wf acts -> acts <> [] -> no_fuel_logged fin ->
    exists rest e offss qss,
      stitch_stack (pre ++ p) t (map h_answers acts) = (pre ++ out ++ rest, e, offss) /\
      map oel fin = zipo (map oel acts) qss /\ Forall2 lpre qss offss.
  Proof.
    induction 1 as [cur k acts p0 cur' Hp|cur k acts p0 t0 cur' b1 e0 passed act' p2 fin Hd Hne He _ IH];
      intros b pre p t -> Hk Hpc Hwf Hw Hnn Hnf.
    - destruct (exact_prefix _ _ _ _ Hp Hwf) as (r & Hr). rewrite Hpc in Hr. cbn in Hr. subst p.
      destruct (stitch_stack_extends (map h_answers acts) (pre ++ p0 ++ r) t) as (more & Hm).
      pose proof (stitch_stack_length (map h_answers acts) (pre ++ p0 ++ r) t) as Hlen.
      destruct (stitch_stack (pre ++ p0 ++ r) t (map h_answers acts)) as [[D E] offss]. cbn in Hm, Hlen. subst D.
      exists (r ++ more), E, offss, (map (fun _ => []) (map oel acts)). rsplit.
      + rewrite <- !app_assoc. reflexivity.
      + now rewrite zipo_nils_r.
      + apply lpre_nils. rewrite Hlen, map_length. reflexivity.
    - destruct (escalate_wf _ _ _ _ _ _ He Hw) as (Hw' & Hwb).
      assert (Hnf2 : no_fuel_logged fin) by (unfold no_fuel_logged in *; apply Forall_app in Hnf; tauto).
      assert (Hact' : act' <> []).
      { clear -He. revert t0 passed He. induction acts as [|h r IH]; intros t0 passed He; cbn [escalate] in He; [inv He|].
        destruct (on_error h t0) as [a h']. destruct a; [inv He; discriminate|].
        destruct (escalate (ECode c) r) as [[r0 ps] a0] eqn:Hr. destruct r0. inv He. eapply IH; eauto. }
      destruct (piece_of b1 (k + lenN p0)) as [p' t'] eqn:Hp'.
      destruct (IH b1 (pre ++ p0) p' t' eq_refl ltac:(rewrite lenN_app; lia) Hp' Hwb Hw' Hact' Hnf2)
        as (rest & e & offss2 & qss2 & Hs2 & Hm2 & Hq2).
      assert (Hl2 : length qss2 = length act').
      { pose proof (stitch_stack_length (map h_answers act') ((pre ++ p0) ++ p') t') as Hl. rewrite Hs2 in Hl. cbn in Hl.
        rewrite map_length in Hl. rewrite <- Hl. eapply Forall2_len; eassumption. }
      destruct (esc_logs _ _ _ _ _ _ fin (pre, e, qss2) He (conj Hm2 Hl2)) as (Hm & Hlen & Hhd).
      assert (Ht0 : t0 <> EFuel).
      { intros ->. destruct (Hhd Hnn) as (h & Hh & Hin). unfold no_fuel_logged in Hnf. rewrite Forall_forall in Hnf.
        apply (Hnf h); [|exact Hin]. revert Hh. destruct (map done passed ++ fin) as [|h0 l]; cbn; intros Hh; [discriminate Hh|].
        inv Hh. left. reflexivity. }
      rewrite (exact _ _ _ _ _ Hd Ht0 Hwf) in Hpc. inv Hpc.
      assert (HKs : forall p'0 t'0, piece_of b1 (lenN (pre ++ p)) = (p'0, t'0) ->
                stitch_stack ((pre ++ p) ++ p'0) t'0 (map h_answers act') = ((pre ++ p) ++ p2 ++ rest, e, offss2)).
      { intros p'0 t'0 Hq. rewrite lenN_app in Hq. rewrite Hp' in Hq. inv Hq. exact Hs2. }
      pose proof (esc_spec _ _ _ _ _ _ (pre ++ p) ((pre ++ p) ++ p2 ++ rest, e, offss2) Hne He HKs) as Hs. cbn beta iota in Hs.
      rewrite lenN_app in Hs. rewrite (Hs _ _ Hp').
      pose proof (esc_K_data acts t ((pre ++ p) ++ p2 ++ rest, e, offss2)) as Hdat. cbn [fst] in Hdat.
      pose proof (esc_K_prefix acts t ((pre ++ p) ++ p2 ++ rest) e qss2 offss2 Hq2) as Hpre.
      rewrite (esc_K_offers acts t ((pre ++ p) ++ p2 ++ rest) e pre e qss2) in Hpre.
      exists rest, e, (snd (esc_K t acts ((pre ++ p) ++ p2 ++ rest, e, offss2))), (snd (esc_K t acts (pre, e, qss2))). rsplit.
      + set (KK := esc_K t acts ((pre ++ p) ++ p2 ++ rest, e, offss2)) in *. clearbody KK.
        destruct KK as [[D E] o]. cbn [fst snd] in *. inv Hdat. now rewrite <- !app_assoc.
      + exact Hm.
      + exact Hpre.
  Qed.
End GenericPartial.

(** * The nested error-handling chunk readers, read for a while *)
Section SchPartial.
  Variable ifuel : nat.
  Variable max : N.
  Notation urd := (ucr_read ifuel max).
  Notation sstpc := (sstp ucr (ucr_open ifuel) (drains urd) (pulls urd)).

  Lemma sstp_cons cur c cur' k acts out fin :
    urd cur = ((c, ENone), cur') -> sstpc cur' (k + lenN c) acts out fin -> sstpc cur k acts (c ++ out) fin.
  Proof.
    intros Hr Hs. inversion Hs; subst.
    - eapply sp_base. eapply pulls_step; eassumption.
    - rewrite app_assoc. eapply sp_replace; [eapply drains_step; eassumption|assumption|eassumption|].
      rewrite lenN_app, N.add_assoc. assumption.
  Qed.

  Lemma sch_read_invp : forall f r c r1,
    sch_read ifuel f max r = ((c, ENone), r1) ->
    forall out fin, sstpc (sc_cur r1) (sc_off r1) (w_act (sc_w r1)) out fin ->
      exists fin0, sstpc (sc_cur r) (sc_off r) (w_act (sc_w r)) (c ++ out) fin0 /\
                   w_dn (sc_w r) ++ fin0 = w_dn (sc_w r1) ++ fin.
  Proof.
    induction f as [|f IH]; intros r c r1 Hr out fin Hs; cbn [sch_read] in Hr; [inv Hr|].
    destruct (urd (sc_cur r)) as [[chunk e0] cur'] eqn:Hu.
    assert (Hother : e0 <> ENone -> e0 <> EEof ->
      (let '(ob, e', passed, act') := escalate e0 (w_act (sc_w r)) in
       match ob with
       | Some b => sch_read ifuel f max
                     (mkSch (ucr_open ifuel b (sc_off r)) (sc_off r)
                            (after_replace (sc_w r) passed act' (ucr_closes (ucr_close cur'))))
       | None => (([], e'), mkSch cur' (sc_off r) (after_failure (sc_w r) passed))
       end) = ((c, ENone), r1) ->
      exists fin0, sstpc (sc_cur r) (sc_off r) (w_act (sc_w r)) (c ++ out) fin0 /\
                   w_dn (sc_w r) ++ fin0 = w_dn (sc_w r1) ++ fin).
    { intros Hn He Hx. destruct (escalate e0 (w_act (sc_w r))) as [[[ob e'] passed] act'] eqn:Hesc.
      assert (Hd0 : drains urd (sc_cur r) [] e0 cur') by (eapply drains_end; eassumption).
      destruct ob as [b|].
      - destruct (IH _ _ _ Hx out fin Hs) as (fin2 & Hs2 & Hw2). cbn [sc_cur sc_off sc_w after_replace w_dn w_act] in Hs2, Hw2.
        exists (map done passed ++ fin2). split.
        + change (c ++ out) with ([] ++ (c ++ out)). eapply sp_replace; [exact Hd0|exact He|exact Hesc|].
          rewrite lenN_nil, N.add_0_r. exact Hs2.
        + rewrite app_assoc. exact Hw2.
      - destruct (escalate_none_err _ _ _ _ _ Hesc) as (_ & [?|(cc & ?)]); inv Hx; congruence. }
    destruct e0; try (apply Hother; [congruence|congruence|exact Hr]).
    - inv Hr. exists fin. split; [|reflexivity]. eapply sstp_cons; eassumption.
    - inv Hr.
  Qed.

  Theorem sch_pulled fuel r out r' :
    pulls (sch_read ifuel fuel max) r out r' ->
    exists fin, sstpc (sc_cur r) (sc_off r) (w_act (sc_w r)) out fin /\ w_dn (sc_w r) ++ fin = lv (sc_w r').
  Proof.
    induction 1 as [r|r c r1 bs r2 Hr _ IH].
    - exists (w_act (sc_w r)). split; [eapply sp_base; constructor|reflexivity].
    - destruct IH as (fin & Hs & Hw). destruct (sch_read_invp _ _ _ _ Hr _ _ Hs) as (fin0 & Hs0 & Hw0).
      exists fin0. split; [exact Hs0|]. rewrite Hw0. exact Hw.
  Qed.
End SchPartial.

Section ShrPartial.
  Variable fuel : nat.
  Notation urdr := (urd_read fuel).
  Notation sstpr := (sstp urd (urd_open fuel) (rdrains urdr) (rpulls urdr)).

  Lemma sstpr_cons cap cur c cur' k acts out fin :
    urdr cap cur = ((c, ENone), cur') -> sstpr cur' (k + lenN c) acts out fin -> sstpr cur k acts (c ++ out) fin.
  Proof.
    intros Hr Hs. inversion Hs; subst.
    - eapply sp_base. eapply rpulls_step; eassumption.
    - rewrite app_assoc. eapply sp_replace; [eapply rdrains_step; eassumption|assumption|eassumption|].
      rewrite lenN_app, N.add_assoc. assumption.
  Qed.

  Theorem shr_pulled r out r' :
    rpulls (shr_read fuel) r out r' ->
    exists fin, sstpr (sr_cur r) (sr_off r) (w_act (sr_w r)) out fin /\ w_dn (sr_w r) ++ fin = lv (sr_w r').
  Proof.
    induction 1 as [r|cap r c r1 bs r2 Hr _ IH].
    - exists (w_act (sr_w r)). split; [eapply sp_base; constructor|reflexivity].
    - destruct IH as (fin & Hs & Hw). unfold shr_read in Hr.
      destruct (urd_read fuel cap (sr_cur r)) as [[data t] cur'] eqn:Hu.
      destruct (escalate t (w_act (sr_w r))) as [[[ob e'] passed] act'] eqn:Hesc.
      assert (Hrep : t <> ENone -> t <> EEof -> forall b, ob = Some b ->
                r1 = mkShr (urd_open fuel b (sr_off r + lenN data)) (sr_off r + lenN data)
                           (after_replace (sr_w r) passed act' (urd_closes (urd_close cur'))) -> c = data ->
                exists fin0, sstpr (sr_cur r) (sr_off r) (w_act (sr_w r)) (c ++ bs) fin0 /\
                             w_dn (sr_w r) ++ fin0 = lv (sr_w r2)).
      { intros Hn He b -> -> ->. cbn [sr_cur sr_off sr_w after_replace w_dn w_act] in Hs, Hw.
        exists (map done passed ++ fin). split.
        - eapply sp_replace; [eapply rdrains_end; eassumption|exact He|exact Hesc|exact Hs].
        - rewrite app_assoc. exact Hw. }
      destruct t.
      + inv Hr. exists fin. split; [eapply sstpr_cons; eassumption|exact Hw].
      + inv Hr.
      + destruct ob as [b|]; inv Hr; [|destruct (escalate_none_err _ _ _ _ _ Hesc) as (_ & [?|(cc & ?)]); congruence].
        eapply Hrep; try reflexivity; congruence.
      + destruct ob as [b|]; inv Hr; [|destruct (escalate_none_err _ _ _ _ _ Hesc) as (_ & [?|(cc & ?)]); congruence].
        eapply Hrep; try reflexivity; congruence.
      + destruct ob as [b|]; inv Hr; [|destruct (escalate_none_err _ _ _ _ _ Hesc) as (_ & [?|(cc & ?)]); congruence].
        eapply Hrep; try reflexivity; congruence.
  Qed.
End ShrPartial.

(** * Whatever has been pulled is a prefix of the specification *)
Theorem stack_chunk_pulled_is_prefix ifuel fuel max b w out r' :
  pulls (sch_read ifuel fuel max) (sch_init ifuel b w) out r' ->
  wf_buf b -> hs_wf (w_act w) -> w_act w <> [] ->
  Forall (fun h => ~ In EFuel (oel h)) (lv (sc_w r')) ->
  exists rest e offss qss,
    (let '(p, t) := piece_of b 0 in stitch_stack p t (map h_answers (w_act w))) = (out ++ rest, e, offss) /\
    oews (sc_w r') = map oel (w_dn w) ++ zipo (map oel (w_act w)) qss /\ Forall2 lpre qss offss.
Proof.
  intros Hp Hwf Hw Hnn Hnf.
  destruct (sch_pulled _ _ _ _ _ _ Hp) as (fin & Hs & Hlv). cbn [sch_init sc_cur sc_off sc_w] in Hs, Hlv.
  destruct (piece_of b 0) as [p t] eqn:Hpc.
  assert (Hnf2 : no_fuel_logged fin).
  { unfold no_fuel_logged. rewrite <- Hlv in Hnf. apply Forall_app in Hnf. tauto. }
  destruct (sstp_is_prefix_of_stitch_stack _ _ _ _
              (fun b k p t s' Hd Hn Hw0 => piece_exact ifuel max b k p t s' Hd Hn Hw0)
              (fun b k p s' Hp0 Hw0 => pulls_piece_prefix ifuel max b k p s' Hp0 Hw0)
              _ _ _ _ _ Hs b [] p t eq_refl eq_refl Hpc Hwf Hw Hnn Hnf2) as (rest & e & offss & qss & Hss & Hm & Hq).
  cbn [app] in Hss. exists rest, e, offss, qss. rsplit; auto.
  unfold oews. rewrite <- Hlv, map_app, Hm. reflexivity.
Qed.

Theorem stack_reader_pulled_is_prefix fuel b w out r' :
  rpulls (shr_read fuel) (shr_init fuel b w) out r' ->
  wf_buf b -> hs_wf (w_act w) -> w_act w <> [] ->
  Forall (fun h => ~ In EFuel (oel h)) (lv (sr_w r')) ->
  exists rest e offss qss,
    (let '(p, t) := piece_of b 0 in stitch_stack p t (map h_answers (w_act w))) = (out ++ rest, e, offss) /\
    oews (sr_w r') = map oel (w_dn w) ++ zipo (map oel (w_act w)) qss /\ Forall2 lpre qss offss.
Proof.
  intros Hp Hwf Hw Hnn Hnf.
  destruct (shr_pulled _ _ _ _ Hp) as (fin & Hs & Hlv). cbn [shr_init sr_cur sr_off sr_w] in Hs, Hlv.
  destruct (piece_of b 0) as [p t] eqn:Hpc.
  assert (Hnf2 : no_fuel_logged fin).
  { unfold no_fuel_logged. rewrite <- Hlv in Hnf. apply Forall_app in Hnf. tauto. }
  destruct (sstp_is_prefix_of_stitch_stack _ _ _ _
              (fun b k p t s' Hd Hn Hw0 => rpiece_exact fuel b k p t s' Hd Hn Hw0)
              (fun b k p s' Hp0 Hw0 => rpulls_piece_prefix fuel b k p s' Hp0 Hw0)
              _ _ _ _ _ Hs b [] p t eq_refl eq_refl Hpc Hwf Hw Hnn Hnf2) as (rest & e & offss & qss & Hss & Hm & Hq).
  cbn [app] in Hss. exists rest, e, offss, qss. rsplit; auto.
  unfold oews. rewrite <- Hlv, map_app, Hm. reflexivity.
Qed.
