(** C16 — no duplicated and no skipped range for STACKS of error handlers of
    any depth ([run_stack]): when the original buffer and every replacement
    that ANY level supplies carry the same object [C], a call / stream that
    completes has handed the consumer exactly the expected slice of [C], for
    every method, buffer kind, failure position and fuel.

    The nested error-handling readers satisfy the carrier law themselves: the
    current underlying reader carries C[off..], an error is escalated through
    the active levels, a replacement supplied by any of them is opened at the
    delivered offset [off] and carries C[off..] again. *)
From Coq Require Import List ZArith NArith Bool Lia.
From BBS Require Import Buffer.Source Buffer.Validate Buffer.Convert Buffer.ErrHandler
  Buffer.StreamProofs Buffer.ValidateProofs Buffer.ValidateReaderProofs Buffer.ConvertProofs
  Buffer.ReaderBufferProofs Buffer.ConvertProofs2 Buffer.ErrHandlerProofs
  Buffer.EHFullCarry Buffer.EHFullReader Buffer.EHFullMethods.
Import ListNotations.
Open Scope N_scope.

(** * The unvalidated io.Readers never say io.ErrUnexpectedEOF *)
Definition urd_nu (u : urd) : Prop :=
  match u with
  | RCb c => o_fixed (cb_u c) <> EUnexp
  | RErr e | RFail e _ => e <> EUnexp
  | _ => True
  end.

Lemma discard_cr_nu fuel : forall off s p e s',
  discard_from_chunk_reader csrc_read fuel off s = ((p, e), s') -> e <> EUnexp.
Proof.
  induction fuel as [|f IH]; intros off s p e s' Hd; cbn [discard_from_chunk_reader] in Hd;
    destruct (off =? 0); try (inv Hd; congruence).
  destruct (csrc_read s) as [[c e0] s1] eqn:Hr. pose proof (csrc_no_unexp _ _ _ _ Hr) as Hn.
  destruct e0; try (inv Hd; congruence).
  destruct (off <? lenN c); [inv Hd; congruence|]. eapply IH; eassumption.
Qed.
Lemma offset_init_nu fuel off s : o_fixed (offset_init csrc_read csrc_close fuel off s) <> EUnexp.
Proof.
  unfold offset_init. destruct (off <? 0)%Z; [cbn; congruence|].
  destruct (discard_from_chunk_reader csrc_read fuel (Z.to_N off) s) as [[p e] s'] eqn:Hd.
  pose proof (discard_cr_nu _ _ _ _ _ _ Hd) as Hn. destruct e; cbn; congruence.
Qed.
Lemma offset_read_nu o c e o' :
  offset_read csrc_read o = ((c, e), o') -> o_fixed o <> EUnexp -> e <> EUnexp /\ o_fixed o' <> EUnexp.
Proof.
  unfold offset_read. intros Hr Hn. destruct (o_fixed o) eqn:Ef; try (inv Hr; rewrite Ef; split; congruence).
  destruct (is_nil (o_prefix o)); [|inv Hr; cbn; split; congruence].
  destruct (csrc_read (o_u o)) as [[c0 e0] u'] eqn:Hc. inv Hr. cbn.
  split; [exact (csrc_no_unexp _ _ _ _ Hc)|congruence].
Qed.
Lemma cb_loop_nu : forall f left got st res e st',
  cb_loop (offset_read csrc_read) f left got st = ((res, e), st') -> o_fixed (cb_u st) <> EUnexp ->
  e <> EUnexp /\ o_fixed (cb_u st') <> EUnexp.
Proof.
  induction f as [|f IH]; intros left got st res e st' Hr Hn; cbn [cb_loop] in Hr;
    destruct (left =? 0); try (inv Hr; split; [congruence|assumption]).
  destruct (offset_read csrc_read (cb_u st)) as [[c e0] u'] eqn:Ho.
  destruct (offset_read_nu _ _ _ _ Ho Hn) as (He0 & Hn').
  destruct e0; try (inv Hr; cbn; split; [congruence|assumption]).
  eapply IH; [eassumption|exact Hn'].
Qed.
Lemma copy_n_nu : forall f left s e s', copy_n_loop rsrc_read f left s = (e, s') -> e <> EUnexp.
Proof.
  induction f as [|f IH]; intros left s e s' Hr; cbn [copy_n_loop] in Hr;
    destruct (left =? 0); try (inv Hr; congruence).
  destruct (rsrc_read (N.min discard_buf left) s) as [[c e0] s1] eqn:Hrd.
  pose proof (rsrc_no_unexp _ _ _ _ _ Hrd) as Hn.
  destruct e0; try (eapply IH; eassumption); destruct (left - lenN c =? 0); inv Hr; congruence.
Qed.

Lemma urd_open_nu fuel b k : urd_nu (urd_open fuel b k).
Proof.
  destruct b as [evs|evs a|d|x]; cbn [urd_open].
  - cbn. apply offset_init_nu.
  - unfold discard_from_reader. destruct (Z.of_N k <? 0)%Z; [cbn; congruence|].
    destruct (copy_n_loop rsrc_read fuel (Z.to_N (Z.of_N k)) (mkRsrc evs a 0)) as [e s] eqn:Hc.
    pose proof (copy_n_nu _ _ _ _ _ Hc) as Hn. destruct e; cbn; first [exact Logic.I|congruence].
  - destruct (k <=? lenN d); cbn; first [exact Logic.I|congruence|intros X; discriminate X].
  - cbn. congruence.
Qed.
Lemma urd_read_nu fuel cap u c e u' :
  urd_read fuel cap u = ((c, e), u') -> urd_nu u -> e <> EUnexp /\ urd_nu u'.
Proof.
  intros Hr Hn. destruct u as [cb|s|d|x|x s]; cbn [urd_read urd_nu] in *.
  - destruct (cb_read (offset_read csrc_read) fuel cap cb) as [[c0 e0] cb'] eqn:Hc. inv Hr. cbn.
    unfold cb_read in Hc. eapply cb_loop_nu; [exact Hc|exact Hn].
  - destruct (rsrc_read cap s) as [[c0 e0] s1] eqn:Hc. inv Hr. split; [exact (rsrc_no_unexp _ _ _ _ _ Hc)|exact Logic.I].
  - unfold bb_read in Hr. destruct (is_nil d); [destruct (cap =? 0)|]; inv Hr; split; cbn; congruence.
  - inv Hr. auto.
  - inv Hr. auto.
Qed.

Section StackCarry.
  Variable C : bytes.

  Definition h_carry (h : hst) : Prop := Forall (ans_carries C) (h_answers h).
  Definition hs_carry (hs : list hst) : Prop := Forall h_carry hs.

  Lemma on_error_carry h e a h' :
    on_error h e = (a, h') -> h_carry h -> ans_carries C a /\ h_carry h'.
  Proof.
    unfold on_error, h_carry. destruct (h_answers h) as [|a0 r]; intros Ho Hc; inv Ho; cbn.
    - split; [exact Logic.I|constructor].
    - inversion Hc; auto.
  Qed.

  Lemma escalate_carry : forall act e ob e' passed act',
    escalate e act = ((ob, e'), passed, act') -> hs_carry act ->
    hs_carry passed /\ hs_carry act' /\
    match ob with Some b => carries_full C b | None => e' = e \/ exists c, e' = ECode c end.
  Proof.
    induction act as [|h rest IH]; intros e ob e' passed act' He Hc; cbn [escalate] in He.
    - inv He. rsplit; auto; constructor.
    - inversion Hc as [|x l Hh Hrest]; subst.
      destruct (on_error h e) as [a h'] eqn:Ho. destruct (on_error_carry _ _ _ _ Ho Hh) as (Ha & Hh').
      destruct a as [b|c].
      + inv He. rsplit; [constructor|constructor; assumption|exact Ha].
      + destruct (escalate (ECode c) rest) as [[r passed0] act0] eqn:Hr. destruct r as [ob0 e0]. inv He.
        destruct (IH _ _ _ _ _ Hr Hrest) as (Hp & Ha' & Hob).
        rsplit; [constructor; assumption|assumption|].
        destruct ob; [exact Hob|]. right. destruct Hob as [->|(c0 & ->)]; eauto.
  Qed.

  (** nested errorHandlingChunkReaders *)
  Definition I_sch (Crem : bytes) (r : sch) : Prop :=
    I_ucr Crem (sc_cur r) /\ Crem = dropN (sc_off r) C /\ sc_off r <= lenN C /\ hs_carry (w_act (sc_w r)).

  Lemma sch_claw ifuel max : forall fuel, claw (sch_read ifuel fuel max) I_sch.
  Proof.
    induction fuel as [|f IH]; intros r c e r' Crem Hr (Hi & HC & Hoff & Hh); cbn [sch_read] in Hr.
    - inv Hr. eexists. rsplit; [reflexivity|..]; congruence.
    - destruct (ucr_read ifuel max (sc_cur r)) as [[chunk e0] cur'] eqn:Hu.
      destruct (ucr_claw ifuel max _ _ _ _ _ Hu Hi) as (C' & E & Hn & He & Hc).
      assert (Hother : e0 <> ENone -> e0 <> EEof ->
        (let '(ob, e', passed, act') := escalate e0 (w_act (sc_w r)) in
         match ob with
         | Some b => sch_read ifuel f max
                       (mkSch (ucr_open ifuel b (sc_off r)) (sc_off r)
                              (after_replace (sc_w r) passed act' (ucr_closes (ucr_close cur'))))
         | None => (([], e'), mkSch cur' (sc_off r) (after_failure (sc_w r) passed))
         end) = ((c, e), r') ->
        exists C'0, Crem = c ++ C'0 /\ (e = ENone -> I_sch C'0 r') /\ (e = EEof -> C'0 = []) /\ (e <> ENone -> c = [])).
      { intros Hne Hnf Hx.
        destruct (escalate e0 (w_act (sc_w r))) as [[[ob e'] passed] act'] eqn:Hesc.
        destruct (escalate_carry _ _ _ _ _ _ Hesc Hh) as (Hp & Ha & Hob).
        destruct ob as [b|].
        - apply (IH _ _ _ _ _ Hx). unfold I_sch. cbn [sc_cur sc_off sc_w after_replace w_act].
          rsplit; auto. rewrite HC. apply ucr_open_carries; assumption.
        - inv Hx. exists (dropN (sc_off r) C). rsplit; auto.
          + destruct Hob as [->|(c0 & ->)]; congruence.
          + destruct Hob as [->|(c0 & ->)]; congruence. }
      destruct e0; try (apply Hother; [congruence|congruence|exact Hr]).
      + inv Hr. exists C'. rsplit; auto; try congruence. intros _. unfold I_sch. cbn [sc_cur sc_off sc_w].
        destruct (piece_arith _ _ _ _ Hoff E) as (A & B & _).
        rsplit; auto. rewrite E in B. apply app_inv_head in B. exact B.
      + inv Hr. rewrite (Hc ltac:(congruence)) in E. exists C'. rsplit; auto; congruence.
  Qed.

  (** nested errorHandlingReaders *)
  Definition I_shr (Crem : bytes) (r : shr) : Prop :=
    I_urd Crem (sr_cur r) /\ Crem = dropN (sr_off r) C /\ sr_off r <= lenN C /\ hs_carry (w_act (sr_w r)).

  Lemma shr_rlaw fuel : rlaw (shr_read fuel) I_shr.
  Proof.
    intros cap r c e r' Crem Hr (Hi & HC & Hoff & Hh). unfold shr_read in Hr.
    destruct (urd_read fuel cap (sr_cur r)) as [[data e0] cur'] eqn:Hu.
    destruct (urd_rlaw fuel _ _ _ _ _ _ Hu Hi) as (C' & E & Hn & He).
    destruct (piece_arith _ _ _ _ Hoff ltac:(rewrite <- HC; exact E)) as (A & B & _).
    assert (HC' : C' = dropN (sr_off r + lenN data) C).
    { rewrite <- HC, E in B. apply app_inv_head in B. exact B. }
    assert (Hother : e0 <> ENone -> e0 <> EEof ->
      (let '(ob, e', passed, act') := escalate e0 (w_act (sr_w r)) in
       match ob with
       | Some b => ((data, ENone), mkShr (urd_open fuel b (sr_off r + lenN data)) (sr_off r + lenN data)
                                         (after_replace (sr_w r) passed act' (urd_closes (urd_close cur'))))
       | None => ((data, e'), mkShr cur' (sr_off r + lenN data) (after_failure (sr_w r) passed))
       end) = ((c, e), r') ->
      exists C'0, Crem = c ++ C'0 /\ (e = ENone -> I_shr C'0 r') /\ (e = EEof -> C'0 = [])).
    { intros Hne Hnf Hx.
      destruct (escalate e0 (w_act (sr_w r))) as [[[ob e'] passed] act'] eqn:Hesc.
      destruct (escalate_carry _ _ _ _ _ _ Hesc Hh) as (Hp & Ha & Hob).
      destruct ob as [b|]; injection Hx as Ec Ee Er; subst c e r'; exists C'; rsplit; auto; try congruence.
      - intros _. unfold I_shr. cbn [sr_cur sr_off sr_w after_replace w_act]. rsplit; auto.
        rewrite HC'. apply urd_open_carries; assumption.
      - destruct Hob as [->|(c0 & ->)]; congruence.
      - destruct Hob as [->|(c0 & ->)]; congruence. }
    destruct e0; try (apply Hother; [congruence|congruence|exact Hr]).
    - injection Hr as Ec Ee Er; subst c e r'. exists C'. rsplit; auto; try congruence.
      intros _. unfold I_shr. cbn [sr_cur sr_off sr_w]. rsplit; auto.
    - injection Hr as Ec Ee Er; subst c e r'. exists C'. rsplit; auto; congruence.
  Qed.

  Lemma shr_read_nu fuel cap r c e r' :
    urd_nu (sr_cur r) -> shr_read fuel cap r = ((c, e), r') -> e <> EUnexp /\ (e = ENone -> urd_nu (sr_cur r')).
  Proof.
    intros Hn Hr. unfold shr_read in Hr.
    destruct (urd_read fuel cap (sr_cur r)) as [[data e0] cur'] eqn:Hu.
    destruct (urd_read_nu _ _ _ _ _ _ Hu Hn) as (He0 & Hn').
    assert (Hesc : forall act ob e' passed act', escalate e0 act = ((ob, e'), passed, act') -> ob = None -> e' <> EUnexp).
    { clear -He0. intros act. revert He0. generalize e0. induction act as [|h rest IH]; intros e1 He1 ob e' passed act' He Hob;
        cbn [escalate] in He.
      - inv He. exact He1.
      - destruct (on_error h e1) as [a h']. destruct a as [b|c0]; [inv He; discriminate|].
        destruct (escalate (ECode c0) rest) as [[r0 passed0] act0] eqn:Hr0. destruct r0 as [ob0 e0']. inv He.
        eapply IH; [|exact Hr0|reflexivity]. congruence. }
    destruct (escalate e0 (w_act (sr_w r))) as [[[ob e'] passed] act'] eqn:He.
    destruct e0.
    - inv Hr. split; [congruence|intros _; exact Hn'].
    - inv Hr. split; congruence.
    - destruct ob as [b|]; inv Hr.
      + split; [congruence|intros _; cbn; apply urd_open_nu].
      + split; [eapply Hesc; [exact He|reflexivity]|intros _; exact Hn'].
    - destruct ob as [b|]; inv Hr.
      + split; [congruence|intros _; cbn; apply urd_open_nu].
      + split; [eapply Hesc; [exact He|reflexivity]|intros _; exact Hn'].
    - destruct ob as [b|]; inv Hr.
      + split; [congruence|intros _; cbn; apply urd_open_nu].
      + split; [eapply Hesc; [exact He|reflexivity]|intros _; exact Hn'].
  Qed.
End StackCarry.

Section StackMethods.
  Variable H : bytes -> bytes.
  Variable cfg : vcfg.
  Variable fuel : nat.
  Variable C : bytes.

  Lemma sch_init_carries b w : carries_full C b -> hs_carry C (w_act w) -> I_sch C C (sch_init fuel b w).
  Proof.
    intros Hc Hh. unfold I_sch, sch_init. cbn [sc_cur sc_off sc_w]. rewrite dropN_0. rsplit; auto; [|lia].
    rewrite <- (dropN_0 C) at 1. apply ucr_open_carries; [assumption|lia].
  Qed.
  Lemma shr_init_carries b w : carries_full C b -> hs_carry C (w_act w) -> I_shr C C (shr_init fuel b w).
  Proof.
    intros Hc Hh. unfold I_shr, shr_init. cbn [sr_cur sr_off sr_w]. rewrite dropN_0. rsplit; auto; [|lia].
    rewrite <- (dropN_0 C) at 1. apply urd_open_carries; [assumption|lia].
  Qed.

  Lemma shv_complete_is_object max b w out st' :
    carries_full C b -> hs_carry C (w_act w) ->
    drains (shv_read H cfg fuel max) (vinit cfg (sch_init fuel b w)) out EEof st' -> out = C.
  Proof.
    intros Hc Hh Hd. unfold shv_read in Hd.
    destruct (vcr_complete_implies_valid _ _ _ _ _ _ _ _ Hd) as ((u & Hdu) & _).
    destruct (claw_drains _ _ _ (sch_claw C fuel max fuel) _ _ _ _ Hdu _ (sch_init_carries _ _ Hc Hh)) as (C' & E & He).
    rewrite (He eq_refl), app_nil_r in E. auto.
  Qed.

  Lemma shrv_complete_is_object b w out st' :
    carries_full C b -> hs_carry C (w_act w) ->
    rdrains (shrv_read H cfg fuel) (vinit cfg (shr_init fuel b w)) out EEof st' -> out = C.
  Proof.
    intros Hc Hh Hd. unfold shrv_read in Hd.
    assert (HP : forall cap s c e s', urd_nu (sr_cur s) -> shr_read fuel cap s = ((c, e), s') ->
                   e <> EUnexp /\ (e = ENone -> urd_nu (sr_cur s')))
      by (intros; eapply shr_read_nu; eauto).
    destruct (vr_complete_under_init H cfg _ (shr_read fuel) fuel (fun s => urd_nu (sr_cur s)) HP (shr_init fuel b w) _ _
                (urd_open_nu fuel b 0) Hd) as (Hu & _).
    destruct (rlaw_rdrains _ _ _ (shr_rlaw C fuel) _ _ _ _ Hu _ (shr_init_carries _ _ Hc Hh)) as (C' & E & He).
    rewrite (He eq_refl), app_nil_r in E. auto.
  Qed.

  (** nested tryRepeatedly *)
  Lemma try_stack_no_dup : forall n m b w cbs d e cbs' w',
    try_stack H cfg fuel n m b w cbs = (d, e, cbs', w') -> m <> MDiscard ->
    carries_full C b -> hs_carry C (w_act w) ->
    completed m e = true -> d = expected_slice m C.
  Proof.
    induction n as [|n IH]; intros m b w cbs d e cbs' w' Ht Hm Hc Hh Hcomp; cbn [try_stack] in Ht.
    - destruct (o_err (plain H cfg fuel b m)) eqn:Ee;
        try (inv Ht; apply plain_complete; auto; rewrite Ee; exact Hcomp);
        match type of Ht with context [escalate ?t ?a] => destruct (escalate t a) as [[[ob e'] passed] act'] eqn:Hesc end;
        (destruct (escalate_carry C _ _ _ _ _ _ Hesc Hh) as (_ & _ & Hob);
         destruct ob; inv Ht;
         [rewrite completed_fuel in Hcomp; discriminate
         |destruct Hob as [->|(c0 & ->)];
          first [rewrite completed_unexp in Hcomp|rewrite completed_code in Hcomp|rewrite completed_fuel in Hcomp];
          discriminate]).
    - destruct (o_err (plain H cfg fuel b m)) eqn:Ee;
        try (inv Ht; apply plain_complete; auto; rewrite Ee; exact Hcomp);
        match type of Ht with context [escalate ?t ?a] => destruct (escalate t a) as [[[ob e'] passed] act'] eqn:Hesc end;
        (destruct (escalate_carry C _ _ _ _ _ _ Hesc Hh) as (_ & Ha & Hob);
         destruct ob;
         [eapply IH; eauto
         |inv Ht; destruct Hob as [->|(c0 & ->)];
          first [rewrite completed_unexp in Hcomp|rewrite completed_code in Hcomp|rewrite completed_fuel in Hcomp];
          discriminate]).
  Qed.

  Theorem ehs_method_no_dup b w m :
    carries_full C b -> hs_carry C (w_act w) -> m <> MDiscard ->
    completed m (y_err (ehs_method H cfg fuel b w m)) = true ->
    y_data (ehs_method H cfg fuel b w m) = expected_slice m C.
  Proof.
    intros Hc Hh Hm. destruct m; try congruence; cbn [ehs_method].
    - destruct (try_stack _ _ _ _ _ _ _ _) as [[[d e] cbs] w'] eqn:Ht. cbn [y_err y_data]. intros Hcomp.
      eapply try_stack_no_dup; eauto.
    - unfold into_writer_cr. destruct (drain _ fuel [] _) as [[out e] st] eqn:Hd. cbn [y_err y_data expected_slice].
      intros Hcomp.
      assert (He : e = EEof).
      { destruct e; try discriminate; [|reflexivity]. exfalso.
        destruct (drain_drains _ _ _ _ _ _ _ _ Hd) as (bs & _ & Hds); [congruence|].
        exact (drains_not_none _ _ _ _ _ _ Hds eq_refl). }
      subst e.
      destruct (drain_drains _ _ _ _ _ _ _ _ Hd) as (bs & -> & Hds); [congruence|]. cbn [app].
      eapply shv_complete_is_object; eauto.
    - destruct (try_stack _ _ _ _ _ _ _ _) as [[[d e] cbs] w'] eqn:Ht. cbn [y_err y_data]. intros Hcomp.
      eapply try_stack_no_dup; eauto.
    - destruct (valid_offset (g_size cfg) off) eqn:Hv; [|cbn; discriminate].
      destruct (drain _ fuel [] _) as [[out e] o] eqn:Hd.
      destruct (extra_reads _ extra o) as [ex o2]. cbn [y_err y_data expected_slice completed].
      intros Hcomp. destruct e; try discriminate.
      destruct (drain_drains _ _ _ _ _ _ _ _ Hd) as (bs & -> & Hds); [congruence|]. cbn [app].
      destruct (offset_complete_generic _ _ _ _ _ _ _ _ Hds) as (_ & full & u & Hfull & ->).
      rewrite (shv_complete_is_object _ _ _ _ _ Hc Hh Hfull). reflexivity.
    - destruct (rconsume _ fuel caps _ [] _) as [[out e] st] eqn:Hr.
      destruct (rextra _ extra _ st) as [ex st2]. cbn [y_err y_data expected_slice completed].
      intros Hcomp. destruct e; try discriminate.
      destruct (rconsume_rdrains _ _ _ _ _ _ _ _ _ _ Hr) as (bs & -> & Hds); [congruence|]. cbn [app].
      eapply shrv_complete_is_object; eauto.
    - destruct (try_stack _ _ _ _ _ _ _ _) as [[[d e] cbs] w'] eqn:Ht.
      destruct e; cbn [y_err y_data completed is_none expected_slice]; try discriminate. intros _.
      change C with (expected_slice (MToByteSlice max) C).
      eapply try_stack_no_dup; eauto. congruence.
  Qed.

  (** applying the handlers one after the other *)
  Lemma stack_handlers_carry : forall hs b w b' w',
    stack_handlers b w hs = (b', w') -> carries_full C b -> hs_carry C (w_act w) -> hs_carry C hs ->
    carries_full C b' /\ hs_carry C (w_act w').
  Proof.
    induction hs as [|h rest IH]; intros b w b' w' Hs Hc Hw Hh; cbn [stack_handlers] in Hs.
    - inv Hs. auto.
    - inversion Hh as [|x l Hh1 Hrest]; subst. destruct (w_act w) as [|a0 act0] eqn:Ea.
      + destruct (with_error_handler _ b h) as [r h'] eqn:Hw'.
        destruct (weh_carries C _ _ _ _ _ Hw' Hc Hh1) as (Hc' & Hh').
        destruct r as [b1|b1]; eapply IH; try exact Hs; cbn [w_act]; auto;
          try (constructor; [exact Hh'|constructor]); try constructor.
      + eapply IH; try exact Hs; cbn [w_act]; auto. rewrite <- Ea in *.
        apply Forall_app. split; [exact Hw|constructor; [exact Hh1|constructor]].
  Qed.

  (** The property's first sentence for stacks of any depth. *)
  Theorem run_stack_no_dup_no_skip b0 anss m :
    carries_full C b0 -> Forall (Forall (ans_carries C)) anss -> m <> MDiscard ->
    completed m (y_err (run_stack H cfg fuel b0 anss m)) = true ->
    y_data (run_stack H cfg fuel b0 anss m) = expected_slice m C.
  Proof.
    intros Hc Hall Hm. unfold run_stack.
    destruct (stack_handlers b0 _ _) as [b w] eqn:Hs.
    assert (Hhs : hs_carry C (map (fun a => mkHst a []) anss)).
    { unfold hs_carry, h_carry. rewrite Forall_map. cbn. exact Hall. }
    destruct (stack_handlers_carry _ _ _ _ _ Hs Hc ltac:(constructor) Hhs) as (Hc' & Hw').
    destruct (w_act w) as [|a act] eqn:Ea.
    - cbn [y_err y_data]. apply plain_complete; assumption.
    - apply ehs_method_no_dup; try assumption. rewrite Ea. exact Hw'.
  Qed.
End StackMethods.
