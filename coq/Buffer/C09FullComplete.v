(** C09 (completion) — the converse needed by the monitor: VALID content with
    accepted parameters is never rejected.  For both stream constructors and
    every method, if the script's content ends with io.EOF and has the digest's
    size and hash, the parameters are acceptable and the model did not run out
    of fuel, the call / stream completes. *)
From Coq Require Import List ZArith NArith Bool Lia.
From BBS Require Import Common.Sx Buffer.Source Buffer.Validate Buffer.Convert Buffer.StreamProofs
  Buffer.ValidateProofs Buffer.ValidateReaderProofs Buffer.ConvertProofs Buffer.ReaderBufferProofs
  Buffer.ConvertProofs2 Buffer.C09FullValidate Buffer.C09FullCombinators Buffer.C09FullReader
  Buffer.C09FullChunk Buffer.C09FullReaderBuf Run.R09.
Import ListNotations.
Open Scope N_scope.

Section ChunkComplete.
  Variable H : bytes -> bytes.
  Variable cfg : vcfg.
  Variable fuel : nat.
  Notation rdv := (cv_read H cfg fuel).

  Lemma cv_terminal_valid evs bs e st' :
    drains rdv (cv_init cfg evs) bs e st' -> valid_script H cfg evs -> e <> EFuel -> e = EEof.
  Proof.
    intros Hd Hv Hnf. unfold cv_read, cv_init in Hd.
    pose proof (Inv2_init H cfg csrc csrc_read (mkCsrc evs 0)) as Hi0.
    destruct (vcr_drains2 _ _ _ _ _ _ _ _ _ _ _ Hi0 Hd) as [[_ Hi] He]. rewrite He in Hi.
    pose proof (drains_not_none _ _ _ _ _ _ Hd) as Hnn.
    assert (Hvs : valid_stream H cfg csrc_read (mkCsrc evs 0)) by (apply (valid_stream_script H cfg evs 0); exact Hv).
    destruct (csrc_drains evs 0) as (send & Hsrc). destruct Hv as (Ht & _). rewrite Ht in Hsrc.
    assert (Hbad : origin2 H cfg csrc csrc_read (mkCsrc evs 0) e -> e = EEof).
    { intros [->|[(_ & Hnv & _)|(Hne & bs' & u' & Hd' & _)]]; [congruence|contradiction|].
      destruct (drains_det _ _ _ _ _ _ _ _ _ Hsrc Hd') as (_ & <- & _). reflexivity. }
    destruct e; try congruence; apply Hbad, Hi.
  Qed.

  Lemma cv_offset_terminal_valid evs off bs e o' :
    drains (offset_read rdv) (offset_init rdv cv_close fuel off (cv_init cfg evs)) bs e o' ->
    (0 <= off)%Z -> e <> EFuel -> valid_script H cfg evs -> e = EEof.
  Proof.
    unfold offset_init. intros Hdo Hoff Hnf Hv.
    destruct (off <? 0)%Z eqn:Hneg; [apply Z.ltb_lt in Hneg; lia|].
    destruct (discard_from_chunk_reader rdv fuel (Z.to_N off) (cv_init cfg evs)) as [[prefix e0] s'] eqn:Hdis.
    assert (Hfail : e0 <> ENone ->
              drains (offset_read rdv) (mkOst (cv_close s') [] e0) bs e o' -> e = EEof).
    { intros Hne Hdo'.
      destruct (offset_fixed_drains _ _ _ _ _ _ Hdo') as (Ee & ->); [exact Hne|]. cbn in Ee. subst e0.
      destruct (discard_fails _ _ _ _ _ _ _ _ Hdis Hne Hnf) as (bs0 & Hd0 & Hl0).
      exact (cv_terminal_valid _ _ _ _ Hd0 Hv Hnf). }
    destruct e0; try (apply Hfail; [congruence|exact Hdo]).
    destruct (discard_pulls _ _ _ _ _ _ _ Hdis) as (bs0 & Hp0 & -> & Hle).
    destruct (offset_drains _ _ _ _ _ _ _ Hdo) as (bs2 & -> & Hd2).
    exact (cv_terminal_valid _ _ _ _ (pulls_drains _ _ _ _ _ _ _ _ Hp0 Hd2) Hv Hnf).
  Qed.

  Theorem chunk_valid_completes evs m o :
    m <> MDiscard -> cas_chunk_reader H cfg fuel evs m = o -> o_err o <> EFuel ->
    valid_script H cfg evs -> bad_param (g_size cfg) m = false ->
    completed m (o_err o) = true.
  Proof.
    intros Hm Ho Hnf Hv Hbp.
    destruct m; try congruence; cbn [cas_chunk_reader] in Ho; cbn [bad_param completed] in *.
    - unfold to_byte_slice_cr in Ho. rewrite Hbp in Ho.
      destruct (drain rdv fuel [] (cv_init cfg evs)) as [[out e] s'] eqn:Hd. subst o. cbn [o_err cv_out] in *.
      assert (Hne : e <> EFuel) by (destruct e; cbn in Hnf; congruence).
      destruct (drain_drains _ _ _ _ _ _ _ _ Hd Hne) as (bs & -> & Hds).
      rewrite (cv_terminal_valid _ _ _ _ Hds Hv Hne). reflexivity.
    - unfold into_writer_cr in Ho.
      destruct (drain rdv fuel [] (cv_init cfg evs)) as [[out e] s'] eqn:Hd. subst o. cbn [o_err cv_out] in *.
      assert (Hne : e <> EFuel) by (destruct e; cbn in Hnf; congruence).
      destruct (drain_drains _ _ _ _ _ _ _ _ Hd Hne) as (bs & -> & Hds).
      rewrite (cv_terminal_valid _ _ _ _ Hds Hv Hne). reflexivity.
    - apply Z.ltb_ge in Hbp. unfold read_at_cr in Ho.
      set (o0 := offset_init rdv cv_close fuel off (cv_init cfg evs)) in *.
      assert (Hterm : forall bs e o', drains (offset_read rdv) o0 bs e o' -> e <> EFuel -> e = EEof).
      { intros bs e o' Hd Hne. exact (cv_offset_terminal_valid _ _ _ _ _ Hd Hbp Hne Hv). }
      destruct (read_at_fill rdv fuel plen [] o0) as [[got e] o1] eqn:Hfill.
      destruct (read_at_fill_spec _ _ _ _ _ _ _ _ _ Hfill) as [Hok Hko]. cbn [app] in *.
      assert (Hdirect : e <> ENone -> e <> EFuel -> e = EEof).
      { intros Hn1 Hn2. destruct (Hko Hn1 Hn2) as (bs & Hd & _). exact (Hterm _ _ _ Hd Hn2). }
      destruct e.
      + destruct (Hok eq_refl) as (bs1 & Hp1 & -> & Hle).
        destruct (drain (offset_read rdv) fuel [] o1) as [[out2 e2] o2] eqn:Hdr. subst o.
        cbn [o_err cv_out fst snd] in *.
        assert (Hne : e2 <> EFuel) by (destruct e2; cbn in Hnf; congruence).
        destruct (drain_drains _ _ _ _ _ _ _ _ Hdr Hne) as (bs2 & _ & Hd2).
        rewrite (Hterm _ _ _ (pulls_drains _ _ _ _ _ _ _ _ Hp1 Hd2) Hne). reflexivity.
      + subst o. reflexivity.
      + discriminate Hdirect; congruence.
      + discriminate Hdirect; congruence.
      + subst o. cbn in Hnf. congruence.
    - apply negb_false_iff in Hbp. rewrite Hbp in Ho.
      unfold valid_offset in Hbp. apply andb_true_iff in Hbp. destruct Hbp as [Hv0 Hv1]. apply Z.leb_le in Hv0.
      set (o0 := offset_init rdv cv_close fuel off (cv_init cfg evs)) in *.
      destruct (drain (norm_read (offset_read rdv) fuel max) fuel [] (mkNst o0 [])) as [[out e] n] eqn:Hd.
      destruct (extra_reads (norm_read (offset_read rdv) fuel max) extra n) as [ex n2]. subst o.
      cbn [o_err cv_out] in *.
      destruct (drain_drains _ _ _ _ _ _ _ _ Hd Hnf) as (bs & -> & Hds).
      apply norm_drains in Hds; [|exact Hnf]. destruct Hds as (bs1 & E & Hdo). cbn [n_last n_u app] in E, Hdo. subst bs1.
      rewrite (cv_offset_terminal_valid _ _ _ _ _ Hdo Hv0 Hnf Hv). reflexivity.
    - destruct (rconsume (cb_read rdv fuel) fuel caps (last_cap caps) [] (mkCbst (cv_init cfg evs) [])) as [[out e] s] eqn:Hrc.
      destruct (rextra (cb_read rdv fuel) extra (last_cap caps) s) as [ex s2]. subst o.
      cbn [o_err cv_out] in *.
      destruct (rconsume_rdrains _ _ _ _ _ _ _ _ _ _ Hrc Hnf) as (bs & -> & Hd).
      destruct (cb_rdrains _ _ _ _ _ _ _ Hd Hnf) as (bs2 & Hd2 & ->). cbn [cb_u cb_last app] in *.
      rewrite (cv_terminal_valid _ _ _ _ Hd2 Hv Hnf). reflexivity.
    - unfold to_byte_slice_cr in Ho. rewrite Hbp in Ho.
      destruct (drain rdv fuel [] (cv_init cfg evs)) as [[out e] s'] eqn:Hd. subst o.
      assert (Hne : e <> EFuel) by (destruct e; cbn in Hnf; congruence).
      destruct (drain_drains _ _ _ _ _ _ _ _ Hd Hne) as (bs & -> & Hds).
      rewrite (cv_terminal_valid _ _ _ _ Hds Hv Hne). reflexivity.
  Qed.
End ChunkComplete.

Section ReaderComplete.
  Variable H : bytes -> bytes.
  Variable cfg : vcfg.
  Variable fuel : nat.
  Notation vrd := (rv_read H cfg fuel).

  Lemma Pr_valid evs attach st :
    Pr H cfg evs attach st -> valid_script H cfg evs ->
    v_err st = ENone \/ v_err st = EEof \/ v_err st = EFuel.
  Proof. intros (out & Hi) Hv. exact (RInv3_valid H cfg rsrc rcont _ _ _ Hi Hv). Qed.

  Theorem reader_valid_completes evs attach m o :
    m <> MDiscard -> cas_reader H cfg fuel evs attach m = o -> o_err o <> EFuel ->
    valid_script H cfg evs -> bad_param (g_size cfg) m = false ->
    completed m (o_err o) = true.
  Proof.
    intros Hm Ho Hnf Hv Hbp.
    pose proof (Pr_read H cfg fuel evs attach) as Hag. pose proof (Pr_init H cfg evs attach) as HP0.
    pose proof (RI_init H cfg evs attach) as HI0.
    (* an error remembered by a reachable validator state can only be io.EOF *)
    assert (Hexp : forall st e, Pr H cfg evs attach st -> v_err st = e -> e <> ENone -> e <> EFuel -> e = EEof).
    { intros st e Hp <- Hn1 Hn2. destruct (Pr_valid _ _ _ Hp Hv) as [A|[A|A]]; congruence. }
    assert (Hslice : forall max r st, (max <? g_size cfg) = false ->
              to_byte_slice_r H cfg fuel max (rv_init cfg evs attach) = (r, st) ->
              snd r <> EFuel -> snd r = ENone).
    { intros max r st Hmax Ht Hn2. unfold to_byte_slice_r in Ht. rewrite Hmax in Ht.
      destruct (0 <? g_size cfg) eqn:Hpos.
      - destruct (read_full vrd fuel (g_size cfg) (rv_init cfg evs attach)) as [[data e] st1] eqn:Hrf.
        pose proof (read_full_agree _ _ _ _ Hag fuel (g_size cfg) _ HP0) as [_ Hp1]. rewrite Hrf in Hp1. cbn [snd] in Hp1.
        injection Ht as <- <-. unfold read_full, rv_read in Hrf.
        destruct (read_full_vr2 H cfg _ _ fuel rcont rsrc_spec rsrc_no_unexp rsrc_cap _ [] _ _ [] _ _ _ _
                    HI0 ltac:(unfold lenN; cbn; lia) Hrf) as (Hi1 & _ & Hshort). cbn [app] in Hi1.
        assert (Hnoshort : e = EEof \/ e = EUnexp -> False).
        { intros Hx. destruct (Hshort Hx) as (Hve & Hlt).
          destruct (RInv2_eof _ _ _ _ _ _ _ Hi1 Hve) as (_ & Hl & _). lia. }
        destruct e; cbn [snd] in *; auto; try (exfalso; apply Hnoshort; auto; fail); try congruence.
        exfalso.
        destruct (read_full_err H cfg rsrc rsrc_read fuel _ _ _ _ _ _ _ Hrf ltac:(congruence) ltac:(congruence))
          as [(Hu & _)|Hve]; [congruence|].
        pose proof (Hexp _ _ Hp1 Hve ltac:(congruence) ltac:(congruence)). congruence.
      - destruct (vrd 0 (rv_init cfg evs attach)) as [[d e] st1] eqn:Hvr.
        pose proof (Hag 0 _ HP0) as [_ Hp1]. rewrite Hvr in Hp1. cbn [snd] in Hp1.
        unfold rv_read in Hvr. pose proof (vr_read_err H cfg rsrc rsrc_read fuel _ _ _ _ _ Hvr) as He.
        injection Ht as <- <-. cbn [snd] in *.
        destruct e; auto; try congruence.
        all: pose proof (Hexp _ _ Hp1 He ltac:(congruence) ltac:(congruence)); congruence. }
    destruct m; try congruence; cbn [cas_reader] in Ho; cbn [bad_param completed] in *.
    - (* ToByteSlice *)
      destruct (to_byte_slice_r H cfg fuel max (rv_init cfg evs attach)) as [[out e] st] eqn:Ht. subst o.
      cbn [o_err rv_out] in *. pose proof (Hslice _ _ _ Hbp Ht Hnf) as He. cbn [snd] in He. subst e. reflexivity.
    - (* IntoWriter *)
      destruct (copy vrd fuel (rv_init cfg evs attach)) as [[out e] st] eqn:Hcp. subst o. cbn [o_err rv_out] in *.
      pose proof (copy_agree _ _ _ _ Hag fuel _ HP0) as [_ Hp1]. rewrite Hcp in Hp1. cbn [snd] in Hp1.
      unfold copy, rv_read in Hcp. pose proof (copy_not_eof _ _ _ _ _ _ _ _ _ Hcp) as Hne.
      destruct (err_eqb e ENone) eqn:E1; [destruct e; try discriminate; reflexivity|].
      assert (Hn1 : e <> ENone) by (intros ->; discriminate).
      pose proof (copy_err H cfg rsrc rsrc_read fuel _ _ _ _ _ _ _ Hcp Hn1 Hnf) as Hve.
      pose proof (Hexp _ _ Hp1 Hve Hn1 Hnf). congruence.
    - (* ReadAt *)
      apply Z.ltb_ge in Hbp. unfold discard_from_reader in Ho.
      replace (off <? 0)%Z with false in Ho by (symmetry; apply Z.ltb_ge; exact Hbp).
      destruct (copy_n_loop vrd fuel (Z.to_N off) (rv_init cfg evs attach)) as [e0 st] eqn:Hcn.
      pose proof (copy_n_loop_agree _ _ _ _ Hag fuel (Z.to_N off) _ HP0) as [_ Hp1]. rewrite Hcn in Hp1. cbn [snd] in Hp1.
      unfold rv_read in Hcn.
      assert (Hfirst : e0 <> ENone -> o = rv_out [] e0 [] [] (rv_close st) -> is_none (o_err o) || err_eqb (o_err o) EEof = true).
      { intros Hn1 ->. cbn [o_err rv_out] in *.
        pose proof (copy_n_err H cfg rsrc rsrc_read fuel _ _ _ _ _ Hcn Hn1 Hnf) as Hve.
        rewrite (Hexp _ _ Hp1 Hve Hn1 Hnf). reflexivity. }
      destruct e0; try (apply Hfirst; [congruence|symmetry; exact Ho]). clear Hfirst.
      destruct (read_full vrd fuel plen st) as [[got e] st1] eqn:Hrf.
      pose proof (read_full_agree _ _ _ _ Hag fuel plen _ Hp1) as [_ Hp2]. rewrite Hrf in Hp2. cbn [snd] in Hp2.
      unfold read_full, rv_read in Hrf.
      destruct e; try (subst o; reflexivity).
      + destruct (copy vrd fuel st1) as [[w e2] st2] eqn:Hcp.
        pose proof (copy_agree _ _ _ _ Hag fuel _ Hp2) as [_ Hp3]. rewrite Hcp in Hp3. cbn [snd] in Hp3.
        unfold copy, rv_read in Hcp. pose proof (copy_not_eof _ _ _ _ _ _ _ _ _ Hcp) as Hne2.
        destruct (err_eqb e2 ENone) eqn:E1; [destruct e2; try discriminate; subst o; reflexivity|].
        assert (Hn1 : e2 <> ENone) by (intros ->; discriminate).
        assert (Hn2 : e2 <> EFuel) by (intros ->; subst o; cbn in Hnf; congruence).
        pose proof (copy_err H cfg rsrc rsrc_read fuel _ _ _ _ _ _ _ Hcp Hn1 Hn2) as Hve.
        pose proof (Hexp _ _ Hp3 Hve Hn1 Hn2). congruence.
      + exfalso.
        destruct (read_full_err H cfg rsrc rsrc_read fuel _ _ _ _ _ _ _ Hrf ltac:(congruence) ltac:(congruence))
          as [(Hu & _)|Hve]; [congruence|].
        pose proof (Hexp _ _ Hp2 Hve ltac:(congruence) ltac:(congruence)). congruence.
      + subst o. cbn in Hnf. congruence.
    - (* ToChunkReader *)
      apply negb_false_iff in Hbp. rewrite Hbp in Ho.
      unfold valid_offset in Hbp. apply andb_true_iff in Hbp. destruct Hbp as [Hv0 Hv1]. apply Z.leb_le in Hv0.
      unfold discard_from_reader in Ho.
      replace (off <? 0)%Z with false in Ho by (symmetry; apply Z.ltb_ge; exact Hv0).
      destruct (copy_n_loop vrd fuel (Z.to_N off) (rv_init cfg evs attach)) as [e0 st] eqn:Hcn.
      pose proof (copy_n_loop_agree _ _ _ _ Hag fuel (Z.to_N off) _ HP0) as [_ Hp1]. rewrite Hcn in Hp1. cbn [snd] in Hp1.
      unfold rv_read in Hcn.
      assert (Hfirst : e0 <> ENone -> o = rv_out [] e0 (repeat e0 extra) [] (rv_close st) -> err_eqb (o_err o) EEof = true).
      { intros Hn1 ->. cbn [o_err rv_out] in *.
        pose proof (copy_n_err H cfg rsrc rsrc_read fuel _ _ _ _ _ Hcn Hn1 Hnf) as Hve.
        rewrite (Hexp _ _ Hp1 Hve Hn1 Hnf). reflexivity. }
      destruct e0; try (apply Hfirst; [congruence|symmetry; exact Ho]). clear Hfirst.
      destruct (drain (rb_read vrd fuel max) fuel [] (mkRbst st ENone)) as [[out e] s] eqn:Hdr.
      destruct (extra_reads (rb_read vrd fuel max) extra s) as [ex s2]. subst o. cbn [o_err rv_out] in *.
      assert (Hnunexp : forall st, Pr H cfg evs attach st -> v_err st <> EUnexp).
      { intros st' Hp. destruct (Pr_valid _ _ _ Hp Hv) as [A|[A|A]]; congruence. }
      destruct (rb_drain_tracks H cfg fuel (Pr H cfg evs attach) max Hnunexp Hag fuel [] (mkRbst st ENone) _ _ _ Hp1
                  ltac:(left; reflexivity) Hdr Hnf) as (Hps & Hvs & Hne).
      rewrite (Hexp _ _ Hps Hvs Hne Hnf). reflexivity.
    - (* ToReader *)
      destruct (rconsume vrd fuel caps (last_cap caps) [] (rv_init cfg evs attach)) as [[out e] st] eqn:Hrc.
      destruct (rextra vrd extra (last_cap caps) st) as [ex st2]. subst o. cbn [o_err rv_out] in *.
      pose proof (rconsume_agree _ _ _ _ Hag fuel caps (last_cap caps) [] _ HP0) as [_ Hp1]. rewrite Hrc in Hp1. cbn [snd] in Hp1.
      destruct (rconsume_rdrains _ _ _ _ _ _ _ _ _ _ Hrc Hnf) as (bs & -> & Hd).
      pose proof (rdrains_not_none _ _ _ _ _ _ Hd) as Hne.
      unfold rv_read in Hrc.
      pose proof (rconsume_err H cfg rsrc rsrc_read fuel _ _ _ _ _ _ _ _ Hrc Hnf) as Hve.
      rewrite (Hexp _ _ Hp1 Hve Hne Hnf). reflexivity.
    - (* CloneCopy *)
      destruct (to_byte_slice_r H cfg fuel max (rv_init cfg evs attach)) as [r st] eqn:Ht. subst o.
      unfold clone_copy_of in *. destruct r as [out e]. cbn [fst snd] in *.
      assert (Hn2 : e <> EFuel) by (intros ->; cbn in Hnf; congruence).
      pose proof (Hslice _ _ _ Hbp Ht Hn2) as He. cbn [snd] in He. subst e. reflexivity.
  Qed.
End ReaderComplete.
