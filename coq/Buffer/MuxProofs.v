(** C15, model M1: invariants of the multiplexer LTS. *)
From Coq Require Import List ZArith NArith Bool Arith Lia.
From BBS Require Import Buffer.Mux.
Import ListNotations.

Section P.
  Variable nchunks : nat.
  Variable term : Z.
  Notation items := (items nchunks term).
  Notation item_at := (item_at nchunks term).
  Notation step := (step nchunks term).
  Notation run := (run nchunks term).

  Definition b2n (b : bool) : nat := if b then 1 else 0.

  Lemma items_S k : items (S k) = items k ++ [item_at k].
  Proof. unfold Mux.items. rewrite seq_S, map_app. reflexivity. Qed.

  Lemma count_cons s c l : count s (c :: l) = b2n (is_st s c) + count s l.
  Proof. unfold count. cbn. destruct (is_st s c); reflexivity. Qed.

  Lemma count_upd s l : forall i c c', nth_error l i = Some c ->
    count s (upd i c' l) + b2n (is_st s c) = count s l + b2n (is_st s c').
  Proof.
    induction l as [|h t IH]; intros [|i] c c' H; cbn in H; try discriminate.
    - inversion H; subst. cbn [upd]. rewrite !count_cons. lia.
    - cbn [upd]. rewrite !count_cons. specialize (IH i c c' H). lia.
  Qed.

  Lemma count_pos s l i c : nth_error l i = Some c -> is_st s c = true -> 1 <= count s l.
  Proof.
    revert i. induction l as [|h t IH]; intros [|i] H Hs; cbn in H; try discriminate.
    - inversion H; subst. rewrite count_cons, Hs. cbn. lia.
    - rewrite count_cons. specialize (IH i H Hs). lia.
  Qed.

  Lemma count_zero s l : count s l = 0 -> forall c, In c l -> is_st s c = false.
  Proof.
    induction l as [|h t IH]; intros H c Hin; cbn in Hin; [contradiction|destruct Hin as [->|Hin]].
    - rewrite count_cons in H. destruct (is_st s c); [cbn in H; lia|reflexivity].
    - apply IH; [|exact Hin]. rewrite count_cons in H. lia.
  Qed.

  Lemma In_upd {A} (l : list A) : forall i x y, In y (upd i x l) -> y = x \/ In y l.
  Proof.
    induction l as [|h t IH]; intros i x y H; destruct i; cbn in H; try contradiction.
    - destruct H as [<-|H]; [left; reflexivity|right; right; exact H].
    - destruct H as [<-|H]; [right; left; reflexivity|].
      destruct (IH i x y H); [left; assumption|right; right; assumption].
  Qed.

  Lemma upd_map_upd {A} (f : A -> A) (l : list A) : forall i x y,
    upd i x (map f (upd i y l)) = upd i x (map f l).
  Proof.
    induction l as [|h t IH]; intros [|i] x y; cbn; try reflexivity.
    rewrite IH. reflexivity.
  Qed.

  Lemma nth_error_map_some {A} (f : A -> A) l i c :
    nth_error l i = Some c -> nth_error (map f l) i = Some (f c).
  Proof. intros H. rewrite nth_error_map, H. reflexivity. Qed.

  Lemma nth_error_upd_same {A} (l : list A) : forall i c x,
    nth_error l i = Some c -> nth_error (upd i x l) i = Some x.
  Proof. induction l as [|h t IH]; intros [|i] c x H; cbn in *; try discriminate; [reflexivity|eapply IH; exact H]. Qed.

  Lemma length_upd {A} (l : list A) : forall i x, length (upd i x l) = length l.
  Proof. induction l as [|h t IH]; intros [|i] x; cbn; try reflexivity. rewrite IH. reflexivity. Qed.

  (** counts after the two wake-ups *)
  Lemma count_wake_read it l :
    count CNew (wake_read it l) = count CNew l /\
    count CWaitReg (wake_read it l) = count CWaitReg l /\
    count CReady (wake_read it l) = count CReady l + count CWaitRead l /\
    count CWaitRead (wake_read it l) = 0 /\
    count CDone (wake_read it l) = count CDone l.
  Proof.
    induction l as [|h t IH]; [cbn; repeat split; reflexivity|].
    cbn [wake_read map]. fold (wake_read it t). rewrite !count_cons.
    destruct IH as (I1 & I2 & I3 & I4 & I5). rewrite I1, I2, I3, I4, I5.
    unfold is_st. destruct (st h) eqn:E; cbn [st b2n]; rewrite ?E; cbn; repeat split; lia.
  Qed.

  Lemma count_wake_reg l :
    count CNew (wake_reg l) = count CNew l /\
    count CWaitReg (wake_reg l) = 0 /\
    count CReady (wake_reg l) = count CReady l + count CWaitReg l /\
    count CWaitRead (wake_reg l) = count CWaitRead l /\
    count CDone (wake_reg l) = count CDone l.
  Proof.
    induction l as [|h t IH]; [cbn; repeat split; reflexivity|].
    cbn [wake_reg map]. fold (wake_reg t). rewrite !count_cons.
    destruct IH as (I1 & I2 & I3 & I4 & I5). rewrite I1, I2, I3, I4, I5.
    unfold is_st. destruct (st h) eqn:E; cbn [st set_st b2n]; rewrite ?E; cbn; repeat split; lia.
  Qed.

  Lemma In_wake_read it l x : In x (wake_read it l) ->
    exists c, In c l /\
      ((st c = CWaitRead /\ st x = CReady /\ got x = got c ++ [it]) \/ (st c <> CWaitRead /\ x = c)).
  Proof.
    unfold wake_read. rewrite in_map_iff. intros (c & <- & Hin). exists c. split; [exact Hin|].
    unfold is_st. destruct (st c) eqn:E; cbn; try (right; split; [discriminate|reflexivity]).
    left. repeat split.
  Qed.

  Lemma In_wake_reg l x : In x (wake_reg l) -> exists c, In c l /\ got x = got c.
  Proof.
    unfold wake_reg. rewrite in_map_iff. intros (c & <- & Hin). exists c. split; [exact Hin|].
    destruct (is_st CWaitReg c); reflexivity.
  Qed.

  (** ---- the invariant ---- *)
  Definition Inv (s : mst) : Prop :=
    panicked s = false /\
    if created s then
      count CNew (cs s) = 0 /\ count CWaitReg (cs s) = 0 /\
      pending s = count CReady (cs s) /\ length (waiting s) = count CWaitRead (cs s) /\
      (forall c, In c (cs s) -> st c <> CDone -> got c = items (srcpos s)) /\
      (forall c, In c (cs s) -> exists k, k <= srcpos s /\ got c = items k) /\
      ((1 <= count CReady (cs s) /\ closed s = 0) \/
       (count CReady (cs s) = 0 /\ count CWaitRead (cs s) = 0 /\ closed s = 1))
    else
      remaining s = count CNew (cs s) /\ 1 <= remaining s /\
      length (regwait s) = count CWaitReg (cs s) /\
      count CReady (cs s) = 0 /\ count CWaitRead (cs s) = 0 /\ count CDone (cs s) = 0 /\
      srcpos s = 0 /\ closed s = 0 /\ (forall c, In c (cs s) -> got c = []).

  Lemma count_init s progs : count s (map new_cons progs) = if is_st s (mkC 0 false 0%N CNew []) then length progs else 0.
  Proof.
    induction progs as [|[[r d] z] t IH]; [destruct s; reflexivity|].
    cbn [map]. rewrite count_cons, IH. destruct s; cbn; reflexivity.
  Qed.

  Lemma init_inv progs : progs <> [] -> Inv (init progs).
  Proof.
    intros Hne. unfold Inv, init. cbn [panicked created cs remaining regwait srcpos closed].
    rewrite !count_init. cbn. repeat split; try reflexivity.
    - destruct progs; [contradiction|cbn; lia].
    - intros c Hin. apply in_map_iff in Hin. destruct Hin as ([[r d] z] & <- & _). reflexivity.
  Qed.

  Ltac cnt5 H c' :=
    pose proof (count_upd CNew _ _ _ c' H);
    pose proof (count_upd CWaitReg _ _ _ c' H);
    pose proof (count_upd CReady _ _ _ c' H);
    pose proof (count_upd CWaitRead _ _ _ c' H);
    pose proof (count_upd CDone _ _ _ c' H).

  Lemma step_inv s i s' : Inv s -> step s i = Some s' -> Inv s'.
  Proof.
    intros [Hp HI] Hs. unfold Mux.step in Hs. rewrite Hp in Hs.
    destruct (nth_error (cs s) i) as [c|] eqn:Hn; [|discriminate].
    destruct (st c) eqn:Hst; try discriminate; inversion Hs; subst s'; clear Hs.
    - (* register *)
      assert (Hpos : 1 <= count CNew (cs s)) by (eapply count_pos; [exact Hn|unfold is_st; rewrite Hst; reflexivity]).
      destruct (created s) eqn:Hc; [destruct HI as (H0 & _); lia|].
      destruct HI as (Hrem & Hrem1 & Hrw & Hr & Hwr & Hd & Hsp & Hcl & Hgot).
      unfold do_register. destruct (remaining s) as [|r] eqn:Er; [lia|].
      destruct r as [|r'].
      + (* last to register: the multiplexer is created *)
        split; [exact Hp|]. cbn [created cs pending waiting srcpos closed]. rewrite ?Hc.
        destruct (count_wake_reg (cs s)) as (W1 & W2 & W3 & W4 & W5).
        assert (Hn' : nth_error (wake_reg (cs s)) i = Some c).
        { unfold wake_reg. erewrite nth_error_map_some; [|exact Hn]. unfold is_st. rewrite Hst. reflexivity. }
        cnt5 Hn' (set_st c CReady).
        unfold is_st in *. cbn [st set_st b2n] in *. rewrite Hst in *. cbn [b2n] in *.
        repeat split; cbn [length]; try lia.
        * intros x Hin _. apply In_upd in Hin. rewrite Hsp. destruct Hin as [->|Hin].
          -- cbn. apply Hgot. eapply nth_error_In; exact Hn.
          -- apply In_wake_reg in Hin. destruct Hin as (c0 & Hin & ->). apply Hgot; exact Hin.
        * intros x Hin. exists 0. split; [lia|]. apply In_upd in Hin. destruct Hin as [->|Hin].
          -- cbn. apply Hgot. eapply nth_error_In; exact Hn.
          -- apply In_wake_reg in Hin. destruct Hin as (c0 & Hin & ->). apply Hgot; exact Hin.
      + split; [exact Hp|]. cbn [created cs remaining regwait srcpos closed].
        cnt5 Hn (set_st c CWaitReg).
        unfold is_st in *. cbn [st set_st b2n] in *. rewrite Hst in *. cbn [b2n] in *.
        rewrite app_length. cbn [length].
        repeat split; cbn [length]; try lia.
        intros x Hin. apply In_upd in Hin. destruct Hin as [->|Hin]; [cbn; apply Hgot; eapply nth_error_In; exact Hn|apply Hgot; exact Hin].
    - (* read or close *)
      assert (Hpos : 1 <= count CReady (cs s)) by (eapply count_pos; [exact Hn|unfold is_st; rewrite Hst; reflexivity]).
      destruct (created s) eqn:Hc; [|destruct HI as (_ & _ & _ & H0 & _); lia].
      destruct HI as (Hnew & Hwreg & Hpend & Hwait & Hgot & Hpre & Hdisj).
      assert (Hcl : closed s = 0) by (destruct Hdisj as [[_ H]|[H _]]; [exact H|lia]).
      assert (Hin_c : In c (cs s)) by (eapply nth_error_In; exact Hn).
      assert (Hgc : got c = items (srcpos s)) by (apply Hgot; [exact Hin_c|rewrite Hst; discriminate]).
      destruct (reads c) as [|k] eqn:Hreads.
      + (* close *)
        unfold do_close. destruct (pending s) as [|p] eqn:Ep; [lia|].
        cnt5 Hn (set_st c CDone).
        unfold is_st in *. cbn [st set_st b2n] in *. rewrite Hst in *. cbn [b2n] in *.
        destruct p as [|p'].
        * destruct (waiting s) as [|w ws] eqn:Ew.
          -- (* last to leave: the source is closed *)
             split; [exact Hp|]. cbn [created cs pending waiting srcpos closed length]. rewrite ?Hc.
             cbn [length] in Hwait.
             repeat split; cbn [length]; try lia.
             ++ intros x Hin Hnd. apply In_upd in Hin. destruct Hin as [->|Hin]; [cbn in Hnd; congruence|apply Hgot; assumption].
             ++ intros x Hin. apply In_upd in Hin. destruct Hin as [->|Hin]; [cbn; apply Hpre; exact Hin_c|apply Hpre; exact Hin].
          -- (* reads on behalf of the waiting consumers *)
             split; [exact Hp|]. cbn [created cs pending waiting srcpos closed]. rewrite ?Hc.
             destruct (count_wake_read (item_at (srcpos s)) (upd i (set_st c CDone) (cs s))) as (W1 & W2 & W3 & W4 & W5).
             assert (Hr0 : count CReady (upd i (set_st c CDone) (cs s)) = 0) by lia.
             assert (Hn0 : count CNew (upd i (set_st c CDone) (cs s)) = 0) by lia.
             assert (Hg0 : count CWaitReg (upd i (set_st c CDone) (cs s)) = 0) by lia.
             cbn [length] in *.
             repeat split; cbn [length]; try lia.
             ++ intros x Hin Hnd. apply In_wake_read in Hin. destruct Hin as (c0 & Hin0 & [(Hs0 & Hsx & Hgx)|(Hs0 & ->)]).
                ** rewrite Hgx, items_S. f_equal. apply In_upd in Hin0. destruct Hin0 as [->|Hin0]; [cbn in Hs0; discriminate|].
                   apply Hgot; [exact Hin0|rewrite Hs0; discriminate].
                ** exfalso. pose proof (count_zero _ _ Hr0 _ Hin0) as Z1. pose proof (count_zero _ _ Hn0 _ Hin0) as Z2.
                   pose proof (count_zero _ _ Hg0 _ Hin0) as Z3. unfold is_st in Z1, Z2, Z3.
                   destruct (st c0); congruence.
             ++ intros x Hin. apply In_wake_read in Hin. destruct Hin as (c0 & Hin0 & [(Hs0 & Hsx & Hgx)|(Hs0 & ->)]).
                ** exists (S (srcpos s)). split; [lia|]. rewrite Hgx, items_S. f_equal.
                   apply In_upd in Hin0. destruct Hin0 as [->|Hin0]; [cbn in Hs0; discriminate|].
                   apply Hgot; [exact Hin0|rewrite Hs0; discriminate].
                ** apply In_upd in Hin0. destruct Hin0 as [->|Hin0].
                   --- cbn. destruct (Hpre c Hin_c) as (k0 & Hk & Hg). exists k0. split; [lia|exact Hg].
                   --- destruct (Hpre c0 Hin0) as (k0 & Hk & Hg). exists k0. split; [lia|exact Hg].
        * split; [exact Hp|]. cbn [created cs pending waiting srcpos closed]. rewrite ?Hc.
          repeat split; cbn [length]; try lia.
          -- intros x Hin Hnd. apply In_upd in Hin. destruct Hin as [->|Hin]; [cbn in Hnd; congruence|apply Hgot; assumption].
          -- intros x Hin. apply In_upd in Hin. destruct Hin as [->|Hin]; [cbn; apply Hpre; exact Hin_c|apply Hpre; exact Hin].
      + (* read *)
        unfold do_read. destruct (pending s) as [|p] eqn:Ep; [lia|].
        destruct p as [|p'].
        * (* last to arrive: reads and shares *)
          split; [exact Hp|]. cbn [created cs pending waiting srcpos closed reads pred]. rewrite ?Hc.
          rewrite Hreads. cbn [Init.Nat.pred].
          set (it := item_at (srcpos s)).
          set (cnew := mkC k (disc c) (csz c) CReady (got c ++ [it])).
          unfold wake_read.
          rewrite <- (upd_map_upd _ (cs s) i cnew (set_st c CDone)). fold (wake_read it (upd i (set_st c CDone) (cs s))).
          cnt5 Hn (set_st c CDone).
          destruct (count_wake_read it (upd i (set_st c CDone) (cs s))) as (W1 & W2 & W3 & W4 & W5).
          assert (Hn' : nth_error (wake_read it (upd i (set_st c CDone) (cs s))) i = Some (set_st c CDone)).
          { unfold wake_read.
            rewrite (nth_error_map_some _ _ _ _ (nth_error_upd_same _ _ _ (set_st c CDone) Hn)).
            reflexivity. }
          pose proof (count_upd CNew _ _ _ cnew Hn').
          pose proof (count_upd CWaitReg _ _ _ cnew Hn').
          pose proof (count_upd CReady _ _ _ cnew Hn').
          pose proof (count_upd CWaitRead _ _ _ cnew Hn').
          pose proof (count_upd CDone _ _ _ cnew Hn').
          unfold is_st in *. cbn [st set_st b2n cnew] in *. rewrite Hst in *. cbn [b2n] in *.
          assert (Hr0 : count CReady (upd i (set_st c CDone) (cs s)) = 0) by lia.
          assert (Hn0 : count CNew (upd i (set_st c CDone) (cs s)) = 0) by lia.
          assert (Hg0 : count CWaitReg (upd i (set_st c CDone) (cs s)) = 0) by lia.
          repeat split; cbn [length]; try lia.
          -- intros x Hin Hnd. apply In_upd in Hin. destruct Hin as [->|Hin].
             ++ unfold cnew; cbn [got]. rewrite Hgc, items_S. reflexivity.
             ++ apply In_wake_read in Hin. destruct Hin as (c0 & Hin0 & [(Hs0 & Hsx & Hgx)|(Hs0 & ->)]).
                ** rewrite Hgx, items_S. f_equal. apply In_upd in Hin0. destruct Hin0 as [->|Hin0]; [cbn in Hs0; discriminate|].
                   apply Hgot; [exact Hin0|rewrite Hs0; discriminate].
                ** exfalso. pose proof (count_zero _ _ Hr0 _ Hin0) as Z1. pose proof (count_zero _ _ Hn0 _ Hin0) as Z2.
                   pose proof (count_zero _ _ Hg0 _ Hin0) as Z3. unfold is_st in Z1, Z2, Z3.
                   destruct (st c0); congruence.
          -- intros x Hin. apply In_upd in Hin. destruct Hin as [->|Hin].
             ++ exists (S (srcpos s)). split; [lia|]. unfold cnew; cbn [got]. rewrite Hgc, items_S. reflexivity.
             ++ apply In_wake_read in Hin. destruct Hin as (c0 & Hin0 & [(Hs0 & Hsx & Hgx)|(Hs0 & ->)]).
                ** exists (S (srcpos s)). split; [lia|]. rewrite Hgx, items_S. f_equal.
                   apply In_upd in Hin0. destruct Hin0 as [->|Hin0]; [cbn in Hs0; discriminate|].
                   apply Hgot; [exact Hin0|rewrite Hs0; discriminate].
                ** apply In_upd in Hin0. destruct Hin0 as [->|Hin0].
                   --- cbn. destruct (Hpre c Hin_c) as (k0 & Hk & Hg). exists k0. split; [lia|exact Hg].
                   --- destruct (Hpre c0 Hin0) as (k0 & Hk & Hg). exists k0. split; [lia|exact Hg].
        * (* parks until the last one arrives *)
          split; [exact Hp|]. cbn [created cs pending waiting srcpos closed reads pred]. rewrite ?Hc.
          rewrite Hreads. cbn [Init.Nat.pred].
          cnt5 Hn (set_st (mkC k (disc c) (csz c) (st c) (got c)) CWaitRead).
          unfold is_st in *. cbn [st set_st b2n] in *. rewrite Hst in *. cbn [b2n] in *.
          rewrite app_length. cbn [length].
          repeat split; cbn [length]; try lia.
          -- intros x Hin Hnd. apply In_upd in Hin. destruct Hin as [->|Hin]; [cbn; exact Hgc|apply Hgot; assumption].
          -- intros x Hin. apply In_upd in Hin. destruct Hin as [->|Hin]; [cbn; apply Hpre; exact Hin_c|apply Hpre; exact Hin].
  Qed.

  Lemma run_inv sched : forall s s', Inv s -> run s sched = Some s' -> Inv s'.
  Proof.
    induction sched as [|i rest IH]; intros s s' HI H; cbn in H.
    - inversion H; subst; exact HI.
    - destruct (step s i) as [s1|] eqn:E; [|discriminate]. eapply IH; [|exact H]. eapply step_inv; eassumption.
  Qed.

  (** ---- consequences ---- *)

  Lemma count_pos_exists st0 l : 1 <= count st0 l -> exists i c, nth_error l i = Some c /\ is_st st0 c = true.
  Proof.
    induction l as [|h t IH]; intros H; [cbn in H; lia|].
    rewrite count_cons in H. destruct (is_st st0 h) eqn:E.
    - exists 0, h. split; [reflexivity|exact E].
    - cbn in H. destruct (IH H) as (i & c & Hn & Hc). exists (S i), c. split; assumption.
  Qed.

  Lemma all_done_counts l :
    forallb (is_st CDone) l = true <->
    count CNew l = 0 /\ count CWaitReg l = 0 /\ count CReady l = 0 /\ count CWaitRead l = 0.
  Proof.
    induction l as [|h t IH]; [cbn; tauto|].
    cbn [forallb]. rewrite !count_cons, andb_true_iff, IH.
    unfold is_st. destruct (st h); cbn; split; intros; repeat split; try tauto; try lia; try discriminate.
  Qed.

  Theorem no_panic s : Inv s -> panicked s = false.
  Proof. intros [H _]; exact H. Qed.

  (** Every consumer has received a prefix of what the source produced, and
      every consumer that has not closed has received all of it. *)
  Theorem same_sequence s c : Inv s -> In c (cs s) ->
    (exists k, k <= srcpos s /\ got c = items k) /\
    (st c <> CDone -> got c = items (srcpos s)).
  Proof.
    intros [_ HI] Hin. destruct (created s).
    - destruct HI as (_ & _ & _ & _ & Hgot & Hpre & _). split; [apply Hpre; exact Hin|apply Hgot; exact Hin].
    - destruct HI as (_ & _ & _ & _ & _ & _ & Hsp & _ & Hgot). rewrite Hsp, (Hgot c Hin).
      split; [exists 0; split; [lia|reflexivity]|reflexivity].
  Qed.

  Theorem closed_once_after_all s : Inv s ->
    closed s <= 1 /\ (closed s = 1 <-> all_done s = true).
  Proof.
    intros [_ HI]. unfold all_done. rewrite all_done_counts. destruct (created s).
    - destruct HI as (H1 & H2 & _ & _ & _ & _ & [[H3 H4]|(H3 & H4 & H5)]); split; try lia; split; intros; try lia; repeat split; lia.
    - destruct HI as (H1 & H2 & _ & _ & _ & _ & _ & H3 & _). split; [lia|]. split; intros; lia.
  Qed.

  Theorem no_stuck s : Inv s -> all_done s = false -> exists i s', step s i = Some s'.
  Proof.
    intros [Hp HI] Hnd.
    assert (Hex : exists i c, nth_error (cs s) i = Some c /\ (st c = CNew \/ st c = CReady)).
    { destruct (created s).
      - destruct HI as (H1 & H2 & _ & _ & _ & _ & [[H3 _]|(H3 & H4 & _)]).
        + destruct (count_pos_exists _ _ H3) as (i & c & Hn & Hc). exists i, c. split; [exact Hn|].
          right. unfold is_st in Hc. destruct (st c); try discriminate; reflexivity.
        + exfalso. unfold all_done in Hnd. rewrite (proj2 (all_done_counts (cs s))) in Hnd; [discriminate|tauto].
      - destruct HI as (H1 & H2 & _). rewrite H1 in H2.
        destruct (count_pos_exists _ _ H2) as (i & c & Hn & Hc). exists i, c. split; [exact Hn|].
        left. unfold is_st in Hc. destruct (st c); try discriminate; reflexivity. }
    destruct Hex as (i & c & Hn & Hc). exists i. unfold Mux.step. rewrite Hp, Hn.
    destruct Hc as [-> | ->]; eexists; reflexivity.
  Qed.

  (** ---- ranking ---- *)
  Definition rankl (l : list cons) : nat := fold_right (fun c a => rank1 c + a) 0 l.

  Lemma rankl_upd l : forall i c c', nth_error l i = Some c ->
    rankl (upd i c' l) + rank1 c = rankl l + rank1 c'.
  Proof.
    induction l as [|h t IH]; intros [|i] c c' H; cbn in H; try discriminate.
    - inversion H; subst. cbn. lia.
    - cbn [upd rankl fold_right]. specialize (IH i c c' H). unfold rankl in IH. lia.
  Qed.

  Lemma rankl_wake_read it l : rankl (wake_read it l) = rankl l.
  Proof.
    induction l as [|h t IH]; [reflexivity|]. cbn [wake_read map rankl fold_right].
    fold (wake_read it t). unfold rankl in IH. rewrite IH. f_equal.
    unfold is_st, rank1. destruct (st h) eqn:E; cbn; rewrite ?E; reflexivity.
  Qed.

  Lemma rankl_wake_reg l : rankl (wake_reg l) = rankl l.
  Proof.
    induction l as [|h t IH]; [reflexivity|]. cbn [wake_reg map rankl fold_right].
    fold (wake_reg t). unfold rankl in IH. rewrite IH. f_equal.
    unfold is_st, rank1. destruct (st h) eqn:E; cbn; rewrite ?E; reflexivity.
  Qed.

  Theorem step_decreases s i s' : Inv s -> step s i = Some s' -> rank s' < rank s.
  Proof.
    intros [Hp HI] Hs. unfold Mux.step in Hs. rewrite Hp in Hs.
    destruct (nth_error (cs s) i) as [c|] eqn:Hn; [|discriminate].
    change (rank s) with (rankl (cs s)). change (rank s') with (rankl (cs s')).
    destruct (st c) eqn:Hst; try discriminate; inversion Hs; subst s'; clear Hs.
    - assert (Hpos : 1 <= count CNew (cs s)) by (eapply count_pos; [exact Hn|unfold is_st; rewrite Hst; reflexivity]).
      assert (R1 : rank1 c = reads c + 2) by (unfold rank1; rewrite Hst; reflexivity).
      destruct (created s) eqn:Hc; [destruct HI as (H0 & _); lia|].
      destruct HI as (Hrem & Hrem1 & _).
      unfold do_register. destruct (remaining s) as [|r] eqn:Er; [lia|]. destruct r as [|r']; cbn [cs].
      + assert (Hn' : nth_error (wake_reg (cs s)) i = Some c).
        { unfold wake_reg. rewrite (nth_error_map_some _ _ _ _ Hn). unfold is_st. rewrite Hst. reflexivity. }
        pose proof (rankl_upd _ _ _ (set_st c CReady) Hn') as H. rewrite rankl_wake_reg in H.
        assert (R2 : rank1 (set_st c CReady) = reads c + 1) by reflexivity. lia.
      + pose proof (rankl_upd _ _ _ (set_st c CWaitReg) Hn) as H.
        assert (R2 : rank1 (set_st c CWaitReg) = reads c + 1) by reflexivity. lia.
    - assert (Hpos : 1 <= count CReady (cs s)) by (eapply count_pos; [exact Hn|unfold is_st; rewrite Hst; reflexivity]).
      assert (R1 : rank1 c = reads c + 1) by (unfold rank1; rewrite Hst; reflexivity).
      destruct (created s) eqn:Hc; [|destruct HI as (_ & _ & _ & H0 & _); lia].
      destruct HI as (_ & _ & Hpend & _).
      pose proof (rankl_upd _ _ _ (set_st c CDone) Hn) as HD.
      assert (RD : rank1 (set_st c CDone) = 0) by reflexivity.
      destruct (reads c) as [|k] eqn:Hreads.
      + unfold do_close. destruct (pending s) as [|p]; [lia|].
        destruct p; [destruct (waiting s)|]; cbn [cs]; rewrite ?rankl_wake_read; lia.
      + unfold do_read. destruct (pending s) as [|p]; [lia|]. rewrite Hreads. cbn [Init.Nat.pred].
        destruct p; cbn [cs reads Init.Nat.pred].
        * set (it := item_at (srcpos s)).
          set (cnew := mkC k (disc c) (csz c) CReady (got c ++ [it])).
          unfold wake_read. rewrite <- (upd_map_upd _ (cs s) i cnew (set_st c CDone)).
          fold (wake_read it (upd i (set_st c CDone) (cs s))).
          assert (Hn' : nth_error (wake_read it (upd i (set_st c CDone) (cs s))) i = Some (set_st c CDone)).
          { unfold wake_read.
            rewrite (nth_error_map_some _ _ _ _ (nth_error_upd_same _ _ _ (set_st c CDone) Hn)). reflexivity. }
          pose proof (rankl_upd _ _ _ cnew Hn') as H1. rewrite rankl_wake_read in H1.
          assert (R2 : rank1 cnew = k + 1) by reflexivity. lia.
        * pose proof (rankl_upd _ _ _ (set_st (mkC k (disc c) (csz c) (st c) (got c)) CWaitRead) Hn) as H.
          assert (R2 : rank1 (set_st (mkC k (disc c) (csz c) (st c) (got c)) CWaitRead) = k + 1) by reflexivity. lia.
  Qed.

  (** No schedule is longer than the initial rank: every consumer finishes
      after finitely many steps, whatever the scheduler does. *)
  Theorem bounded_runs sched : forall s s', Inv s -> run s sched = Some s' ->
    length sched + rank s' <= rank s.
  Proof.
    induction sched as [|i rest IH]; intros s s' HI H; cbn in H.
    - inversion H; subst. cbn. lia.
    - destruct (step s i) as [s1|] eqn:E; [|discriminate].
      pose proof (step_decreases _ _ _ HI E). pose proof (IH _ _ (step_inv _ _ _ HI E) H). cbn [length]. lia.
  Qed.

  (** Rank zero means everybody has finished. *)
  Lemma rank_zero_done s : Inv s -> rank s = 0 -> all_done s = true.
  Proof.
    intros HI H0. destruct (all_done s) eqn:E; [reflexivity|].
    destruct (no_stuck s HI E) as (i & s' & Hs). pose proof (step_decreases _ _ _ HI Hs). lia.
  Qed.
End P.
