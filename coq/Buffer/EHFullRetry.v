(** C16 — whole-operation retries on a stack (ToByteSlice, ReadAt, CloneCopy
    through nested tryRepeatedly): the buffer on which the operation finally
    succeeds is the one the monitor's [buffer_in_use] computes from the scripts
    and the number of offers each level received, and the error the outermost
    handler returned last is the consumer's result. *)
From Coq Require Import List ZArith NArith Bool Lia.
From BBS Require Import Common.Sx Buffer.Source Buffer.Validate Buffer.Convert Buffer.ErrHandler
  Buffer.StreamProofs Buffer.ValidateProofs Buffer.ConvertProofs Buffer.ErrHandlerProofs
  Buffer.EHFullCarry Buffer.EHFullExact Buffer.EHFullStackExact Buffer.EHFullStacking Buffer.EHFullCompleted
  Run.R09 Run.R16 Run.R16Proofs.
Import ListNotations.
Open Scope nat_scope.

(** [buffer_in_use] on the numbers of offers *)
Fixpoint biu (cur : option bufscript) (S : list (list answer)) (ns : list nat) : option bufscript :=
  match S, ns with
  | ans :: S', n :: ns' =>
      biu (match n with
           | O => cur
           | Datatypes.S j' => match nth_error ans j' with Some (Replace b) => Some b | _ => None end
           end) S' ns'
  | _, _ => cur
  end.
Lemma buffer_in_use_biu : forall S (offd : list (list Z)) cur,
  buffer_in_use cur S offd = biu cur S (map (@length Z) offd).
Proof.
  induction S as [|a S IH]; intros [|o offd] cur; cbn [buffer_in_use biu map]; try reflexivity. apply IH.
Qed.
Lemma biu_zeros : forall S ns cur, Forall (fun n => n = 0) ns -> biu cur S ns = cur.
Proof.
  induction S as [|a S IH]; intros [|n ns] cur Hz; cbn [biu]; try reflexivity.
  inversion Hz; subst. apply IH. assumption.
Qed.
Lemma biu_app : forall S1 ns1 S2 ns2 cur, length S1 = length ns1 ->
  biu cur (S1 ++ S2) (ns1 ++ ns2) = biu (biu cur S1 ns1) S2 ns2.
Proof.
  induction S1 as [|a S1 IH]; intros [|n ns1] S2 ns2 cur Hl; cbn in Hl; try discriminate; [reflexivity|].
  cbn [app biu]. apply IH. lia.
Qed.

Definition lens (hs : list hst) : list nat := map (fun h => length (oel h)) hs.
Definition lv_ok (a0 : list answer) (h : hst) : Prop := h_answers h = skipn (length (oel h)) a0.
Definition aligned (S : list (list answer)) (hs : list hst) : Prop := Forall2 lv_ok S hs.
Definition hd0 : hst := mkHst [] [].

Lemma lens_done hs : lens (map done hs) = lens hs.
Proof. unfold lens. rewrite map_map. apply map_ext. intros h. now rewrite oel_done. Qed.
Lemma lv_ok_done a0 h : lv_ok a0 h -> lv_ok a0 (done h).
Proof. unfold lv_ok. rewrite oel_done. auto. Qed.
Lemma aligned_done S hs : aligned S hs -> aligned S (map done hs).
Proof. induction 1; cbn; constructor; [apply lv_ok_done|]; assumption. Qed.

(** one offer *)
Lemma offer_spec a0 h t a h' :
  lv_ok a0 h -> on_error h t = (a, h') ->
  lv_ok a0 h' /\ length (oel h') = Datatypes.S (length (oel h)) /\
  match a with
  | Replace b => nth_error a0 (length (oel h)) = Some (Replace b) /\ returned a0 (Datatypes.S (length (oel h))) = None
  | Fail c => returned a0 (Datatypes.S (length (oel h))) = Some c /\
              match nth_error a0 (length (oel h)) with Some (Replace _) => False | _ => True end
  end.
Proof.
  intros Hok Ho. unfold lv_ok in *.
  destruct (on_error_script h t a0 _ Hok) as (Hf & Hs & Hrep). rewrite Ho in Hf, Hs, Hrep. cbn [fst snd] in *.
  pose proof (oel_on_error h t) as Hl. rewrite Ho in Hl. cbn [snd] in Hl.
  assert (Hlen : length (oel h') = Datatypes.S (length (oel h))) by (rewrite Hl, app_length; cbn; lia).
  rsplit; [rewrite Hlen; exact Hs|exact Hlen|].
  unfold script_answer in Hf. cbn [returned].
  destruct a as [b|c].
  - pose proof (Hrep b eq_refl) as Hn. rewrite Hn. auto.
  - destruct (nth_error a0 (length (oel h))) as [[b|c0]|]; [discriminate|inv Hf; auto|inv Hf; auto].
Qed.

(** one escalation through the active levels *)
Lemma esc_levels : forall acts Sa t ob e' passed act',
  escalate t acts = ((ob, e'), passed, act') -> aligned Sa acts ->
  (forall h, In h (tl acts) -> oel h = []) ->
  aligned Sa (map done passed ++ act') /\
  match ob with
  | Some b' =>
      (forall cur, biu cur Sa (lens (map done passed ++ act')) = Some b') /\
      (forall h, In h (tl act') -> oel h = []) /\ act' <> [] /\
      returned (last Sa []) (length (oel (last act' hd0))) = None
  | None =>
      act' = [] /\
      (acts <> [] -> exists c, e' = ECode c /\
                              returned (last Sa []) (length (oel (last (map done passed) hd0))) = Some c)
  end.
Proof.
  induction acts as [|h rest IH]; intros Sa t ob e' passed act' He Hal Hno; cbn [escalate] in He.
  - inv He. inversion Hal; subst. cbn. rsplit; auto; try constructor; try congruence.
  - inversion Hal as [|a0 h0 Sr r0 Hok Halr]; subst.
    destruct (on_error h t) as [a h'] eqn:Ho.
    destruct (offer_spec _ _ _ _ _ Hok Ho) as (Hok' & Hlen & Hans).
    assert (Hzr : Forall (fun n => n = 0) (lens rest)).
    { unfold lens. rewrite Forall_map. apply Forall_forall. intros x Hx. rewrite (Hno x Hx). reflexivity. }
    destruct a as [b|c].
    + inv He. cbn [map app]. destruct Hans as (Hn & Hq). rsplit.
      * constructor; assumption.
      * intros cur. cbn [lens map biu]. rewrite Hlen, Hn. fold (lens rest). apply biu_zeros. exact Hzr.
      * exact Hno.
      * discriminate.
      * destruct rest as [|h2 r2].
        -- inversion Halr; subst. cbn. rewrite Hlen. exact Hq.
        -- inversion Halr as [|a2 x2 Sr2 y2 _ _]; subst.
           assert (E1 : last (a0 :: a2 :: Sr2) [] = last (a2 :: Sr2) []) by reflexivity.
           assert (E2 : last (h' :: h2 :: r2) hd0 = last (h2 :: r2) hd0) by reflexivity.
           rewrite E1, E2.
           assert (Hl : oel (last (h2 :: r2) hd0) = []).
           { apply Hno. cbn [tl]. clear. generalize h2. induction r2 as [|x r IH]; intros h; [left; reflexivity|].
             right. apply (IH x). }
           rewrite Hl. reflexivity.
    + destruct (escalate (ECode c) rest) as [[r0 passed0] act0] eqn:Hr. destruct r0 as [ob0 e0]. inv He.
      assert (Hno' : forall x, In x (tl rest) -> oel x = []) by (intros x Hx; apply Hno; cbn [tl]; destruct rest; [contradiction|right; exact Hx]).
      destruct (IH _ _ _ _ _ _ Hr Halr Hno') as (Hal' & Hm).
      destruct Hans as (Hret & Hnr).
      split; [cbn [map app]; constructor; [apply lv_ok_done; exact Hok'|exact Hal']|].
      destruct ob as [b'|].
      * destruct Hm as (Hb & Hno2 & Hne & Hq). rsplit; auto.
        -- intros cur. cbn [map app lens biu]. rewrite oel_done, Hlen. fold (lens (map done passed0 ++ act')).
           destruct (nth_error a0 (length (oel h))) as [[b|c0]|]; [contradiction|apply Hb|apply Hb].
        -- destruct rest as [|h2 r2]; [cbn in Hr; inv Hr|]. inversion Halr; subst. exact Hq.
      * destruct Hm as (-> & Hm). split; [reflexivity|]. intros _.
        destruct rest as [|h2 r2].
        -- cbn in Hr. inv Hr. inversion Halr; subst. exists c. cbn [map last]. rewrite oel_done, Hlen. auto.
        -- destruct (Hm ltac:(discriminate)) as (c1 & -> & Hq). exists c1. split; [reflexivity|].
           inversion Halr as [|a2 x2 Sr2 y2 _ _]; subst.
           assert (E1 : last (a0 :: a2 :: Sr2) [] = last (a2 :: Sr2) []) by reflexivity. rewrite E1.
           assert (Hp0 : passed0 <> []).
           { intros ->. cbn in Hr. destruct (on_error h2 (ECode c)) as [a3 h3]. destruct a3; [inv Hr|].
             destruct (escalate (ECode c0) r2) as [[r3 p3] a4]. destruct r3. inv Hr. }
           destruct passed0 as [|p0 ps]; [congruence|]. cbn [map]. cbn [map] in Hq. exact Hq.
Qed.

Lemma Forall2_app_split {A B} (R : A -> B -> Prop) : forall l1 l2 S,
  Forall2 R S (l1 ++ l2) -> exists S1 S2, S = S1 ++ S2 /\ Forall2 R S1 l1 /\ Forall2 R S2 l2.
Proof.
  induction l1 as [|x l1 IH]; intros l2 S Hf; cbn in Hf.
  - exists [], S. auto.
  - inversion Hf as [|a y S' l' Hr Hf']; subst. destruct (IH _ _ Hf') as (S1 & S2 & -> & H1 & H2).
    exists (a :: S1), S2. rsplit; auto.
Qed.
Lemma Forall2_app_join {A B} (R : A -> B -> Prop) S1 l1 S2 l2 :
  Forall2 R S1 l1 -> Forall2 R S2 l2 -> Forall2 R (S1 ++ S2) (l1 ++ l2).
Proof. induction 1; cbn; auto. Qed.
Lemma last_app_ne {A} (l1 l2 : list A) d : l2 <> [] -> last (l1 ++ l2) d = last l2 d.
Proof.
  intros Hn. induction l1 as [|x l1 IH]; [reflexivity|]. cbn [app]. destruct (l1 ++ l2) eqn:E.
  - apply app_eq_nil in E. destruct E; congruence.
  - rewrite <- E in *. cbn [last]. rewrite E. rewrite <- E. exact IH.
Qed.
Lemma last_map_ne {A B} (f : A -> B) l d1 d2 : l <> [] -> last (map f l) d1 = f (last l d2).
Proof.
  induction l as [|x l IH]; intros Hn; [congruence|]. destruct l as [|y l]; [reflexivity|].
  cbn [map last] in *. apply IH. discriminate.
Qed.
Lemma Forall2_len2 {A B} (R : A -> B -> Prop) l l' : Forall2 R l l' -> length l = length l'.
Proof. induction 1; cbn; congruence. Qed.
Lemma lens_app a b : lens (a ++ b) = lens a ++ lens b.
Proof. unfold lens. apply map_app. Qed.
Lemma lens_length a : length (lens a) = length a.
Proof. unfold lens. apply map_length. Qed.

Section RetryInvariant.
  Variable H : bytes -> bytes.
  Variable cfg : vcfg.
  Variable fuel : nat.
  Variable S : list (list answer).
  Variable b0 : bufscript.

  Definition J (w : world) (bcur : bufscript) : Prop :=
    aligned S (lv w) /\ biu (Some b0) S (lens (lv w)) = Some bcur /\
    (forall h, In h (tl (w_act w)) -> oel h = []) /\ w_act w <> [] /\
    returned (last S []) (length (oel (last (w_act w) hd0))) = None.

  Lemma lv_retire w c : lv (retire w c) = lv w. Proof. reflexivity. Qed.

  Lemma J_parts w b : J w b ->
    exists S1 S2, S = S1 ++ S2 /\ aligned S1 (w_dn w) /\ aligned S2 (w_act w) /\
                  length S1 = length (lens (w_dn w)) /\ S2 <> [] /\ last S [] = last S2 [].
  Proof.
    intros (Hal & Hb & Hno & Hne & Hq). unfold lv in Hal.
    destruct (Forall2_app_split _ _ _ _ Hal) as (S1 & S2 & ES & Hal1 & Hal2).
    assert (HS2 : S2 <> []) by (intros E; rewrite E in Hal2; inversion Hal2 as [E2|]; congruence).
    exists S1, S2. rsplit; auto.
    - rewrite lens_length. exact (Forall2_len2 _ _ _ Hal1).
    - rewrite ES. apply last_app_ne. exact HS2.
  Qed.

  Lemma passed_nonempty t acts e' passed act' :
    escalate t acts = ((None, e'), passed, act') -> acts <> [] -> passed <> [].
  Proof.
    destruct acts as [|h r]; [congruence|]. cbn [escalate]. intros He _.
    destruct (on_error h t) as [a h1]. destruct a; [inv He|].
    destruct (escalate (ECode c) r) as [[r3 p3] a4]. destruct r3. inv He. discriminate.
  Qed.

  Lemma J_done w b c : J w b ->
    aligned S (lv (all_done (retire w c))) /\
    biu (Some b0) S (lens (lv (all_done (retire w c)))) = Some b /\
    returned (last S []) (length (oel (last (lv (all_done (retire w c))) hd0))) = None.
  Proof.
    intros HJ. destruct (J_parts _ _ HJ) as (S1 & S2 & ES & Hal1 & Hal2 & Hl1 & HS2 & Hlast).
    destruct HJ as (Hal & Hb & Hno & Hne & Hq).
    unfold lv, all_done. cbn [w_dn w_act retire]. rewrite app_nil_r. rsplit.
    - rewrite ES. apply Forall2_app_join; [exact Hal1|apply aligned_done; exact Hal2].
    - unfold lv in Hb. rewrite lens_app, lens_done, <- lens_app. exact Hb.
    - rewrite last_app_ne by (destruct (w_act w); [congruence|discriminate]).
      rewrite (last_map_ne done _ hd0 hd0 Hne), oel_done. exact Hq.
  Qed.

  Lemma J_fail w b c t e' passed act' : J w b ->
    escalate t (w_act w) = ((None, e'), passed, act') ->
    aligned S (lv (all_done (after_failure (retire w c) passed))) /\
    exists c0, e' = ECode c0 /\
      returned (last S []) (length (oel (last (lv (all_done (after_failure (retire w c) passed))) hd0))) = Some c0.
  Proof.
    intros HJ Hesc. destruct (J_parts _ _ HJ) as (S1 & S2 & ES & Hal1 & Hal2 & Hl1 & HS2 & Hlast).
    destruct HJ as (Hal & Hb & Hno & Hne & Hq).
    destruct (esc_levels _ _ _ _ _ _ _ Hesc Hal2 Hno) as (Hal' & Eact & Hm). subst act'. rewrite app_nil_r in Hal'.
    destruct (Hm Hne) as (c0 & -> & Hr).
    unfold lv, all_done, after_failure. cbn [w_dn w_act retire]. rewrite app_nil_r. split.
    - rewrite ES. apply Forall2_app_join; assumption.
    - exists c0. split; [reflexivity|]. rewrite Hlast, last_app_ne; [exact Hr|].
      pose proof (passed_nonempty _ _ _ _ _ Hesc Hne). destruct passed; [congruence|discriminate].
  Qed.

  Lemma J_replace w b c t b' e0 passed act' : J w b ->
    escalate t (w_act w) = ((Some b', e0), passed, act') ->
    J (after_replace (retire w c) passed act' []) b'.
  Proof.
    intros HJ Hesc. destruct (J_parts _ _ HJ) as (S1 & S2 & ES & Hal1 & Hal2 & Hl1 & HS2 & Hlast).
    destruct HJ as (Hal & Hb & Hno & Hne & Hq).
    destruct (esc_levels _ _ _ _ _ _ _ Hesc Hal2 Hno) as (Hal' & Hbiu & Hno' & Hne' & Hq').
    unfold J, lv, after_replace. cbn [w_dn w_act retire]. rsplit; auto.
    - rewrite ES, <- app_assoc. apply Forall2_app_join; assumption.
    - rewrite ES, <- app_assoc, lens_app, biu_app by exact Hl1. apply Hbiu.
    - rewrite Hlast. exact Hq'.
  Qed.

  Definition retry_result (m : meth) (d : bytes) (e : err) (w' : world) : Prop :=
    aligned S (lv w') /\
    (op_done e = true ->
       exists bf, biu (Some b0) S (lens (lv w')) = Some bf /\ d = o_data (plain H cfg fuel bf m) /\
                  e = o_err (plain H cfg fuel bf m) /\
                  returned (last S []) (length (oel (last (lv w') hd0))) = None) /\
    (op_done e = false ->
       d = [] /\ exists c, e = ECode c /\ returned (last S []) (length (oel (last (lv w') hd0))) = Some c).

  Theorem try_stack_J : forall n m b w cbs d e cbs' w',
    try_stack H cfg fuel n m b w cbs = (d, e, cbs', w') -> J w b -> e <> EFuel -> retry_result m d e w'.
  Proof.
    induction n as [|n IH]; intros m b w cbs d e cbs' w' Ht HJ Hef; cbn [try_stack] in Ht;
      set (o := plain H cfg fuel b m) in *.
    - assert (Hdone : op_done (o_err o) = true ->
                (o_data o, o_err o, cbs ++ o_cbs o, all_done (retire w (closes_of b o))) = (d, e, cbs', w') ->
                retry_result m d e w').
      { intros Hop Hres. injection Hres as <- <- <- <-. destruct (J_done _ _ (closes_of b o) HJ) as (A & B & C).
        unfold retry_result. rsplit; auto; [|intros Hf; fold o in Hf; congruence].
        intros _. exists b. rsplit; auto. }
      assert (Hfail : forall t, o_err o = t -> op_done t = false ->
                (let '(ob, e', passed, act') := escalate t (w_act (retire w (closes_of b o))) in
                 match ob with
                 | Some b' => ([], EFuel, cbs ++ o_cbs o, retire w (closes_of b o))
                 | None => ([], e', cbs ++ o_cbs o, all_done (after_failure (retire w (closes_of b o)) passed))
                 end) = (d, e, cbs', w') -> retry_result m d e w').
      { intros t Et Hop Hres. cbn [retire w_act] in Hres.
        destruct (escalate t (w_act w)) as [[[ob e'] passed] act'] eqn:Hesc.
        destruct ob as [b'|]; [injection Hres as <- <- <- <-; congruence|].
        injection Hres as <- <- <- <-. destruct (J_fail _ _ (closes_of b o) _ _ _ _ HJ Hesc) as (A & c0 & -> & C).
        unfold retry_result. rsplit; auto; [intros Hf; discriminate|]. intros _. split; [reflexivity|]. eauto. }
      destruct (o_err o) eqn:Ee; first [apply Hdone; [reflexivity|exact Ht]|eapply Hfail; [reflexivity|reflexivity|exact Ht]].
    - assert (Hdone : op_done (o_err o) = true ->
                (o_data o, o_err o, cbs ++ o_cbs o, all_done (retire w (closes_of b o))) = (d, e, cbs', w') ->
                retry_result m d e w').
      { intros Hop Hres. injection Hres as <- <- <- <-. destruct (J_done _ _ (closes_of b o) HJ) as (A & B & C).
        unfold retry_result. rsplit; auto; [|intros Hf; fold o in Hf; congruence].
        intros _. exists b. rsplit; auto. }
      assert (Hfail : forall t, o_err o = t -> op_done t = false ->
                (let '(ob, e', passed, act') := escalate t (w_act (retire w (closes_of b o))) in
                 match ob with
                 | Some b' => try_stack H cfg fuel n m b' (after_replace (retire w (closes_of b o)) passed act' []) (cbs ++ o_cbs o)
                 | None => ([], e', cbs ++ o_cbs o, all_done (after_failure (retire w (closes_of b o)) passed))
                 end) = (d, e, cbs', w') -> retry_result m d e w').
      { intros t Et Hop Hres. cbn [retire w_act] in Hres.
        destruct (escalate t (w_act w)) as [[[ob e'] passed] act'] eqn:Hesc.
        destruct ob as [b'|].
        - eapply IH; [exact Hres| |exact Hef]. eapply J_replace; eassumption.
        - injection Hres as <- <- <- <-. destruct (J_fail _ _ (closes_of b o) _ _ _ _ HJ Hesc) as (A & c0 & -> & C).
          unfold retry_result. rsplit; auto; [intros Hf; discriminate|]. intros _. split; [reflexivity|]. eauto. }
      destruct (o_err o) eqn:Ee; first [apply Hdone; [reflexivity|exact Ht]|eapply Hfail; [reflexivity|reflexivity|exact Ht]].
  Qed.
End RetryInvariant.

(** * Applying the handlers *)
Definition known_stream (b : bufscript) : Prop := match b with BError _ => False | _ => True end.

(** what one level does when the handler is applied to [b] *)
Lemma weh_level : forall n b a0 h r h',
  with_error_handler n b h = (r, h') -> length (h_answers h) < n -> lv_ok a0 h ->
  let b' := match r with inl x | inr x => x end in
  lv_ok a0 h' /\
  ((length (oel h') = length (oel h) /\ b' = b /\ known_stream b) \/
   (exists j, length (oel h') = Datatypes.S j /\ length (oel h) <= j /\
      ((nth_error a0 j = Some (Replace b') /\ returned a0 (Datatypes.S j) = None /\ known_stream b') \/
       (exists c, b' = BError c /\ returned a0 (Datatypes.S j) = Some c /\
                  match nth_error a0 j with Some (Replace _) => False | _ => True end /\
                  match r with inr _ => True | inl _ => False end)))).
Proof.
  induction n as [|n IH]; intros b a0 h r h' Hw Hl Hok; [lia|].
  destruct b as [evs|evs a|d|c]; cbn [with_error_handler] in Hw.
  - inv Hw. split; [exact Hok|]. left. cbn. auto.
  - inv Hw. split; [exact Hok|]. left. cbn. auto.
  - inv Hw. split; [apply lv_ok_done; exact Hok|]. left. rewrite oel_done. cbn. auto.
  - destruct (on_error h (ECode c)) as [a h1] eqn:Ho.
    destruct (offer_spec _ _ _ _ _ Hok Ho) as (Hok1 & Hlen & Hans).
    destruct a as [b1|c1].
    + pose proof (on_error_len_replace _ _ _ _ Ho) as Hlr.
      destruct (IH _ _ _ _ _ Hw ltac:(lia) Hok1) as (Hok' & Hcase). split; [exact Hok'|]. right.
      destruct Hans as (Hn & Hq).
      destruct Hcase as [(Hsame & -> & Hks)|(j & Hj & Hle & Hc)].
      * exists (length (oel h)). rewrite Hsame, Hlen. rsplit; auto.
      * exists j. rsplit; auto. lia.
    + inv Hw. destruct Hans as (Hret & Hnr). split; [apply lv_ok_done; exact Hok1|]. right.
      exists (length (oel h)). rewrite oel_done, Hlen. rsplit; auto. right. exists c1. cbn. rsplit; auto.
Qed.

Section Stacking.
  Variable b0 : bufscript.

  (** the state while the handlers are applied and no level is active yet:
      [Sd] the scripts of the levels processed so far, [dn] those levels *)
  Definition K (Sd : list (list answer)) (dn : list hst) (bcur : bufscript) : Prop :=
    aligned Sd dn /\
    ((biu (Some b0) Sd (lens dn) = Some bcur /\ known_stream bcur \/
      biu (Some b0) Sd (lens dn) = Some bcur /\ dn = []) /\
     (dn <> [] -> returned (last Sd []) (length (oel (last dn hd0))) = None)
     \/
     (exists c, bcur = BError c /\ dn <> [] /\ returned (last Sd []) (length (oel (last dn hd0))) = Some c)).

  Lemma fresh_lv_ok a : lv_ok a (mkHst a []).
  Proof. unfold lv_ok. cbn. reflexivity. Qed.

  Lemma biu_snoc Sd ns a n cur : length Sd = length ns ->
    biu cur (Sd ++ [a]) (ns ++ [n]) =
    match n with O => biu cur Sd ns | Datatypes.S j => match nth_error a j with Some (Replace b) => Some b | _ => None end end.
  Proof. intros Hl. rewrite biu_app by exact Hl. cbn. destruct n; reflexivity. Qed.

  Lemma last_snoc {A} (l : list A) (x : A) d : last (l ++ [x]) d = x.
  Proof. apply last_app_ne. discriminate. Qed.

  (** after all handlers have been applied *)
  Theorem stacked_state : forall anss Sd b w b' w',
    stack_handlers b w (map (fun a => mkHst a []) anss) = (b', w') -> w_act w = [] ->
    K Sd (w_dn w) b ->
    (w_act w' <> [] -> J (Sd ++ anss) b0 w' b') /\
    (w_act w' = [] -> K (Sd ++ anss) (w_dn w') b').
  Proof.
    induction anss as [|a rest IH]; intros Sd b w b' w' Hs Hw HK; cbn [map stack_handlers] in Hs.
    - inv Hs. rewrite app_nil_r. split; [congruence|auto].
    - rewrite Hw in Hs. destruct (with_error_handler _ b (mkHst a [])) as [r h'] eqn:Hweh.
      destruct (weh_level _ _ a _ _ _ Hweh ltac:(cbn; lia) (fresh_lv_ok a)) as (Hok' & Hcase). cbn [oel h_log flat_map length] in Hcase.
      destruct HK as (Hal & HKc).
      assert (Hlen : length Sd = length (lens (w_dn w))) by (rewrite lens_length; exact (Forall2_len2 _ _ _ Hal)).
      (* the value of [biu] after this level and what the level returned last *)
      set (bn := match r with inl x | inr x => x end) in *.
      assert (Hnew : (biu (Some b0) (Sd ++ [a]) (lens (w_dn w ++ [h'])) = Some bn /\ known_stream bn /\
                      returned a (length (oel h')) = None) \/
                     (exists c, bn = BError c /\ returned a (length (oel h')) = Some c /\ match r with inr _ => True | inl _ => False end)).
      { rewrite lens_app. cbn [lens map]. rewrite biu_snoc by exact Hlen.
        destruct Hcase as [(Hz & Eb & Hks)|(j & Hj & _ & [(Hn & Hq & Hks)|(c & Eb & Hq & Hnr & Hr)])].
        - left. rewrite Hz. cbn. rewrite Eb. rsplit; auto.
          destruct HKc as [([(Hb & _)|(Hb & _)] & _)|(c & -> & _)]; [exact Hb|exact Hb|contradiction].
        - left. rewrite Hj, Hn. auto.
        - right. exists c. rewrite Hj. auto. }
      destruct r as [b1|b1]; cbn [bn] in *.
      + (* the level becomes active *)
        destruct (stack_push _ _ _ _ _ Hs ltac:(cbn; discriminate)) as (-> & Hd & Ha). cbn [w_dn w_act] in Hd, Ha.
        split; [|intros E; rewrite Ha in E; discriminate]. intros _.
        destruct Hnew as [(Hb & Hks & Hq)|(c & _ & _ & [])].
        assert (Hfresh : Forall2 lv_ok rest (map (fun a1 => mkHst a1 []) rest))
          by (clear; induction rest; cbn; constructor; [apply fresh_lv_ok|assumption]).
        assert (Hz : Forall (fun n => n = 0) (lens (map (fun a1 => mkHst a1 []) rest)))
          by (unfold lens; rewrite !Forall_map; apply Forall_forall; intros; reflexivity).
        unfold J, lv. rewrite Hd, Ha. rsplit.
        * apply Forall2_app_join; [exact Hal|]. cbn [app]. constructor; [exact Hok'|exact Hfresh].
        * change (Sd ++ a :: rest) with (Sd ++ [a] ++ rest).
          rewrite !app_assoc, lens_app, biu_app.
          -- rewrite Hb. apply biu_zeros. exact Hz.
          -- rewrite app_length, lens_length, app_length, (Forall2_len2 _ _ _ Hal). reflexivity.
        * cbn [tl]. intros h Hin. apply in_map_iff in Hin. destruct Hin as (a1 & <- & _). reflexivity.
        * discriminate.
        * destruct rest as [|a2 r2].
          -- cbn [map]. rewrite last_snoc. cbn [last]. exact Hq.
          -- rewrite (last_app_ne [h']) by discriminate.
             rewrite (last_map_ne (fun a1 : list answer => mkHst a1 []) (a2 :: r2) hd0 []) by discriminate. reflexivity.
      + (* the level is finished at once *)
        assert (HK' : K (Sd ++ [a]) (w_dn w ++ [h']) b1).
        { unfold K. split; [apply Forall2_app_join; [exact Hal|constructor; [exact Hok'|constructor]]|].
          rewrite !last_snoc.
          destruct Hnew as [(Hb & Hks & Hq)|(c & Eb & Hq & _)].
          - left. split; [left; auto|auto].
          - right. exists c. split; [exact Eb|]. split; [intros E; apply app_eq_nil in E; destruct E as (_ & E); discriminate E|exact Hq]. }
        specialize (IH (Sd ++ [a]) b1 (mkW (w_dn w ++ [h']) [] (w_closed w)) b' w' Hs eq_refl HK').
        rewrite <- app_assoc in IH. exact IH.
  Qed.
End Stacking.
