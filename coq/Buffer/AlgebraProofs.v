(** C15, model M2: proofs. *)
From Coq Require Import List ZArith NArith Bool Lia.
From BBS Require Import Buffer.Algebra.
Import ListNotations.
Open Scope Z_scope.

Ltac dif := match goal with |- context [if ?c then _ else _] => destruct c end.

Section Proofs.
  Variable D : list Z.
  Variable flt : fault.

  Notation wf := (wf D).
  Notation good := (good D).

  Lemma good_dg dg src : good dg src -> dg = Some (dlen D) /\ src = Some code_internal.
  Proof. exact (fun H => H). Qed.

  (** ---- constructors preserve well-formedness (repaired decorateBuffer) ---- *)

  Lemma wf_node_fields n : wf n ->
    match n with
    | NBytes | NProto | NErr _ | NReaderAt => True
    | _ => good (node_dg n) (node_src n)
    end.
  Proof. destruct n; cbn; tauto. Qed.

  Lemma wf_decorate dg src id terr r :
    good dg src -> wf r -> wf (decorate true dg src id terr r).
  Proof. cbn. tauto. Qed.

  Lemma wf_cloneStream sv n : wf n -> wf (cloneStream true sv n).
  Proof.
    induction n; cbn; tauto.
  Qed.

  Lemma wf_withTask id terr n : wf n -> wf (withTask id terr n).
  Proof.
    destruct n; cbn; try (destruct (Z.eqb terr 0); cbn; tauto); tauto.
  Qed.

  Lemma wf_withEH h n : wf n -> wf (withEH h n).
  Proof. destruct n; cbn; tauto. Qed.

  Lemma wf_base k : wf (base_node D k).
  Proof. destruct k; cbn; unfold Algebra.good; tauto. Qed.

  Lemma wf_cloneCopy_generic max n (r : node) :
    match eval D flt n (MSlice max) with
    | Ok _ | Eof _ => BNode NBytes
    | Err c => BNode (NErr c)
    | Panic => BPanic
    end = BNode r -> wf r.
  Proof. destruct (eval D flt n (MSlice max)); intros H; inversion H; cbn; exact I. Qed.

  Lemma wf_cloneCopy max n r : wf n -> cloneCopy D flt true max n = BNode r -> wf r.
  Proof.
    revert r. induction n; intros r Hw H; cbn [cloneCopy] in H;
      try (inversion H; subst; exact Hw);
      try (eapply wf_cloneCopy_generic; exact H).
    destruct (cloneCopy D flt true max n) eqn:E; [discriminate|].
    inversion H; subst. cbn in Hw. destruct Hw as [Hg Hb].
    apply wf_decorate; [exact Hg|]. apply IHn; [exact Hb|reflexivity].
  Qed.

  Theorem build_wf p n : build D flt true p = BNode n -> wf n.
  Proof.
    revert n. induction p; intros n H; cbn [build] in H.
    - inversion H. apply wf_base.
    - destruct (build D flt true p); [discriminate|]. cbn in H. inversion H.
      apply wf_cloneStream. apply IHp. reflexivity.
    - destruct (build D flt true p); [discriminate|]. cbn in H. inversion H.
      apply wf_cloneStream. apply IHp. reflexivity.
    - destruct (build D flt true p); [discriminate|]. cbn [bbind] in H.
      eapply wf_cloneCopy; [|exact H]. apply IHp. reflexivity.
    - destruct (build D flt true p); [discriminate|]. cbn [bbind] in H.
      eapply wf_cloneCopy; [|exact H]. apply IHp. reflexivity.
    - destruct (build D flt true p); [discriminate|]. cbn in H. inversion H.
      apply wf_withTask. apply IHp. reflexivity.
    - destruct (build D flt true p); [discriminate|]. cbn in H. inversion H.
      apply wf_withEH. apply IHp. reflexivity.
  Qed.

  (** ---- no method panics on a well-formed object ---- *)

  Lemma srcres_nopanic : srcres flt <> SPanic.
  Proof. unfold srcres. destruct flt; discriminate. Qed.

  Lemma validate_nopanic dg src s : good dg src -> s <> SPanic -> validate dg src s <> SPanic.
  Proof.
    intros [-> ->] Hs. cbn. destruct s as [|[]|]; try discriminate. contradiction.
  Qed.

  Lemma to_res_nopanic s b : s <> SPanic -> to_res s b <> Panic.
  Proof. destruct s; cbn; [contradiction|discriminate|discriminate]. Qed.

  Lemma map_err_nopanic f s : s <> SPanic -> map_err f s <> SPanic.
  Proof. destruct s; cbn; [contradiction|discriminate|discriminate]. Qed.

  Lemma of_res_nopanic r : r <> Panic -> of_res r <> SPanic.
  Proof. destruct r; cbn; [contradiction|discriminate..]. Qed.

  Lemma readat_nopanic len off : readat_pure D len off <> Panic.
  Proof. unfold readat_pure. dif; discriminate. Qed.

  Lemma plain_nopanic m : plain D m <> Panic.
  Proof.
    destruct m; cbn [plain]; try discriminate; try apply readat_nopanic; dif; discriminate.
  Qed.

  Lemma streamkind_nopanic dg src m : good dg src -> streamkind D flt dg src m <> Panic.
  Proof.
    intros Hg. pose proof (validate_nopanic dg src (srcres flt) Hg srcres_nopanic) as Hv.
    destruct Hg as [-> ->].
    destruct m; cbn [streamkind size_of]; try discriminate;
      try (apply to_res_nopanic; exact Hv);
      try (dif; [discriminate|apply to_res_nopanic; exact Hv]).
    destruct (validate (Some (dlen D)) (Some code_internal) (srcres flt)) eqn:E;
      [contradiction|apply readat_nopanic|cbn; discriminate].
  Qed.

  Lemma eval_ustream_nopanic n :
    wf n -> (forall m, eval D flt n m <> Panic) /\ (forall md, fst (ustream D flt n md) <> SPanic).
  Proof.
    induction n; intros Hw.
    - split; [intros m; apply plain_nopanic|intros md; cbn; discriminate].
    - split; [intros m; apply plain_nopanic|intros md; cbn; discriminate].
    - split; [intros m; destruct m; cbn; discriminate|intros md; cbn; discriminate].
    - split; [intros m; apply plain_nopanic|intros md; cbn; discriminate].
    - split; [intros m; apply streamkind_nopanic; exact Hw|intros md; cbn; apply srcres_nopanic].
    - split; [intros m; apply streamkind_nopanic; exact Hw|intros md; cbn; apply srcres_nopanic].
    - (* NCloned *)
      cbn in Hw. destruct Hw as [[-> ->] Hb]. destruct (IHn Hb) as [He Hu].
      split.
      + intros m. pose proof (He (MChunks 0)) as H0.
        destruct m; cbn [eval size_of]; try discriminate; try exact H0.
        * destruct (eval D flt n (MChunks 0)); try discriminate; try apply readat_nopanic. contradiction.
        * dif; [discriminate|exact H0].
        * dif; [discriminate|exact H0].
        * destruct (eval D flt n (MChunks 0)); try discriminate. contradiction.
      + intros md. cbn [ustream]. destruct nv; cbn [fst].
        * apply of_res_nopanic. apply He.
        * apply Hu.
    - (* NTask *)
      cbn in Hw. destruct Hw as [[-> ->] Hb]. destruct (IHn Hb) as [He Hu].
      split.
      + intros m.
        assert (Hgen : match eval D flt n m with
                       | Ok x => if Z.eqb terr 0 then Ok x else Err terr
                       | r => r end <> Panic).
        { pose proof (He m). destruct (eval D flt n m); try discriminate; [contradiction|].
          destruct (Z.eqb terr 0); discriminate. }
        destruct m; cbn [eval size_of]; try exact Hgen; try discriminate.
        pose proof (He MDiscard). destruct (eval D flt n MDiscard); try discriminate. contradiction.
      + intros md. cbn [ustream]. pose proof (Hu md) as H.
        destruct md; cbn [fst]; [|exact H].
        destruct (fst (ustream D flt n ChunkMode)); [contradiction| |discriminate].
        destruct (Z.eqb terr 0); discriminate.
    - (* NEH *)
      cbn in Hw. destruct Hw as [Hg Hb]. destruct (IHn Hb) as [He Hu].
      assert (Hv : forall md, validate dg src (map_err (tr h) (fst (ustream D flt n md))) <> SPanic).
      { intros md. apply validate_nopanic; [exact Hg|]. apply map_err_nopanic. apply Hu. }
      destruct Hg as [-> ->].
      split.
      + intros m.
        assert (Htry : match eval D flt n m with Err c => Err (tr h c) | r => r end <> Panic).
        { pose proof (He m). destruct (eval D flt n m); try discriminate. contradiction. }
        destruct m; cbn [eval size_of]; try exact Htry; try discriminate.
        * apply to_res_nopanic. apply Hv.
        * dif; [discriminate|]. apply to_res_nopanic. apply Hv.
        * pose proof (to_res_nopanic _ D (Hv ReaderMode)) as H.
          destruct (to_res _ D); try discriminate; [contradiction|].
          destruct (Z.eqb _ 0); discriminate.
        * apply He.
      + intros md. cbn [ustream fst]. apply map_err_nopanic. apply Hu.
  Qed.

  Lemma cloneCopy_nopanic max n : wf n -> cloneCopy D flt true max n <> BPanic.
  Proof.
    induction n; intros Hw; cbn [cloneCopy]; try discriminate.
    - pose proof (proj1 (eval_ustream_nopanic _ Hw) (MSlice max)) as H.
      destruct (eval D flt (NReader dg src) (MSlice max)); try discriminate. contradiction.
    - pose proof (proj1 (eval_ustream_nopanic _ Hw) (MSlice max)) as H.
      destruct (eval D flt (NChunk dg src) (MSlice max)); try discriminate. contradiction.
    - pose proof (proj1 (eval_ustream_nopanic _ Hw) (MSlice max)) as H.
      destruct (eval D flt (NCloned n dg src nv) (MSlice max)); try discriminate. contradiction.
    - cbn in Hw. destruct Hw as [_ Hb]. specialize (IHn Hb).
      destruct (cloneCopy D flt true max n); [contradiction|discriminate].
    - pose proof (proj1 (eval_ustream_nopanic _ Hw) (MSlice max)) as H.
      destruct (eval D flt (NEH n h dg src) (MSlice max)); try discriminate. contradiction.
  Qed.

  Theorem build_nopanic p : build D flt true p <> BPanic.
  Proof.
    induction p; cbn [build]; try discriminate;
      destruct (build D flt true p) eqn:E; try contradiction; cbn [bbind]; try discriminate;
      apply cloneCopy_nopanic; apply (build_wf p); exact E.
  Qed.

  Theorem run_nopanic p m : run D flt true p m <> Panic.
  Proof.
    unfold run. destruct (build D flt true p) eqn:E.
    - exfalso. exact (build_nopanic p E).
    - apply (eval_ustream_nopanic n (build_wf p n E)).
  Qed.

  Lemma handle_ok p m :
    exists n, build D flt true p = BNode n /\ wf n /\ eval D flt n m <> Panic.
  Proof.
    destruct (build D flt true p) eqn:E; [exfalso; exact (build_nopanic p E)|].
    exists n. split; [reflexivity|]. split; [exact (build_wf p n E)|].
    apply (eval_ustream_nopanic n (build_wf p n E)).
  Qed.

  Theorem siblings_nopanic p h :
    In h (siblings D flt true p) ->
    exists n, fst h = BNode n /\ wf n /\ eval D flt n (snd h) <> Panic.
  Proof.
    induction p; cbn [siblings]; intros Hin.
    - contradiction.
    - apply in_app_or in Hin. destruct Hin as [Hin|[<-|[]]]; [apply IHp; exact Hin|]. apply handle_ok.
    - apply in_app_or in Hin. destruct Hin as [Hin|[<-|[]]]; [apply IHp; exact Hin|]. apply handle_ok.
    - apply in_app_or in Hin. destruct Hin as [Hin|[<-|[]]]; [apply IHp; exact Hin|]. apply handle_ok.
    - apply in_app_or in Hin. destruct Hin as [Hin|[<-|[]]]; [apply IHp; exact Hin|]. apply handle_ok.
    - apply IHp; exact Hin.
    - apply IHp; exact Hin.
  Qed.

  (** ---- size ---- *)

  Theorem size_preserved n : wf n ->
    (exists c, n = NErr c) \/ eval D flt n MSize = Ok [Z.of_nat (dlen D)].
  Proof.
    destruct n; cbn; intros Hw; try (right; reflexivity); try (left; eexists; reflexivity);
      right; try (destruct Hw as [-> _]; reflexivity); destruct Hw as [[-> _] _]; reflexivity.
  Qed.

  (** ---- tasks ---- *)

  Definition completing (m : meth) : Prop := m <> MSize /\ m <> MDiscard.

  Lemma completing_chunks0 : completing (MChunks 0).
  Proof. split; discriminate. Qed.

  Theorem tasks_waited n : forall m, completing m -> incl (tasks n) (waits n m).
  Proof.
    induction n; intros m Hc; cbn [tasks waits]; try apply incl_refl.
    - destruct m; try (apply IHn; exact completing_chunks0); destruct Hc; congruence.
    - destruct m; try (apply incl_cons; [left; reflexivity|apply incl_tl; apply IHn; exact Hc]);
        destruct Hc; congruence.
    - destruct m; try (apply IHn; exact Hc); destruct Hc; congruence.
  Qed.

  Lemma eval_NErr_not_ok c m x : completing m -> eval D flt (NErr c) m <> Ok x.
  Proof. intros [H1 H2]. destruct m; cbn; try discriminate. congruence. Qed.

  (** A failed task turns every success of the decorated object into the
      task's error (the data error, if any, takes precedence). *)
  Theorem task_error_reported n id terr m x :
    terr <> 0 -> completing m -> eval D flt n m = Ok x ->
    eval D flt (withTask id terr n) m = Err terr.
  Proof.
    intros Ht Hc He. apply Z.eqb_neq in Ht.
    assert (Hgen : match eval D flt n m with
                   | Ok x => if Z.eqb terr 0 then Ok x else Err terr | r => r end = Err terr)
      by (rewrite He, Ht; reflexivity).
    destruct Hc as [H1 H2].
    destruct n; cbn [withTask node_dg node_src]; rewrite ?Ht;
      try (destruct m; cbn [eval]; try congruence; exact Hgen);
      try (destruct m; cbn; congruence).
  Qed.

  Theorem task_data_error_first n id terr m :
    completing m -> (forall x, eval D flt n m <> Ok x) ->
    (exists c, n = NErr c) \/ n = NBytes \/ n = NProto \/ n = NReaderAt \/
    eval D flt (withTask id terr n) m = eval D flt n m.
  Proof.
    intros [H1 H2] Hn.
    destruct n; cbn [withTask node_dg node_src]; try tauto; try (left; eexists; reflexivity);
      right; right; right; right;
      (destruct m; cbn [eval]; try congruence;
       match goal with |- match ?e with _ => _ end = _ =>
         let E := fresh in destruct e eqn:E; try reflexivity; exfalso; eapply Hn; exact E end).
  Qed.

  Theorem task_kept_by_cloneStream sv n : incl (tasks n) (tasks (cloneStream true sv n)).
  Proof.
    induction n; cbn [cloneStream tasks decorate]; try apply incl_refl.
    apply incl_cons; [left; reflexivity|apply incl_tl; exact IHn].
  Qed.

  Theorem task_kept_by_cloneCopy max b dg src id terr r :
    cloneCopy D flt true max (NTask b dg src id terr) = BNode r -> In id (tasks r).
  Proof.
    cbn [cloneCopy]. destruct (cloneCopy D flt true max b); [discriminate|].
    intros H. inversion H. cbn. left. reflexivity.
  Qed.

  Theorem halves_equal p sib : build D flt true (CloneStreamL p sib) = build D flt true (CloneStreamR p sib).
  Proof. reflexivity. Qed.
  Theorem copy_halves_equal p max sib :
    build D flt true (CloneCopyL p max sib) = build D flt true (CloneCopyR p max sib).
  Proof. reflexivity. Qed.
End Proofs.

(** Finding F1: with decorateBuffer as on the pinned tree (digest and source
    not copied) a clone of a buffer with a task panics. *)
Lemma pinned_refuted :
  run [1; 2; 3] FNone false (CloneStreamL (WithTask (Base KReader) 0 0) MDiscard) MSize = Panic
  /\ run [1; 2; 3] FNone false (WithEH (CloneStreamL (WithTask (Base KReader) 0 0) MDiscard) 0) MWriter = Panic.
Proof. split; reflexivity. Qed.
