(** C16 — no duplicated and no skipped range, at full strength: EVERY buffer
    kind of the model (chunk-reader backed, reader backed with EOF / errors
    attached to data or not, byte slices, error buffers, buffers whose opening
    at the delivered offset fails), any fuel.

    Method: a "carrier law".  A reader state [s] carries the remaining content
    [C] ([I C s]) when every read hands out a prefix of [C] and leaves a state
    that carries the rest, and io.EOF is reported only when nothing is left.
    The law is pushed through every decorator of the unvalidated paths
    (offset, normalizing, reader-backed chunk reader with io.ReadFull,
    io.CopyN(io.Discard), chunk-reader-backed reader); running out of fuel is
    just another error, so no fuel hypothesis is needed. *)
From Coq Require Import List ZArith NArith Bool Lia.
From BBS Require Import Buffer.Source Buffer.Validate Buffer.Convert Buffer.ErrHandler
  Buffer.StreamProofs Buffer.ValidateProofs Buffer.ValidateReaderProofs Buffer.ReaderBufferProofs
  Buffer.ErrHandlerProofs.
Import ListNotations.
Open Scope N_scope.

(** * What it means for a script to carry the object [C] *)

(** chunk readers and readers that never attach an error to data: nothing is
    read after the first event that is not a chunk, so only the [content]
    matters: a prefix of [C], all of it if the script ends with io.EOF *)
Definition ccar (C : bytes) (evs : list ev) : Prop :=
  exists rest, C = fst (content evs) ++ rest /\ (snd (content evs) = EEof -> rest = []).

(** readers that hand out an error together with data ([r_attach]): io.ReadFull
    and io.CopyN drop an error that arrives with the last byte they wanted, and
    the next read continues with what FOLLOWS that error in the script.  Such a
    reader carries [C] when every chunk, wherever it stands, is the next piece
    of [C] and io.EOF (an Eof event or the end of the script) comes only when
    all of [C] has been handed out. *)
Fixpoint rcar (C : bytes) (evs : list ev) : Prop :=
  match evs with
  | [] => C = []
  | Chunk bs :: r => exists C', C = bs ++ C' /\ rcar C' r
  | Err _ :: r => rcar C r
  | Eof :: r => C = [] /\ rcar C r
  end.

Lemma rcar_ccar C evs : rcar C evs -> ccar C evs.
Proof.
  revert C. induction evs as [|[bs|c|] r IH]; intros C Hc; cbn [rcar] in Hc; unfold ccar; cbn [content].
  - subst. exists []. auto.
  - destruct Hc as (C' & -> & Hc). destruct (IH _ Hc) as (rest & -> & Hr).
    destruct (content r) as [c0 e0]. cbn [fst snd] in *. exists rest. rewrite app_assoc. auto.
  - exists C. split; [reflexivity|discriminate].
  - destruct Hc as (-> & _). exists []. auto.
Qed.

(** [b] carries the object [C] — every buffer kind *)
Definition carries_full (C : bytes) (b : bufscript) : Prop :=
  match b with
  | BChunk evs => ccar C evs
  | BReader evs attach => if attach then rcar C evs else ccar C evs
  | BBytes d => d = C
  | BError _ => True
  end.
Definition ans_carries (C : bytes) (a : answer) : Prop :=
  match a with Replace b => carries_full C b | Fail _ => True end.

Lemma carries_carries_full C b : carries C b -> carries_full C b.
Proof. destruct b; cbn; auto. contradiction. Qed.

(** * The carrier laws *)

(** chunk readers: an error comes without data *)
Definition claw {S} (rd : S -> (bytes * err) * S) (I : bytes -> S -> Prop) : Prop :=
  forall s c e s' C, rd s = ((c, e), s') -> I C s ->
    exists C', C = c ++ C' /\ (e = ENone -> I C' s') /\ (e = EEof -> C' = []) /\ (e <> ENone -> c = []).

(** io.Readers, weak form: nothing is known about the state after an error *)
Definition rlaw {S} (rd : N -> S -> (bytes * err) * S) (I : bytes -> S -> Prop) : Prop :=
  forall cap s c e s' C, rd cap s = ((c, e), s') -> I C s ->
    exists C', C = c ++ C' /\ (e = ENone -> I C' s') /\ (e = EEof -> C' = []).

(** io.Readers, strong form (what io.ReadFull and io.CopyN need): at most [cap]
    bytes; never io.ErrUnexpectedEOF; after an error that came WITH data the
    state still carries the rest *)
Definition rlaw_strong {S} (rd : N -> S -> (bytes * err) * S) (I : bytes -> S -> Prop) : Prop :=
  forall cap s c e s' C, rd cap s = ((c, e), s') -> I C s ->
    lenN c <= cap /\ e <> EUnexp /\
    exists C', C = c ++ C' /\ (e = EEof -> C' = []) /\ (e = ENone \/ c <> [] -> I C' s').

Lemma rlaw_strong_weak {S} (rd : N -> S -> (bytes * err) * S) I : rlaw_strong rd I -> rlaw rd I.
Proof.
  intros Hl cap s c e s' C Hr Hi. destruct (Hl _ _ _ _ _ _ Hr Hi) as (_ & _ & C' & E & He & Hn).
  exists C'. rsplit; auto.
Qed.

Section ChunkLawStreams.
  Variable S : Type.
  Variable rd : S -> (bytes * err) * S.
  Variable I : bytes -> S -> Prop.
  Hypothesis Hlaw : claw rd I.

  Lemma claw_pulls s p s' : pulls rd s p s' -> forall C, I C s -> exists C', C = p ++ C' /\ I C' s'.
  Proof.
    induction 1 as [s|s c s1 bs s2 Hr _ IH]; intros C Hi; [exists C; auto|].
    destruct (Hlaw _ _ _ _ _ Hr Hi) as (C1 & -> & Hn & _). destruct (IH _ (Hn eq_refl)) as (C' & -> & Hi').
    exists C'. rewrite app_assoc. auto.
  Qed.
  Lemma claw_drains s p t s' :
    drains rd s p t s' -> forall C, I C s -> exists C', C = p ++ C' /\ (t = EEof -> C' = []).
  Proof.
    induction 1 as [s c e s1 Hr Hne|s c s1 bs e s2 Hr _ IH]; intros C Hi.
    - destruct (Hlaw _ _ _ _ _ Hr Hi) as (C1 & -> & _ & He & Hc). rewrite (Hc Hne). exists C1. auto.
    - destruct (Hlaw _ _ _ _ _ Hr Hi) as (C1 & -> & Hn & _). destruct (IH _ (Hn eq_refl)) as (C' & -> & He).
      exists C'. rewrite app_assoc. auto.
  Qed.
End ChunkLawStreams.

Section ReaderLawStreams.
  Variable S : Type.
  Variable rd : N -> S -> (bytes * err) * S.
  Variable I : bytes -> S -> Prop.
  Hypothesis Hlaw : rlaw rd I.
  Lemma rlaw_rdrains s p t s' :
    rdrains rd s p t s' -> forall C, I C s -> exists C', C = p ++ C' /\ (t = EEof -> C' = []).
  Proof.
    induction 1 as [cap s c e s1 Hr Hne|cap s c s1 bs e s2 Hr _ IH]; intros C Hi.
    - destruct (Hlaw _ _ _ _ _ _ Hr Hi) as (C1 & -> & _ & He). exists C1. auto.
    - destruct (Hlaw _ _ _ _ _ _ Hr Hi) as (C1 & -> & Hn & _). destruct (IH _ (Hn eq_refl)) as (C' & -> & He).
      exists C'. rewrite app_assoc. auto.
  Qed.
End ReaderLawStreams.

(** * The decorators over a chunk reader *)
Section OverChunk.
  Variable S : Type.
  Variable rd : S -> (bytes * err) * S.
  Variable cl : S -> S.
  Variable I : bytes -> S -> Prop.
  Hypothesis Hlaw : claw rd I.

  (** newOffsetChunkReader *)
  Definition I_off (C : bytes) (o : ost S) : Prop :=
    match o_fixed o with
    | ENone => exists C1, C = o_prefix o ++ C1 /\ I C1 (o_u o)
    | e => e <> EEof
    end.

  Lemma offset_claw : claw (offset_read rd) I_off.
  Proof.
    intros o c e o' C Hr Hi. unfold offset_read in Hr. unfold I_off in Hi.
    destruct (o_fixed o) eqn:Ef;
      try (inv Hr; exists C; rsplit; auto; try congruence; intros _; unfold I_off; rewrite Ef; exact Hi).
    destruct Hi as (C1 & -> & Hi). destruct (is_nil (o_prefix o)) eqn:En.
    - apply is_nil_true in En. rewrite En. cbn [app].
      destruct (rd (o_u o)) as [[c0 e0] u'] eqn:Hrd. inv Hr.
      destruct (Hlaw _ _ _ _ _ Hrd Hi) as (C' & -> & Hn & He & Hc). exists C'. rsplit; auto.
      intros E. unfold I_off. cbn. exists C'. auto.
    - inv Hr. exists C1. rsplit; auto; try congruence. intros _. unfold I_off. cbn. exists C1. auto.
  Qed.

  Lemma discard_law fuel : forall off s prefix e s' C,
    discard_from_chunk_reader rd fuel off s = ((prefix, e), s') -> I C s -> off <= lenN C ->
    match e with
    | ENone => exists C1, dropN off C = prefix ++ C1 /\ I C1 s'
    | EEof => False
    | _ => True
    end.
  Proof.
    induction fuel as [|f IH]; intros off s prefix e s' C Hd Hi Hle; cbn [discard_from_chunk_reader] in Hd;
      destruct (off =? 0) eqn:E0.
    - apply N.eqb_eq in E0. subst. inv Hd. exists C. rewrite dropN_0. auto.
    - inv Hd. exact Logic.I.
    - apply N.eqb_eq in E0. subst. inv Hd. exists C. rewrite dropN_0. auto.
    - apply N.eqb_neq in E0. destruct (rd s) as [[c e0] s1] eqn:Hr.
      destruct (Hlaw _ _ _ _ _ Hr Hi) as (C' & -> & Hn & He & Hc).
      destruct e0.
      + destruct (off <? lenN c) eqn:Hlt.
        * apply N.ltb_lt in Hlt. inv Hd. exists C'. rewrite dropN_app by lia. auto.
        * apply N.ltb_ge in Hlt. rewrite lenN_app in Hle.
          specialize (IH _ _ _ _ _ _ Hd (Hn eq_refl) ltac:(lia)).
          rewrite dropN_app_ge by assumption. exact IH.
      + inv Hd. rewrite (Hc ltac:(congruence)), (He eq_refl) in Hle. unfold lenN in Hle. cbn in Hle. lia.
      + inv Hd. exact Logic.I.
      + inv Hd. exact Logic.I.
      + inv Hd. exact Logic.I.
  Qed.

  Lemma offset_init_law fuel k s C :
    I C s -> k <= lenN C -> I_off (dropN k C) (offset_init rd cl fuel (Z.of_N k) s).
  Proof.
    intros Hi Hle. unfold offset_init. destruct (Z.of_N k <? 0)%Z eqn:Hneg; [apply Z.ltb_lt in Hneg; lia|].
    rewrite N2Z.id.
    destruct (discard_from_chunk_reader rd fuel k s) as [[prefix e] s'] eqn:Hd.
    pose proof (discard_law _ _ _ _ _ _ _ Hd Hi Hle) as Hx.
    destruct e; unfold I_off; cbn; try congruence; try contradiction; try exact Hx.
  Qed.

  (** newNormalizingChunkReader *)
  Definition I_norm (C : bytes) (n : nst S) : Prop := exists C1, C = n_last n ++ C1 /\ I C1 (n_u n).

  Lemma norm_claw fuel max : claw (norm_read rd fuel max) I_norm.
  Proof.
    induction fuel as [|f IH]; intros n c e n' C Hr (C1 & -> & Hi); cbn [norm_read] in Hr;
      destruct (is_nil (n_last n)) eqn:En; cbn [negb] in Hr.
    - inv Hr. eexists. rsplit; [reflexivity| | |]; congruence.
    - destruct (max <? lenN (n_last n)); inv Hr.
      + exists (dropN max (n_last n) ++ C1). rewrite app_assoc, takeN_dropN. rsplit; auto; try congruence.
        intros _. exists C1. auto.
      + exists C1. rsplit; auto; try congruence. intros _. exists C1. auto.
    - apply is_nil_true in En. rewrite En. cbn [app].
      destruct (rd (n_u n)) as [[c0 e0] u'] eqn:Hrd.
      destruct (Hlaw _ _ _ _ _ Hrd Hi) as (C' & -> & Hn & He & Hc).
      destruct e0;
        try (inv Hr; rewrite (Hc ltac:(congruence)); exists C'; rsplit; auto; try congruence).
      apply (IH _ _ _ _ _ Hr). exists C'. cbn. auto.
    - destruct (max <? lenN (n_last n)); inv Hr.
      + exists (dropN max (n_last n) ++ C1). rewrite app_assoc, takeN_dropN. rsplit; auto; try congruence.
        intros _. exists C1. auto.
      + exists C1. rsplit; auto; try congruence. intros _. exists C1. auto.
  Qed.

  (** newChunkReaderBackedReader *)
  Definition I_cb (C : bytes) (st : cbst S) : Prop := exists C1, C = cb_last st ++ C1 /\ I C1 (cb_u st).

  Lemma cb_loop_law : forall f left got st res e st' C,
    cb_loop rd f left got st = ((res, e), st') -> I_cb C st -> (left <> 0 -> cb_last st = []) ->
    exists d C', res = got ++ d /\ C = d ++ C' /\ (e = ENone -> I_cb C' st') /\ (e = EEof -> C' = []).
  Proof.
    induction f as [|f IH]; intros left got st res e st' C Hr Hi Hl; cbn [cb_loop] in Hr;
      destruct (left =? 0) eqn:E0.
    - inv Hr. exists [], C. rewrite app_nil_r. rsplit; auto. congruence.
    - inv Hr. exists [], C. rewrite app_nil_r. rsplit; auto; congruence.
    - inv Hr. exists [], C. rewrite app_nil_r. rsplit; auto. congruence.
    - apply N.eqb_neq in E0. destruct Hi as (C1 & -> & Hi). rewrite (Hl E0). cbn [app].
      destruct (rd (cb_u st)) as [[c e0] u'] eqn:Hrd.
      destruct (Hlaw _ _ _ _ _ Hrd Hi) as (C2 & -> & Hn & He & Hc).
      destruct e0;
        try (inv Hr; rewrite (Hc ltac:(congruence)); exists [], C2; rewrite app_nil_r; rsplit; auto; congruence).
      assert (Hi2 : I_cb (dropN left c ++ C2) (mkCbst u' (dropN left c))) by (exists C2; cbn; auto).
      assert (Hl2 : left - lenN (takeN left c) <> 0 -> cb_last (mkCbst u' (dropN left c)) = []).
      { intros Hne. cbn. rewrite lenN_takeN in Hne. apply dropN_all. lia. }
      destruct (IH _ _ _ _ _ _ _ Hr Hi2 Hl2) as (d & C' & -> & E & Hn' & He').
      exists (takeN left c ++ d), C'. rewrite <- !app_assoc. rsplit; auto.
      rewrite <- E, app_assoc, takeN_dropN. reflexivity.
  Qed.

  Lemma cb_rlaw f : rlaw (cb_read rd f) I_cb.
  Proof.
    intros cap st c e st' C Hr (C1 & -> & Hi). unfold cb_read in Hr.
    assert (Hi2 : I_cb (dropN cap (cb_last st) ++ C1) (mkCbst (cb_u st) (dropN cap (cb_last st))))
      by (exists C1; cbn; auto).
    assert (Hl2 : cap - lenN (takeN cap (cb_last st)) <> 0 ->
                  cb_last (mkCbst (cb_u st) (dropN cap (cb_last st))) = []).
    { intros Hne. cbn. rewrite lenN_takeN in Hne. apply dropN_all. lia. }
    destruct (cb_loop_law _ _ _ _ _ _ _ _ Hr Hi2 Hl2) as (d & C' & -> & E & Hn & He).
    exists C'. rsplit; auto. rewrite <- app_assoc, <- E, app_assoc, takeN_dropN. reflexivity.
  Qed.
End OverChunk.

(** * io.ReadFull, io.CopyN and the reader-backed chunk reader over an io.Reader *)
Section OverReaderLaw.
  Variable S : Type.
  Variable rd : N -> S -> (bytes * err) * S.
  Variable I : bytes -> S -> Prop.
  Hypothesis Hlaw : rlaw_strong rd I.

  Lemma read_full_law : forall f want got s res e s' C,
    read_full_loop rd f want got s = ((res, e), s') -> I C s ->
    exists d C', res = got ++ d /\ C = d ++ C' /\ (e = ENone -> I C' s') /\
                 (e = EEof \/ e = EUnexp -> C' = []).
  Proof.
    induction f as [|f IH]; intros want got s res e s' C Hr Hi; cbn [read_full_loop] in Hr;
      destruct (want <=? lenN got) eqn:Ew.
    - inv Hr. exists [], C. rewrite app_nil_r. rsplit; auto; try congruence; try (intros [?|?]; congruence).
    - inv Hr. exists [], C. rewrite app_nil_r. rsplit; auto; try congruence; try (intros [?|?]; congruence).
    - inv Hr. exists [], C. rewrite app_nil_r. rsplit; auto; try congruence; try (intros [?|?]; congruence).
    - apply N.leb_gt in Ew. destruct (rd (want - lenN got) s) as [[c e0] s1] eqn:Hrd.
      destruct (Hlaw _ _ _ _ _ _ Hrd Hi) as (Hcap & Hnu & C1 & -> & He & Hn).
      assert (Hcont : forall d C', (res = (got ++ c) ++ d /\ C1 = d ++ C' /\ (e = ENone -> I C' s') /\
                                    (e = EEof \/ e = EUnexp -> C' = [])) ->
                exists d0 C0, res = got ++ d0 /\ c ++ C1 = d0 ++ C0 /\ (e = ENone -> I C0 s') /\
                              (e = EEof \/ e = EUnexp -> C0 = [])).
      { intros d C' (-> & -> & A & B). exists (c ++ d), C'. rewrite <- !app_assoc. auto. }
      assert (Herr : e0 <> ENone ->
                (if want <=? lenN (got ++ c) then ((got ++ c, ENone), s1)
                 else match e0 with
                      | EEof => ((got ++ c, if is_nil (got ++ c) then EEof else EUnexp), s1)
                      | _ => ((got ++ c, e0), s1)
                      end) = ((res, e), s') ->
                exists d0 C0, res = got ++ d0 /\ c ++ C1 = d0 ++ C0 /\ (e = ENone -> I C0 s') /\
                              (e = EEof \/ e = EUnexp -> C0 = [])).
      { intros Hne Hx. apply (Hcont [] C1). rewrite app_nil_r. cbn [app].
        destruct (want <=? lenN (got ++ c)) eqn:Ew2.
        - apply N.leb_le in Ew2. inv Hx. rsplit; auto; try (intros [?|?]; congruence).
          intros _. apply Hn. right. intros ->. rewrite app_nil_r in Ew2. lia.
        - destruct e0; try congruence.
          + inv Hx. rsplit; auto; try (destruct (is_nil (got ++ c)); congruence); intros _; auto.
          + inv Hx. rsplit; auto; try congruence; try (intros [?|?]; congruence).
          + inv Hx. rsplit; auto; try congruence; try (intros [?|?]; congruence). }
      destruct e0; try (apply Herr; [congruence|exact Hr]).
      destruct (IH _ _ _ _ _ _ _ Hr (Hn (or_introl eq_refl))) as (d & C' & A & B & X & Y).
      apply (Hcont d C'). auto.
  Qed.

  Lemma copy_n_law : forall f left s e s' C,
    copy_n_loop rd f left s = (e, s') -> I C s ->
    exists d C', C = d ++ C' /\ lenN d <= left /\ (e = ENone -> lenN d = left /\ I C' s') /\
                 (e = EEof -> C' = [] /\ lenN d < left).
  Proof.
    induction f as [|f IH]; intros left s e s' C Hr Hi; cbn [copy_n_loop] in Hr;
      destruct (left =? 0) eqn:E0.
    - apply N.eqb_eq in E0. inv Hr. exists [], C. rewrite lenN_nil. rsplit; auto; try lia. congruence.
    - inv Hr. exists [], C. rewrite lenN_nil. rsplit; auto; try lia; congruence.
    - apply N.eqb_eq in E0. inv Hr. exists [], C. rewrite lenN_nil. rsplit; auto; try lia. congruence.
    - apply N.eqb_neq in E0. destruct (rd (N.min discard_buf left) s) as [[c e0] s1] eqn:Hrd.
      destruct (Hlaw _ _ _ _ _ _ Hrd Hi) as (Hcap & Hnu & C1 & -> & He & Hn).
      assert (Hcl : lenN c <= left) by lia.
      assert (Herr : e0 <> ENone -> (e0 = EEof -> C1 = []) ->
                (if left - lenN c =? 0 then ENone else e0, s1) = (e, s') ->
                exists d C', c ++ C1 = d ++ C' /\ lenN d <= left /\ (e = ENone -> lenN d = left /\ I C' s') /\
                             (e = EEof -> C' = [] /\ lenN d < left)).
      { intros Hne Heof Hx. exists c, C1. destruct (left - lenN c =? 0) eqn:Ez.
        - apply N.eqb_eq in Ez. inv Hx. rsplit; auto; [|congruence]. intros _. split; [lia|].
          apply Hn. right. intros ->. rewrite lenN_nil in Ez. lia.
        - apply N.eqb_neq in Ez. inv Hx. rsplit; auto; [congruence|]. intros ->. split; [auto|lia]. }
      destruct e0.
      + destruct (IH _ _ _ _ _ Hr (Hn (or_introl eq_refl))) as (d & C' & -> & Hl & X & Y).
        exists (c ++ d), C'. rewrite <- app_assoc, lenN_app. rsplit; auto; try lia.
        * intros E. destruct (X E). split; [lia|assumption].
        * intros E. destruct (Y E). split; [assumption|lia].
      + apply Herr; [congruence|exact He|exact Hr].
      + congruence.
      + apply Herr; [congruence|congruence|exact Hr].
      + apply Herr; [congruence|congruence|exact Hr].
  Qed.

  (** newReaderBackedChunkReader *)
  Definition I_rb (C : bytes) (r : rbst S) : Prop :=
    match rb_err r with
    | ENone => I C (rb_u r)
    | EEof => C = []
    | _ => True
    end.

  Lemma rb_claw f max : claw (rb_read rd f max) I_rb.
  Proof.
    intros r c e r' C Hr Hi. unfold rb_read in Hr. unfold I_rb in Hi.
    destruct (rb_err r) eqn:Ee;
      try (inv Hr; eexists; rsplit; [reflexivity|..]; auto; try congruence; fail).
    destruct (read_full rd f max (rb_u r)) as [[data e0] u'] eqn:Hf. unfold read_full in Hf.
    destruct (read_full_law _ _ _ _ _ _ _ _ Hf Hi) as (d & C' & E & -> & Hn & He). cbn [app] in E. subst d.
    assert (Hst : I_rb C' (mkRbst u' (match e0 with EUnexp => EEof | _ => e0 end))).
    { unfold I_rb. cbn. destruct e0; auto. }
    destruct (is_nil data) eqn:En; cbn [negb] in Hr.
    - apply is_nil_true in En. subst data. inv Hr. exists C'. rsplit; auto.
      destruct e0; auto; intros; congruence.
    - inv Hr. exists C'. rsplit; auto; congruence.
  Qed.
End OverReaderLaw.

(** * The scripted sources *)
Definition I_csrc (C : bytes) (s : csrc) : Prop := ccar C (c_rest s).

Lemma csrc_claw : claw csrc_read I_csrc.
Proof.
  intros s c e s' C Hr (rest & -> & Hrest). unfold csrc_read in Hr. unfold I_csrc, ccar.
  destruct (c_rest s) as [|[bs|x|] r] eqn:Er; cbn [content fst snd] in *.
  - inv Hr. rewrite (Hrest eq_refl). exists []. rsplit; auto; try congruence.
  - inv Hr. destruct (content r) as [c0 e0] eqn:Ec. cbn [fst snd] in *. exists (c0 ++ rest).
    rewrite <- app_assoc. rsplit; auto; try congruence. intros _. cbn [c_rest]. rewrite Ec. exists rest. auto.
  - inv Hr. exists rest. rsplit; auto; congruence.
  - inv Hr. rewrite (Hrest eq_refl). exists []. rsplit; auto; congruence.
Qed.

Definition I_rsrc (C : bytes) (s : rsrc) : Prop :=
  if r_attach s then rcar C (r_rest s) else ccar C (r_rest s).

Lemma rsrc_attach cap s c e s' : rsrc_read cap s = ((c, e), s') -> r_attach s' = r_attach s.
Proof.
  unfold rsrc_read. destruct (r_rest s) as [|[bs|x|] r]; try (intros Hr; inv Hr; reflexivity).
  destruct (negb (is_nil (dropN cap bs))); [intros Hr; inv Hr; reflexivity|].
  destruct (r_attach s); [|intros Hr; inv Hr; reflexivity].
  destruct r as [|[bs2|x2|] r2]; intros Hr; inv Hr; reflexivity.
Qed.

(** without [r_attach] an error never comes with data *)
Lemma rsrc_plain_error cap s c e s' :
  rsrc_read cap s = ((c, e), s') -> r_attach s = false -> e <> ENone -> c = [].
Proof.
  unfold rsrc_read. intros Hr Ha Hne. rewrite Ha in Hr.
  destruct (r_rest s) as [|[bs|x|] r]; try (inv Hr; reflexivity).
  destruct (negb (is_nil (dropN cap bs))); inv Hr; congruence.
Qed.

Lemma rsrc_rcar cap s c e s' C :
  rsrc_read cap s = ((c, e), s') -> r_attach s = true -> rcar C (r_rest s) ->
  exists C', C = c ++ C' /\ (e = EEof -> C' = []) /\ rcar C' (r_rest s').
Proof.
  unfold rsrc_read. intros Hr Ha Hc. rewrite Ha in Hr.
  destruct (r_rest s) as [|[bs|x|] r] eqn:Er; cbn [rcar] in Hc.
  - inv Hr. exists []. rewrite Er. cbn. auto.
  - destruct Hc as (C0 & -> & Hc).
    destruct (is_nil (dropN cap bs)) eqn:En; cbn [negb] in Hr.
    + apply is_nil_true in En. rewrite (dropN_nil_takeN _ _ En) in Hr.
      destruct r as [|[bs2|x2|] r2]; inv Hr; cbn [r_rest]; cbn [rcar] in Hc.
      * exists []. subst. cbn. auto.
      * exists C0. rsplit; auto. congruence.
      * exists C0. rsplit; auto. congruence.
      * destruct Hc as (-> & Hc). exists []. auto.
    + inv Hr. exists (dropN cap bs ++ C0). rewrite app_assoc, takeN_dropN. rsplit; auto; [congruence|].
      cbn. exists C0. auto.
  - inv Hr. exists C. rsplit; auto. congruence.
  - destruct Hc as (-> & Hc). inv Hr. exists []. auto.
Qed.

Lemma rsrc_rlaw_strong : rlaw_strong rsrc_read I_rsrc.
Proof.
  intros cap s c e s' C Hr Hi. split; [exact (rsrc_cap _ _ _ _ _ Hr)|]. split; [exact (rsrc_no_unexp _ _ _ _ _ Hr)|].
  unfold I_rsrc in *. rewrite (rsrc_attach _ _ _ _ _ Hr). destruct (r_attach s) eqn:Ha.
  - destruct (rsrc_rcar _ _ _ _ _ _ Hr Ha Hi) as (C' & E & He & Hc). exists C'. auto.
  - destruct Hi as (rest & -> & Hrest). pose proof (rsrc_spec _ _ _ _ _ Hr) as Hs. unfold rcont in Hs.
    destruct e.
    + rewrite Hs in *. cbn [fst snd] in *. exists (fst (content (r_rest s')) ++ rest).
      rewrite <- app_assoc. rsplit; auto; try congruence. intros _. exists rest. auto.
    + rewrite Hs in *. cbn [fst snd] in *. exists rest. rsplit; auto.
      intros [?|Hn]; [congruence|]. exfalso. apply Hn. eapply rsrc_plain_error; eauto. congruence.
    + exfalso. exact (rsrc_no_unexp _ _ _ _ _ Hr eq_refl).
    + rewrite Hs in *. cbn [fst snd] in *. exists rest. rsplit; auto; try congruence.
      intros [?|Hn]; [congruence|]. exfalso. apply Hn. eapply rsrc_plain_error; eauto. congruence.
    + rewrite Hs in *. cbn [fst snd] in *. exists rest. rsplit; auto; try congruence.
      intros [?|Hn]; [congruence|]. exfalso. apply Hn. eapply rsrc_plain_error; eauto. congruence.
Qed.

Lemma bs_claw max : claw (bs_read max) (fun C d => d = C).
Proof.
  intros d c e d' C Hr <-. unfold bs_read in Hr. destruct (is_nil d) eqn:En.
  - apply is_nil_true in En. subst. inv Hr. exists []. rsplit; auto; try congruence.
  - destruct (lenN d <=? max); inv Hr.
    + exists []. rewrite app_nil_r. rsplit; auto; try congruence.
    + exists (dropN max d). rewrite takeN_dropN. rsplit; auto; try congruence.
Qed.

Lemma bb_rlaw : rlaw bb_read (fun C d => d = C).
Proof.
  intros cap d c e d' C Hr <-. unfold bb_read in Hr. destruct (is_nil d) eqn:En.
  - apply is_nil_true in En. subst. inv Hr. exists []. rsplit; auto.
  - inv Hr. exists (dropN cap d). rewrite takeN_dropN. rsplit; auto; try congruence.
Qed.

(** * toUnvalidatedChunkReader / toUnvalidatedReader of every buffer kind *)
Definition I_ucr (C : bytes) (u : ucr) : Prop :=
  match u with
  | UNorm n => I_norm _ (I_off _ I_csrc) C n
  | URb r => I_rb _ I_rsrc C r
  | UBs d => d = C
  | UErr e | UFail e _ => e <> EEof
  end.

Lemma ucr_claw ifuel max : claw (ucr_read ifuel max) I_ucr.
Proof.
  intros u c e u' C Hr Hi. destruct u as [n|r|d|x|x s]; cbn [ucr_read I_ucr] in *.
  - destruct (norm_read (offset_read csrc_read) ifuel max n) as [[c0 e0] n'] eqn:Hn. inv Hr.
    exact (norm_claw _ _ _ (offset_claw _ _ _ csrc_claw) _ _ _ _ _ _ _ Hn Hi).
  - destruct (rb_read rsrc_read ifuel max r) as [[c0 e0] r'] eqn:Hn. inv Hr.
    exact (rb_claw _ _ _ rsrc_rlaw_strong _ _ _ _ _ _ _ Hn Hi).
  - destruct (bs_read max d) as [[c0 e0] d'] eqn:Hn. inv Hr.
    eapply bs_claw; [exact Hn|reflexivity].
  - inv Hr. exists C. rsplit; auto; try congruence.
  - inv Hr. exists C. rsplit; auto; try congruence.
Qed.

Lemma dropN_exact d C' : dropN (lenN d) (d ++ C') = C'.
Proof. rewrite dropN_app_ge by lia. rewrite N.sub_diag. apply dropN_0. Qed.

Lemma discard_reader_law fuel k evs attach e s C :
  discard_from_reader rsrc_read fuel (Z.of_N k) (mkRsrc evs attach 0) = (e, s) ->
  carries_full C (BReader evs attach) -> k <= lenN C ->
  match e with ENone => I_rsrc (dropN k C) s | EEof => False | _ => True end.
Proof.
  unfold discard_from_reader. intros Hd Hc Hle.
  destruct (Z.of_N k <? 0)%Z eqn:Hneg; [apply Z.ltb_lt in Hneg; lia|]. rewrite N2Z.id in Hd.
  assert (Hi : I_rsrc C (mkRsrc evs attach 0)) by (unfold I_rsrc; cbn; exact Hc).
  destruct (copy_n_law _ _ _ rsrc_rlaw_strong _ _ _ _ _ _ Hd Hi) as (d & C' & -> & Hl & Hn & He).
  destruct e; auto.
  - destruct (Hn eq_refl) as (<- & Hi'). rewrite dropN_exact. exact Hi'.
  - destruct (He eq_refl) as (-> & Hlt). rewrite app_nil_r in Hle. lia.
Qed.

Lemma ucr_open_carries ifuel b k C :
  carries_full C b -> k <= lenN C -> I_ucr (dropN k C) (ucr_open ifuel b k).
Proof.
  intros Hc Hle. destruct b as [evs|evs a|d|x]; cbn [ucr_open].
  - cbn [I_ucr]. exists (dropN k C). cbn. split; [reflexivity|].
    apply offset_init_law; [exact csrc_claw|exact Hc|exact Hle].
  - destruct (discard_from_reader rsrc_read ifuel (Z.of_N k) (mkRsrc evs a 0)) as [e s] eqn:Hd.
    pose proof (discard_reader_law _ _ _ _ _ _ _ Hd Hc Hle) as Hx.
    destruct e; cbn [I_ucr]; try congruence; try contradiction. unfold I_rb. cbn. exact Hx.
  - cbn in Hc. subst d. destruct (k <=? lenN C) eqn:E; [reflexivity|apply N.leb_gt in E; lia].
  - cbn. congruence.
Qed.

Definition I_urd (C : bytes) (u : urd) : Prop :=
  match u with
  | RCb c => I_cb _ (I_off _ I_csrc) C c
  | RRaw s => I_rsrc C s
  | RBb d => d = C
  | RErr e | RFail e _ => e <> EEof
  end.

Lemma urd_rlaw fuel : rlaw (urd_read fuel) I_urd.
Proof.
  intros cap u c e u' C Hr Hi. destruct u as [cb|s|d|x|x s]; cbn [urd_read I_urd] in *.
  - destruct (cb_read (offset_read csrc_read) fuel cap cb) as [[c0 e0] cb'] eqn:Hn. inv Hr.
    exact (cb_rlaw _ _ _ (offset_claw _ _ _ csrc_claw) _ _ _ _ _ _ _ Hn Hi).
  - destruct (rsrc_read cap s) as [[c0 e0] s1] eqn:Hn. inv Hr.
    exact (rlaw_strong_weak _ _ rsrc_rlaw_strong _ _ _ _ _ _ Hn Hi).
  - destruct (bb_read cap d) as [[c0 e0] d'] eqn:Hn. inv Hr.
    eapply bb_rlaw; [exact Hn|reflexivity].
  - inv Hr. exists C. rsplit; auto; try congruence.
  - inv Hr. exists C. rsplit; auto; try congruence.
Qed.

Lemma urd_open_carries fuel b k C :
  carries_full C b -> k <= lenN C -> I_urd (dropN k C) (urd_open fuel b k).
Proof.
  intros Hc Hle. destruct b as [evs|evs a|d|x]; cbn [urd_open].
  - cbn [I_urd]. exists (dropN k C). cbn. split; [reflexivity|].
    apply offset_init_law; [exact csrc_claw|exact Hc|exact Hle].
  - destruct (discard_from_reader rsrc_read fuel (Z.of_N k) (mkRsrc evs a 0)) as [e s] eqn:Hd.
    pose proof (discard_reader_law _ _ _ _ _ _ _ Hd Hc Hle) as Hx.
    destruct e; cbn [I_urd]; try congruence; try contradiction; try exact Hx.
  - cbn in Hc. subst d. destruct (k <=? lenN C) eqn:E; [reflexivity|apply N.leb_gt in E; lia].
  - cbn. congruence.
Qed.

(** * What one buffer delivers from offset [k]: a piece of [C] starting there *)
Lemma piece_arith k C p C' :
  k <= lenN C -> dropN k C = p ++ C' ->
  k + lenN p <= lenN C /\ dropN k C = p ++ dropN (k + lenN p) C /\ (C' = [] -> p = dropN k C).
Proof.
  intros Hk E. pose proof (lenN_dropN k C) as Hl. rewrite E, lenN_app in Hl.
  split; [lia|]. split.
  - rewrite <- (dropN_dropN (lenN p) k C), E, dropN_exact. reflexivity.
  - intros ->. now rewrite app_nil_r in E.
Qed.

Theorem piece_spec_full ifuel max C b k p t cur' :
  carries_full C b -> k <= lenN C ->
  drains (ucr_read ifuel max) (ucr_open ifuel b k) p t cur' ->
  k + lenN p <= lenN C /\ dropN k C = p ++ dropN (k + lenN p) C /\ (t = EEof -> p = dropN k C).
Proof.
  intros Hc Hk Hd.
  destruct (claw_drains _ _ _ (ucr_claw ifuel max) _ _ _ _ Hd _ (ucr_open_carries ifuel _ _ _ Hc Hk))
    as (C' & E & He).
  destruct (piece_arith _ _ _ _ Hk E) as (A & B & X). auto.
Qed.

(** No duplicated and no skipped range, every buffer kind, any fuel: if the
    original and all replacement buffers carry the same object, a stitched
    stream that reaches io.EOF is that object from the start offset. *)
Theorem stitched_no_dup_no_skip_full ifuel max C : forall cur k ans out e offs,
  stitched ifuel max cur k ans out e offs -> e = EEof ->
  forall b, cur = ucr_open ifuel b k -> carries_full C b -> Forall (ans_carries C) ans ->
  k <= lenN C -> out = dropN k C.
Proof.
  induction 1 as [cur k ans p cur' Hd|cur k ans p t cur' c Hd Hne Ho|cur k b1 rest p t cur' p2 e offs Hd Hne _ IH];
    intros He b -> Hc Hall Hk.
  - destruct (piece_spec_full _ _ _ _ _ _ _ _ Hc Hk Hd) as (_ & _ & Hp). auto.
  - discriminate.
  - inversion Hall as [|a l Hb1 Hrest]; subst.
    destruct (piece_spec_full _ _ _ _ _ _ _ _ Hc Hk Hd) as (Hk' & Hsplit & _).
    rewrite Hsplit. f_equal. eapply IH; eauto.
Qed.

(** ... and whatever the outcome, what has been handed out is a prefix of the
    object from the start offset (nothing duplicated, skipped or foreign). *)
Theorem stitched_prefix_full ifuel max C : forall cur k ans out e offs,
  stitched ifuel max cur k ans out e offs ->
  forall b, cur = ucr_open ifuel b k -> carries_full C b -> Forall (ans_carries C) ans ->
  k <= lenN C -> exists rest, dropN k C = out ++ rest.
Proof.
  induction 1 as [cur k ans p cur' Hd|cur k ans p t cur' c Hd Hne Ho|cur k b1 rest p t cur' p2 e offs Hd Hne _ IH];
    intros b -> Hc Hall Hk.
  - destruct (piece_spec_full _ _ _ _ _ _ _ _ Hc Hk Hd) as (_ & Hs & _). eauto.
  - destruct (piece_spec_full _ _ _ _ _ _ _ _ Hc Hk Hd) as (_ & Hs & _). eauto.
  - inversion Hall as [|a l Hb1 Hrest]; subst.
    destruct (piece_spec_full _ _ _ _ _ _ _ _ Hc Hk Hd) as (Hk' & Hsplit & _).
    destruct (IH _ eq_refl Hb1 Hrest Hk') as (r & Hr). exists r. rewrite Hsplit, Hr, app_assoc. reflexivity.
Qed.

(** On the scripts the harness generates for readers that attach EOF to data
    (chunks, optionally one final Eof event — [c16Clean]) the two carrier
    notions coincide. *)
Fixpoint clean_script (evs : list ev) : Prop :=
  match evs with
  | [] => True
  | Chunk _ :: r => clean_script r
  | Eof :: r => r = []
  | Err _ :: _ => False
  end.
Lemma clean_ccar_rcar : forall evs C, clean_script evs -> ccar C evs -> rcar C evs.
Proof.
  induction evs as [|[bs|c|] r IH]; intros C Hcl (rest & -> & Hrest); cbn [clean_script content rcar fst snd] in *.
  - rewrite (Hrest eq_refl). reflexivity.
  - destruct (content r) as [c0 e0] eqn:Ec. cbn [fst snd] in *. exists (c0 ++ rest). rewrite <- app_assoc.
    split; [reflexivity|]. apply IH; [exact Hcl|]. exists rest. rewrite Ec. auto.
  - contradiction.
  - subst r. rewrite (Hrest eq_refl). cbn. auto.
Qed.
