(** C16N — the monitor the judge applies, [mon16Nx], is silent on the model
    for EVERY input of the domain: no side condition on the run's result.

    [run_tree_clause2] (Buffer/EHNestMoreRoot.v) leaves one alternative for
    ToReader: "the outermost handler's last answer was the error x, but the
    consumer got the validator's own error code".  Here: that alternative only
    arises when the object the tree carries is LONGER than the digest's size -
    the too-long exception of [mon16Nx] ([toolong16N], Run/R16N.v).

    The casValidatingReader produces its own code in four places:
      - data handed over by the reader exceeds bytesRemaining (checked BEFORE
        the error that came with the data is looked at);
      - io.ReadFull(r, p[:1]) after the last expected byte got a byte (and
        dropped the error that came with it);
      - io.EOF before bytesRemaining = 0;   - checksum mismatch at io.EOF.
    The last two need io.EOF from the reader, and a root handler that has
    passed on io.EOF has not answered with an error.  In the first two the
    bytes the reader has handed out in total exceed the digest's size, and they
    are a prefix of the object the tree carries ([nrread_is_rlaw],
    Buffer/EHNestCarry.v), so the object is longer than the digest's size. *)
From Coq Require Import List ZArith NArith Bool Lia.
From BBS Require Import Common.Sx Buffer.Source Buffer.Validate Buffer.Convert Buffer.ErrHandler
  Buffer.StreamProofs Buffer.ValidateProofs Buffer.PreserveProofs Buffer.ConvertProofs Buffer.C09FullMonitor
  Buffer.EHFullCarry
  Buffer.EHNest Buffer.EHNestCarry Buffer.EHNestRules Buffer.EHNestMoreRet Buffer.EHNestMoreRoot
  Buffer.EHNestMoreMon Buffer.EHNestMoreFuel Buffer.EHNestMoreDone Buffer.EHNestMoreTop Buffer.EHNestDepth
  Run.R09 Run.R16 Run.R16N Run.R16NProofs.
Import ListNotations.
Open Scope N_scope.

(** * The casValidatingReader over a reader that carries the object and whose
    errors say what the root handler returned *)
Section ValidatorTooLong.
  Variable H : bytes -> bytes.
  Variable cfg : vcfg.
  Context {S : Type}.
  Variable ret : S -> option Z.
  Variable P0 : S -> Prop.
  Hypothesis P0_ret : forall s, P0 s -> ret s = None.
  Variable rd : N -> S -> (bytes * err) * S.
  Hypothesis rd_told : forall cap s c e s', P0 s -> rd cap s = ((c, e), s') -> told ret P0 e s'.
  Variable I : bytes -> S -> Prop.
  Hypothesis Hlaw : rlaw rd I.
  Variable L : N.          (* the length of the object *)

  Definition okl (x : Z) (e : err) : Prop := e = ECode x \/ (e = ECode (g_code cfg) /\ g_size cfg < L).

  (** while no error is stuck: the root handler has not answered with an error,
      the reader carries a rest [Crem] of the object, and what has been handed
      out so far ([L - |Crem|]) is what the validator has counted ([size - bytesRemaining]) *)
  Definition Kvr (st : vst S) : Prop :=
    (v_err st = ENone -> P0 (v_u st) /\ exists Crem, I Crem (v_u st) /\ L + v_rem st = g_size cfg + lenN Crem) /\
    (forall x, ret (v_u st) = Some x -> okl x (v_err st)).

  Lemma read_full_prefix : forall f want got s g fe s' C,
    read_full_loop rd f want got s = ((g, fe), s') -> I C s -> exists d C', g = got ++ d /\ C = d ++ C'.
  Proof.
    induction f as [|f IH]; intros want got s g fe s' C Hr Hi; cbn [read_full_loop] in Hr;
      destruct (want <=? lenN got) eqn:Ew.
    - inv Hr. exists [], C. rewrite app_nil_r. auto.
    - inv Hr. exists [], C. rewrite app_nil_r. auto.
    - inv Hr. exists [], C. rewrite app_nil_r. auto.
    - destruct (rd (want - lenN got) s) as [[c e0] s1] eqn:Hrd.
      destruct (Hlaw _ _ _ _ _ _ Hrd Hi) as (C1 & -> & Hn & _).
      assert (Herr : e0 <> ENone ->
                (if want <=? lenN (got ++ c) then ((got ++ c, ENone), s1)
                 else match e0 with
                      | EEof => ((got ++ c, if is_nil (got ++ c) then EEof else EUnexp), s1)
                      | _ => ((got ++ c, e0), s1)
                      end) = ((g, fe), s') ->
                exists d C', g = got ++ d /\ c ++ C1 = d ++ C').
      { intros _ Hx. exists c, C1. split; [|reflexivity].
        destruct (want <=? lenN (got ++ c)); [inv Hx; reflexivity|]. destruct e0; inv Hx; reflexivity. }
      destruct e0; try (apply Herr; [congruence|exact Hr]).
      destruct (IH _ _ _ _ _ _ _ Hr (Hn eq_refl)) as (d & C' & A & B).
      exists (c ++ d), C'. rewrite A, B, <- !app_assoc. auto.
  Qed.

  Lemma vr_read_K f cap st r st' : vr_read H cfg rd f cap st = (r, st') -> Kvr st -> Kvr st'.
  Proof.
    destruct r as [c e]. intros Hr (Hj0 & Hjr). unfold vr_read in Hr.
    assert (Hcase : v_err st = ENone \/ v_err st <> ENone) by (destruct (v_err st); [left|right..]; congruence).
    destruct Hcase as [Eerr|Hne].
    2:{ assert (st' = st) by (destruct (v_err st) eqn:Ev; try congruence; inv Hr; reflexivity). subst st'.
        split; assumption. }
    destruct (Hj0 Eerr) as (Hp & Crem & Hi & Hlen). clear Hj0 Hjr. rewrite Eerr in Hr.
    destruct (vr_do_read H cfg rd f cap st) as [[d0 e0] st0] eqn:Hdo. inv Hr.
    assert (Hmain : (e = ENone -> P0 (v_u st0) /\ exists Crem0, I Crem0 (v_u st0) /\ L + v_rem st0 = g_size cfg + lenN Crem0) /\
                    (forall x, ret (v_u st0) = Some x -> okl x e)).
    2:{ destruct Hmain as (A & B). split; cbn [v_set_err v_err v_u v_rem]; assumption. }
    unfold vr_do_read in Hdo. destruct (rd cap (v_u st)) as [[data re] u'] eqn:Hrd.
    pose proof (rd_told _ _ _ _ _ Hp Hrd) as Ht.
    destruct (Hlaw _ _ _ _ _ _ Hrd Hi) as (C1 & EC & HI1 & _).
    assert (Hlen1 : L + v_rem st = g_size cfg + lenN data + lenN C1) by (rewrite EC, lenN_app in Hlen; lia).
    assert (HW : forall x, ret u' = Some x -> re = ECode x) by (intros x; apply (told_W ret P0 P0_ret); exact Ht).
    assert (HN : re = ENone \/ re = EEof -> forall x, ret u' = Some x -> False)
      by (intros He x Hx; rewrite (P0_ret _ (told_P0 ret P0 _ _ Ht He)) in Hx; discriminate).
    cbn [v_set_u v_rem v_u v_acc v_err v_cbs] in Hdo.
    destruct (v_rem st <? lenN data) eqn:Elong.
    { apply N.ltb_lt in Elong. unfold v_fail in Hdo; inv Hdo; cbn. split; [congruence|].
      intros x _. right. split; [reflexivity|lia]. }
    apply N.ltb_ge in Elong.
    destruct re; cbn [v_rem v_u v_acc v_err v_cbs] in Hdo.
    - destruct (v_rem st - lenN data =? 0) eqn:Ez.
      + destruct (read_full rd f 1 u') as [[fin0 fe] u''] eqn:Hf. unfold read_full in Hf.
        destruct (read_full_loop_told ret P0 P0_ret rd rd_told _ _ _ _ _ _ _ Hf Ht) as (Hwant & Htold).
        destruct (read_full_prefix _ _ _ _ _ _ _ _ Hf (HI1 eq_refl)) as (d & C2 & Ed & EC2). cbn [app] in Ed. subst d.
        cbn [v_set_u v_rem v_u v_acc v_err v_cbs] in Hdo. apply N.eqb_eq in Ez.
        destruct fe.
        * destruct (v_rem st - lenN data <? lenN fin0) eqn:El.
          -- apply N.ltb_lt in El. unfold v_fail in Hdo; inv Hdo; cbn. split; [congruence|].
             intros x _. right. split; [reflexivity|]. rewrite lenN_app in Hlen1. lia.
          -- exfalso. specialize (Hwant eq_refl). apply N.ltb_ge in El. lia.
        * destruct (v_rem st - lenN data <? lenN fin0).
          -- unfold v_fail in Hdo; inv Hdo; cbn; split; [congruence|].
             intros x Hx. discriminate (Htold ltac:(congruence) x Hx).
          -- unfold vr_compare in Hdo. cbn in Hdo. destruct (bytes_eqb _ _); unfold v_fail in Hdo; inv Hdo; cbn;
               (split; [congruence|]); intros x Hx; discriminate (Htold ltac:(congruence) x Hx).
        * destruct (v_rem st - lenN data <? lenN fin0).
          -- unfold v_fail in Hdo; inv Hdo; cbn; split; [congruence|].
             intros x Hx. discriminate (Htold ltac:(congruence) x Hx).
          -- unfold vr_compare in Hdo. cbn in Hdo. destruct (bytes_eqb _ _); unfold v_fail in Hdo; inv Hdo; cbn;
               (split; [congruence|]); intros x Hx; discriminate (Htold ltac:(congruence) x Hx).
        * inv Hdo; cbn. split; [congruence|]. intros x Hx. left. apply Htold; [congruence|exact Hx].
        * inv Hdo; cbn. split; [congruence|]. intros x Hx. left. apply Htold; [congruence|exact Hx].
      + inv Hdo; cbn. split.
        * intros _. split; [exact Ht|]. exists C1. split; [apply HI1; reflexivity|lia].
        * intros x Hx. exfalso. eapply HN; eauto.
    - destruct (negb (v_rem st - lenN data =? 0)).
      + unfold v_fail in Hdo; inv Hdo; cbn; split; [congruence|]. intros x Hx. exfalso. eapply HN; eauto.
      + unfold vr_compare in Hdo. cbn in Hdo. destruct (bytes_eqb _ _); unfold v_fail in Hdo; inv Hdo; cbn;
          (split; [congruence|]); intros x Hx; exfalso; eapply HN; eauto.
    - contradiction.
    - inv Hdo; cbn. split; [congruence|]. intros x Hx. left. apply HW. exact Hx.
    - inv Hdo; cbn. split; [congruence|]. intros x Hx. left. apply HW. exact Hx.
  Qed.
End ValidatorTooLong.

(** * Clause 2 on the model, every method, with the too-long alternative made explicit *)
Section Methods.
  Variable H : bytes -> bytes.
  Variable cfg : vcfg.
  Variable fuel : nat.
  Variable C : bytes.

  Theorem run_tree_clause2_toolong inner ans m :
    tcarry C (NW inner ans) ->
    z_err (run_tree H cfg fuel (NW inner ans) m) <> EFuel ->
    match z_tree (run_tree H cfg fuel (NW inner ans) m) with
    | ONode offs _ _ =>
        forall x, returnedN ans (length offs) = Some x ->
          z_err (run_tree H cfg fuel (NW inner ans) m) = ECode x \/
          (is_to_reader m = true /\ z_err (run_tree H cfg fuel (NW inner ans) m) = ECode (g_code cfg) /\
           g_size cfg < lenN C)
    | OLeaf _ => True
    end.
  Proof.
    intros Hcar Hnf.
    assert (Hold : is_to_reader m = false ->
      match z_tree (run_tree H cfg fuel (NW inner ans) m) with
      | ONode offs _ _ =>
          forall x, returnedN ans (length offs) = Some x ->
            z_err (run_tree H cfg fuel (NW inner ans) m) = ECode x \/
            (is_to_reader m = true /\ z_err (run_tree H cfg fuel (NW inner ans) m) = ECode (g_code cfg) /\
             g_size cfg < lenN C)
      | OLeaf _ => True
      end).
    { intros Hm. pose proof (run_tree_clause2 H cfg fuel inner ans m Hnf) as Hc.
      destruct (z_tree (run_tree H cfg fuel (NW inner ans) m)); [exact I|].
      intros x Hx. destruct (Hc x Hx) as [E|(E & _)]; [left; exact E|congruence]. }
    destruct m; try (apply Hold; reflexivity). clear Hold.
    remember (NW inner ans) as t eqn:Et. revert Hnf. rewrite Et; cbn [run_tree is_to_reader]; rewrite <- Et.
    assert (TR : rtlaw vstuck (nrv_read H cfg fuel) (Jvr cfg (retR ans) (P0R ans))).
    { unfold nrv_read. apply vr_read_tracked; [apply P0R_ret|].
      intros cap s c e s' Hp Hr. eapply nrread_told; eassumption. }
    assert (HinitR : Jvr cfg (retR ans) (P0R ans) (vinit cfg (nropen fuel t 0))).
    { subst t. split; cbn; [intros _; constructor|intros x Hx; discriminate]. }
    pose (K := Kvr cfg (retR ans) (P0R ans) (I_nrd C) (lenN C) (S := nrd)).
    assert (HK : forall cap s r s', nrv_read H cfg fuel cap s = (r, s') -> K s -> K s').
    { intros cap s r s'. unfold nrv_read, K. apply vr_read_K; [apply P0R_ret| |apply nrread_is_rlaw].
      intros cap0 s0 c0 e0 s1 Hp Hr. eapply nrread_told; eassumption. }
    assert (HinitK : K (vinit cfg (nropen fuel t 0))).
    { split.
      - intros _. split; [subst t; cbn; constructor|]. exists C. split; [apply nropen_init_carries; exact Hcar|].
        cbn [vinit v_rem]. lia.
      - subst t. cbn. intros x Hx. discriminate. }
    destruct (rconsume (nrv_read H cfg fuel) fuel caps (last_cap caps) [] (vinit cfg (nropen fuel t 0)))
      as [[out e] st] eqn:Hrc.
    destruct (rextra (nrv_read H cfg fuel) extra (last_cap caps) st) as [ex st2] eqn:He.
    cbn [z_err z_tree]. intros Hnf.
    pose proof (rconsume_pres _ _ _ HK _ _ _ _ _ _ _ Hrc HinitK) as HKst.
    destruct (rconsume_tracked _ _ _ TR _ _ _ _ _ _ _ _ HinitR Hrc) as (A & [->|B]);
      [exfalso; apply Hnf; reflexivity|].
    pose proof (rextra_stuck _ _ _ TR _ _ _ _ _ _ A B He) as ->.
    cbn [v_set_u v_u].
    pose proof (nrobs_ret ans (nrclose (v_u st))) as Hn. rewrite nrclose_ret in Hn.
    destruct (nrobs (nrclose (v_u st))) as [|offs dn kids]; [exact I|]. intros x Hx. rewrite Hn in Hx.
    destruct HKst as (_ & HKr). destruct B as (V & _). rewrite V in HKr.
    destruct (HKr x Hx) as [E|(E1 & E2)]; [left; exact E|right; auto].
  Qed.
End Methods.

(** * The judge's monitor on the model *)
Lemma clause2_toolong H cfg fuel inner ans m C out :
  out = run_tree H cfg fuel (NW inner ans) m ->
  tcarry C (NW inner ans) ->
  z_err out <> EFuel ->
  In 2%Z (monN_data (NW inner ans) m C (z_data out) (C09FullMonitor.code_of (z_err out)) (codes_of (z_tree out))) ->
  is_to_reader m = true /\ z_err out = ECode (g_code cfg) /\ g_size cfg < lenN C.
Proof.
  intros Eout Hcar Hnf Hin.
  pose proof (run_tree_clause2_toolong H cfg fuel C inner ans m Hcar) as Hc. rewrite <- Eout in Hc. specialize (Hc Hnf).
  clear Eout. unfold monN_data in Hin.
  apply in_app_or in Hin. destruct Hin as [Hin|Hin].
  { destruct (t_done1 _); [contradiction|]. apply In_one in Hin. discriminate. }
  destruct (is_discard m); [contradiction|].
  apply in_app_or in Hin. destruct Hin as [Hin|Hin].
  - destruct (z_tree out) as [n|offs d kids]; cbn [codes_of] in Hin; [contradiction|].
    rewrite map_length in Hin.
    destruct (returnedN ans (length offs)) as [c'|] eqn:Er; [|contradiction].
    destruct (Hc c' eq_refl) as [E|E]; [|exact E]. exfalso.
    rewrite E in Hin. cbn [C09FullMonitor.code_of] in Hin. rewrite Z.eqb_refl in Hin. cbn [negb] in Hin.
    rewrite andb_false_r in Hin. contradiction.
  - exfalso. repeat (apply in_app_or in Hin; destruct Hin as [Hin|Hin]);
      match type of Hin with In _ (if ?x then _ else _) => destruct x end; try contradiction;
      apply In_one in Hin; discriminate.
Qed.

(** when clause 2 fires on the model the too-long exception applies *)
Lemma mon16N_clause2_toolong inp :
  dom16NG inp -> In 2%Z (mon16N inp (run16N inp)) -> toolong16N inp (run16N inp) = true.
Proof.
  intros (Hok & Hroot & Hg & Hm3 & Hpos) Hin. destruct (out16N_no_fuel inp Hg) as [Hnf _].
  rewrite (mon16N_decoded0 inp) in Hin.
  destruct (proj1 (tree_ok_carries _) _ Hok) as (Hcar & _).
  unfold toolong16N. cbv zeta.
  destruct (n_tree (dec_case16N inp)) as [b|inner ans] eqn:Et; [contradiction|].
  pose proof (out16N_eq inp) as Eo. rewrite Et in Eo.
  destruct (clause2_toolong _ _ _ _ _ _ _ _ Eo Hcar Hnf Hin) as (Hm & He & Hl).
  unfold run16N. destruct (sx_nth_enc_outN (n_report (dec_case16N inp)) (out16N inp)) as (_ & E1 & _).
  rewrite E1, He. cbn [enc_err sx_Z]. rewrite Z.eqb_refl.
  apply N.ltb_lt in Hl. rewrite Hl.
  destruct (n_meth (dec_case16N inp)); try discriminate. reflexivity.
Qed.

(** The monitor the judge applies is silent on the model: every input of the
    domain, no condition on how the run ends. *)
Lemma all2_filter (l : list Z) : (forall c, In c l -> c = 2%Z) -> filter (fun z => negb (z =? 2)%Z) l = [].
Proof.
  induction l as [|k l IH]; intros Hall; [reflexivity|]. cbn [filter].
  rewrite (Hall k (or_introl eq_refl)). cbn. apply IH. intros c Hc. apply Hall. right. exact Hc.
Qed.
Lemma all2_notin (l : list Z) : (forall c, In c l -> c = 2%Z) -> ~ In 2%Z l -> l = [].
Proof.
  destruct l as [|k l]; intros Hall Hn; [reflexivity|]. exfalso. apply Hn. left. apply Hall. left. reflexivity.
Qed.

Theorem mon16Nx_silent_on_model inp : dom16NG inp -> mon16Nx inp (run16N inp) = [].
Proof.
  intros Hdom. pose proof (mon16N_on_model_nodepth inp Hdom) as Hall.
  pose proof (mon16N_clause2_toolong inp Hdom) as Htl.
  unfold mon16Nx. cbv zeta.
  destruct (toolong16N inp (run16N inp)) eqn:Etl.
  - apply all2_filter. exact Hall.
  - apply all2_notin; [exact Hall|]. intros Hin. pose proof (Htl Hin) as X. congruence.
Qed.

Corollary mon16Nx_silent_on_model_F inp : dom16NF inp -> mon16Nx inp (run16N inp) = [].
Proof. intros Hd. exact (mon16Nx_silent_on_model inp (dom16NF_dom16NG inp Hd)). Qed.
