(** C15, model M1: casClonedBuffer registration and multiplexedChunkReader as
    a labelled transition system for n consumers (definitions only).

    Every consumer holds one handle of a stream-cloned buffer and runs the
    program  ToChunkReader ; Read^k ; Close   (or Discard = register without
    validation, then Close).  An event is the id of the consumer that takes
    its next atomic step: one mutex-protected section of
    cas_cloned_buffer.go / multiplexed_chunk_reader.go.  The hand-off
    channels have capacity 1, so the sends are part of the sender's section; a
    woken consumer's receive touches no shared state and is merged into the
    wake-up.  The underlying source is a script: [nchunks] chunks (chunk k is
    item [k]) followed for ever by a terminal item [-(1+code)] (code 0 =
    io.EOF).  A Go panic is the explicit flag [panicked]. *)
From Coq Require Import List ZArith NArith Bool Arith.
Import ListNotations.

Inductive cstat := CNew | CWaitReg | CReady | CWaitRead | CDone.

Record cons := mkC {
  reads : nat;      (* Read calls still to be issued before Close *)
  disc : bool;      (* Discard: registers with needsValidation = false *)
  csz : N;          (* maximumChunkSizeBytes asked for *)
  st : cstat;
  got : list Z      (* results of its Read calls so far *)
}.

Record mst := mkM {
  remaining : nat;          (* casClonedBuffer.consumersRemaining *)
  regwait : list nat;       (* casClonedBuffer.consumersWaiting (owners of the channels) *)
  nval : bool;              (* needsValidation *)
  minchunk : option N;      (* maximumChunkSizeBytes; None = -1 *)
  created : bool;           (* the multiplexedChunkReader exists *)
  pending : nat;            (* pendingConsumers *)
  waiting : list nat;       (* waitingConsumers (owners of the channels) *)
  srcpos : nat;             (* Read calls issued on the underlying ChunkReader *)
  closed : nat;             (* Close calls issued on the underlying ChunkReader *)
  cs : list cons;
  panicked : bool
}.

Section Mux.
  Variable nchunks : nat.
  Variable term : Z.

  Definition item_at (pos : nat) : Z :=
    if Nat.ltb pos nchunks then Z.of_nat pos else (- (1 + term))%Z.
  Definition items (n : nat) : list Z := map item_at (seq 0 n).

  Fixpoint upd {A} (i : nat) (x : A) (l : list A) : list A :=
    match l, i with
    | [], _ => []
    | _ :: t, O => x :: t
    | h :: t, S k => h :: upd k x t
    end.

  Definition set_st (c : cons) (s : cstat) : cons := mkC (reads c) (disc c) (csz c) s (got c).
  Definition is_st (s : cstat) (c : cons) : bool :=
    match s, st c with
    | CNew, CNew | CWaitReg, CWaitReg | CReady, CReady | CWaitRead, CWaitRead | CDone, CDone => true
    | _, _ => false
    end.
  Definition count (s : cstat) (l : list cons) : nat := length (filter (is_st s) l).

  (** hand the multiplexed reader to every consumer parked in toChunkReader *)
  Definition wake_reg (l : list cons) : list cons :=
    map (fun c => if is_st CWaitReg c then set_st c CReady else c) l.
  (** share one read result with every consumer parked in Read *)
  Definition wake_read (it : Z) (l : list cons) : list cons :=
    map (fun c => if is_st CWaitRead c
                  then mkC (reads c) (disc c) (csz c) CReady (got c ++ [it]) else c) l.

  Definition min_chunk (cur : option N) (want : N) : option N :=
    match cur with
    | None => Some want
    | Some m => if N.ltb want m then Some want else Some m
    end.

  Definition panic (s : mst) : mst :=
    mkM (remaining s) (regwait s) (nval s) (minchunk s) (created s) (pending s) (waiting s)
        (srcpos s) (closed s) (cs s) true.

  (** casClonedBuffer.toChunkReader, locked section *)
  Definition do_register (s : mst) (i : nat) (c : cons) : mst :=
    match remaining s with
    | O => panic s
    | S r =>
        let nv := nval s || negb (disc c) in
        let mc := min_chunk (minchunk s) (csz c) in
        match r with
        | O => mkM 0 [] nv mc true (1 + length (regwait s)) [] (srcpos s) (closed s)
                   (upd i (set_st c CReady) (wake_reg (cs s))) (panicked s)
        | S _ => mkM r (regwait s ++ [i]) nv mc false (pending s) (waiting s) (srcpos s) (closed s)
                     (upd i (set_st c CWaitReg) (cs s)) (panicked s)
        end
    end.

  (** multiplexedChunkReader.Read, locked section *)
  Definition do_read (s : mst) (i : nat) (c : cons) : mst :=
    match pending s with
    | O => panic s
    | S p =>
        let c' := mkC (pred (reads c)) (disc c) (csz c) (st c) (got c) in
        match p with
        | O =>
            let it := item_at (srcpos s) in
            mkM (remaining s) (regwait s) (nval s) (minchunk s) (created s)
                (length (waiting s) + 1) [] (S (srcpos s)) (closed s)
                (upd i (mkC (reads c') (disc c) (csz c) CReady (got c ++ [it])) (wake_read it (cs s)))
                (panicked s)
        | S _ =>
            mkM (remaining s) (regwait s) (nval s) (minchunk s) (created s)
                p (waiting s ++ [i]) (srcpos s) (closed s)
                (upd i (set_st c' CWaitRead) (cs s)) (panicked s)
        end
    end.

  (** multiplexedChunkReader.Close *)
  Definition do_close (s : mst) (i : nat) (c : cons) : mst :=
    match pending s with
    | O => panic s
    | S p =>
        let cs1 := upd i (set_st c CDone) (cs s) in
        match p with
        | S _ => mkM (remaining s) (regwait s) (nval s) (minchunk s) (created s)
                     p (waiting s) (srcpos s) (closed s) cs1 (panicked s)
        | O =>
            match waiting s with
            | [] => mkM (remaining s) (regwait s) (nval s) (minchunk s) (created s)
                        0 [] (srcpos s) (S (closed s)) cs1 (panicked s)
            | _ :: _ =>
                let it := item_at (srcpos s) in
                mkM (remaining s) (regwait s) (nval s) (minchunk s) (created s)
                    (length (waiting s)) [] (S (srcpos s)) (closed s)
                    (wake_read it cs1) (panicked s)
            end
        end
    end.

  (** One atomic step of consumer [i]; [None] when it is parked or finished
      (or the process has panicked). *)
  Definition step (s : mst) (i : nat) : option mst :=
    if panicked s then None else
    match nth_error (cs s) i with
    | None => None
    | Some c =>
        match st c with
        | CNew => Some (do_register s i c)
        | CReady => Some (match reads c with O => do_close s i c | S _ => do_read s i c end)
        | CWaitReg | CWaitRead | CDone => None
        end
    end.

  Fixpoint run (s : mst) (sched : list nat) : option mst :=
    match sched with
    | [] => Some s
    | i :: rest => match step s i with None => None | Some s' => run s' rest end
    end.

  (** Lenient execution for the harness: a scheduled consumer that is not
      enabled is skipped. *)
  Fixpoint run_skip (s : mst) (sched : list nat) : mst :=
    match sched with
    | [] => s
    | i :: rest => run_skip (match step s i with None => s | Some s' => s' end) rest
    end.

  (** Initial state: newCASClonedBuffer followed by n-1 CloneStream calls;
      consumer k issues [fst] reads unless it discards. *)
  Definition new_cons (p : nat * bool * N) : cons :=
    let '(r, d, z) := p in mkC (if d then 0 else r) d z CNew [].
  Definition init (progs : list (nat * bool * N)) : mst :=
    mkM (length progs) [] false None false 0 [] 0 0 (map new_cons progs) false.

  (** Ranking: atomic steps consumer [c] still has to take. *)
  Definition rank1 (c : cons) : nat :=
    match st c with
    | CNew => reads c + 2
    | CWaitReg | CReady | CWaitRead => reads c + 1
    | CDone => 0
    end.
  Definition rank (s : mst) : nat := fold_right (fun c a => rank1 c + a) 0 (cs s).

  Definition all_done (s : mst) : bool := forallb (is_st CDone) (cs s).
End Mux.
