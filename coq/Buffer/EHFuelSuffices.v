(** C16 (fuel) — [stack_fuel] suffices: for every buffer, every stack of
    handler scripts and every method whose loop parameters are positive
    ([good_param], C09FuelSuffices.v) the model of the stack ([run_stack]) with
    fuel at least [stack_fuel b0 anss] never ends in [EFuel] and never offers
    [EFuel] to a handler.  Monotone in the fuel. *)
From Coq Require Import List ZArith NArith Bool Lia.
From BBS Require Import Common.Sx Buffer.Source Buffer.Validate Buffer.Convert Buffer.ErrHandler
  Buffer.StreamProofs Buffer.ValidateProofs Buffer.C09FuelLoops Buffer.C09FuelSuffices Buffer.EHFuelLaws
  Run.R09 Run.R16.
Import ListNotations.
Open Scope nat_scope.

Definition clean_logs (ls : list (list hev)) : Prop := Forall (fun l => ~ In (HOnError EFuel) l) ls.

Lemma Wok_logs w : Wok w -> clean_logs (logs_of w).
Proof. unfold Wok, clean_logs, logs_of, clean. intros Hw. rewrite Forall_map. exact Hw. Qed.

(** * Immediate application and stacking *)
Lemma weh_fuel : forall n b h r h', with_error_handler n b h = (r, h') -> clean h ->
  clean h' /\
  bcost (match r with inl x | inr x => x end) + anscost (h_answers h') <= bcost b + anscost (h_answers h).
Proof.
  induction n as [|n IH]; intros b h r h' Hw Hc; destruct b as [evs|evs at_|d|c]; cbn [with_error_handler] in Hw;
    try (inv Hw; cbn [h_answers done]; split; [first [assumption|apply clean_done; assumption]|lia]).
  - destruct (on_error h (ECode c)) as [a h1] eqn:Ho.
    destruct (on_error_fuel _ _ _ _ Ho ltac:(congruence) Hc) as (Hc1 & Hcost).
    destruct a as [b1|c1]; inv Hw; cbn [bcost done h_answers] in *.
    + split; [assumption|]. pose proof (bcost_pos b1). lia.
    + split; [apply clean_done; assumption|]. lia.
  - destruct (on_error h (ECode c)) as [a h1] eqn:Ho.
    destruct (on_error_fuel _ _ _ _ Ho ltac:(congruence) Hc) as (Hc1 & Hcost).
    destruct a as [b1|c1].
    + destruct (IH _ _ _ _ Hw Hc1) as (A & B). split; [exact A|]. cbn [bcost]. lia.
    + inv Hw. cbn [bcost done h_answers] in *. split; [apply clean_done; assumption|]. lia.
Qed.

Lemma stack_handlers_fuel : forall hs b w b' w', stack_handlers b w hs = (b', w') -> Wok w -> Forall clean hs ->
  Wok w' /\ bcost b' + actcost (w_act w') <= bcost b + actcost (w_act w) + actcost hs.
Proof.
  induction hs as [|h rest IH]; intros b w b' w' Hs Hw Hcl; cbn [stack_handlers] in Hs.
  - inv Hs. split; [exact Hw|]. cbn. lia.
  - inversion Hcl as [|x l Hh Hrest]; subst. destruct (Wok_split _ Hw) as [Hdn Hact]. rewrite actcost_cons.
    destruct (w_act w) as [|a0 act0] eqn:Ea.
    + destruct (with_error_handler _ b h) as [r h'] eqn:Hw'.
      destruct (weh_fuel _ _ _ _ _ Hw' Hh) as (Hc' & Hcost).
      destruct r as [b1|b1].
      * apply IH in Hs; [|unfold Wok; cbn [w_dn w_act]; apply Forall_app; split; [exact Hdn|repeat constructor; exact Hc']|exact Hrest].
        destruct Hs as [A B]. split; [exact A|]. cbn [w_act] in B. rewrite actcost_cons in B. cbn [actcost fold_right] in *. lia.
      * apply IH in Hs; [|unfold Wok; cbn [w_dn w_act]; rewrite app_nil_r; apply Forall_app; split; [exact Hdn|repeat constructor; exact Hc']|exact Hrest].
        destruct Hs as [A B]. split; [exact A|]. cbn [w_act] in B. cbn [actcost fold_right] in *. lia.
    + apply IH in Hs; [| |exact Hrest].
      * destruct Hs as [A B]. split; [exact A|]. cbn [w_act] in B. rewrite actcost_app in B.
        rewrite !actcost_cons in *. change (actcost []) with 0 in B. lia.
      * unfold Wok. cbn [w_dn w_act]. rewrite <- Ea in *. apply Forall_app. split; [exact Hdn|].
        apply Forall_app. split; [exact Hact|repeat constructor; exact Hh].
Qed.

Section Methods.
  Variable H : bytes -> bytes.
  Variable cfg : vcfg.
  Variable fuel : nat.

  (** * A method applied to a plain buffer *)
  Lemma byte_slice_buffer_fuel data cbs k m : length data < fuel -> good_param m = true ->
    o_err (byte_slice_buffer fuel data cbs k m) <> EFuel.
  Proof.
    intros Hl Hg. destruct m; cbn [byte_slice_buffer good_param] in *.
    - destruct (max <? lenN data)%N; cbn; congruence.
    - cbn. congruence.
    - destruct (off <? 0)%Z; [cbn; congruence|].
      destruct (lenN data <? Z.to_N off)%N; [cbn; congruence|].
      cbn [o_err]. destruct (lenN (takeN plen (dropN (Z.to_N off) data)) <? plen)%N; congruence.
    - apply N.leb_le in Hg.
      destruct (valid_offset (lenN data) off); [|cbn; congruence].
      destruct (drain (bs_read max) fuel [] (dropN (Z.to_N off) data)) as [[out e] s] eqn:Hd.
      cbn beta iota zeta.
      destruct (extra_reads (bs_read max) extra s) as [ex s2].
      cbn beta iota zeta. cbn [o_err].
      refine (proj1 (drain_fuel _ _ _ _ (bs_read_prog max Hg) fuel _ _ _ _ _ I _ Hd)).
      pose proof (len_dropN_le (Z.to_N off) data). lia.
    - destruct (caps_good _ Hg) as [Hcaps Hlast].
      destruct (rconsume bb_read fuel caps (last_cap caps) [] data) as [[out e] s] eqn:Hrc.
      cbn beta iota zeta.
      destruct (rextra bb_read extra (last_cap caps) s) as [ex s2].
      cbn beta iota zeta. cbn [o_err].
      exact (proj1 (rconsume_fuel _ _ _ bb_read_prog fuel _ _ _ _ _ _ _ Hcaps Hlast I Hl Hrc)).
    - destruct (max <? lenN data)%N; cbn; congruence.
    - cbn. congruence.
  Qed.

  Lemma plain_fuel b m : 4 * bcost b <= fuel -> good_param m = true -> o_err (plain H cfg fuel b m) <> EFuel.
  Proof.
    intros Hf Hg. destruct b as [evs|evs at_|d|c]; cbn [plain bcost] in *.
    - apply chunk_fuel_suffices; [rewrite script_fuel_measure; lia|exact Hg].
    - apply reader_fuel_suffices; [rewrite script_fuel_measure; lia|exact Hg].
    - apply byte_slice_buffer_fuel; [lia|exact Hg].
    - destruct m; cbn; congruence.
  Qed.

  (** * Nested tryRepeatedly *)
  Lemma answers_left_ansleft act : answers_left act = ansleft act.
  Proof. reflexivity. Qed.

  Lemma try_stack_fuel : forall n m b w cbs d e cbs' w', good_param m = true ->
    4 * (bcost b + actcost (w_act w)) <= fuel -> ansleft (w_act w) < n -> Wok w ->
    try_stack H cfg fuel n m b w cbs = (d, e, cbs', w') -> e <> EFuel /\ Wok w'.
  Proof.
    induction n as [|n IH]; intros m b w cbs d e cbs' w' Hg Hf Hn Hw Ht; [lia|].
    cbn [try_stack] in Ht. cbv zeta in Ht.
    pose proof (plain_fuel b m ltac:(lia) Hg) as Hp.
    set (o := plain H cfg fuel b m) in *.
    set (w1 := retire w (closes_of b o)) in *.
    assert (Hw1 : Wok w1) by (apply Wok_retire; exact Hw).
    assert (Ha1 : w_act w1 = w_act w) by reflexivity.
    destruct (Wok_split _ Hw1) as [Hdn Hact].
    assert (Hesc : o_err o <> ENone -> o_err o <> EEof ->
      (let '((ob, e'), passed, act') := escalate (o_err o) (w_act w1) in
       match ob with
       | None => ([], e', cbs ++ o_cbs o, all_done (after_failure w1 passed))
       | Some b' => try_stack H cfg fuel n m b' (after_replace w1 passed act' []) (cbs ++ o_cbs o)
       end) = (d, e, cbs', w') -> e <> EFuel /\ Wok w').
    { intros _ _ Ht'.
      destruct (escalate (o_err o) (w_act w1)) as [[[ob e'] passed] act'] eqn:He.
      destruct (escalate_fuel _ _ _ _ _ _ He Hp Hact) as (E1 & E2 & E3 & E4 & E5).
      destruct ob as [b'|].
      - destruct E5 as (E5 & E6). rewrite Ha1 in *.
        eapply IH; [exact Hg| | | |exact Ht']; cbn [after_replace w_act].
        + lia.
        + lia.
        + apply Wok_after_replace; assumption.
      - inv Ht'. split; [exact E1|]. apply Wok_all_done, Wok_after_failure; assumption. }
    destruct (o_err o) eqn:Eo; try (apply Hesc; [congruence|congruence|];
      destruct n; exact Ht).
    - inv Ht. split; [congruence|]. apply Wok_all_done. exact Hw1.
    - inv Ht. split; [congruence|]. apply Wok_all_done. exact Hw1.
  Qed.

  (** * The validated nested readers *)
  Notation IV := (Iv (Isch fuel) musch fuel).
  Notation MV := (muv musch).
  Notation IR := (Iv (Ishr fuel) mushr fuel).
  Notation MR := (muv mushr).

  Lemma shv_read_prog max : (1 <= max)%N -> cprog (fun _ => 0) (shv_read H cfg fuel max) IV MV.
  Proof. intros Hmax. exact (vcr_read_prog _ _ _ _ H cfg fuel (sch_read_prog fuel max Hmax)). Qed.

  Lemma shv_close_inv s : IV s -> IV (shv_close s) /\ MV (shv_close s) <= MV s.
  Proof.
    unfold Iv, muv, shv_close. intros (A & B & C). vsimp.
    destruct (sch_close_fuel fuel _ A) as [A1 A2]. rsplit; auto; lia.
  Qed.

  Lemma shv_init_inv b w : 4 * (bcost b + actcost (w_act w)) <= fuel -> Wok w ->
    IV (vinit cfg (sch_init fuel b w)) /\ MV (vinit cfg (sch_init fuel b w)) < fuel.
  Proof.
    intros Hf Hw. destruct (sch_init_fuel fuel b w Hf Hw) as [A B].
    unfold Iv, muv, vinit. vsimp. rsplit; auto; try congruence; lia.
  Qed.

  Lemma shrv_read_prog : rprog (shrv_read H cfg fuel) IR MR.
  Proof. exact (vr_read_prog _ _ _ H cfg fuel (shr_read_prog fuel)). Qed.

  Lemma shrv_init_inv b w : 4 * (bcost b + actcost (w_act w)) <= fuel -> Wok w ->
    IR (vinit cfg (shr_init fuel b w)) /\ MR (vinit cfg (shr_init fuel b w)) < fuel.
  Proof.
    intros Hf Hw. destruct (shr_init_fuel fuel b w Hf Hw) as [A B].
    unfold Iv, muv, vinit. vsimp. rsplit; auto; try congruence; lia.
  Qed.

  Lemma IV_Wok s : IV s -> Wok (sc_w (v_u s)).
  Proof. intros ((_ & _ & Hw) & _). exact Hw. Qed.
  Lemma IR_Wok s : IR s -> Wok (sr_w (v_u s)).
  Proof. intros ((_ & _ & Hw) & _). exact Hw. Qed.

  (** * Every method of the stacked buffer *)
  Theorem ehs_method_fuel b w m : good_param m = true ->
    4 * (bcost b + actcost (w_act w)) <= fuel -> Wok w ->
    y_err (ehs_method H cfg fuel b w m) <> EFuel /\ clean_logs (y_logs (ehs_method H cfg fuel b w m)).
  Proof.
    intros Hg Hf Hw.
    assert (Hdisc : clean_logs (logs_of (discarded H cfg fuel b w))).
    { apply Wok_logs. unfold discarded. apply Wok_retire, Wok_all_done. exact Hw. }
    destruct m; cbn [ehs_method good_param] in *.
    - (* ToByteSlice *)
      destruct (try_stack _ _ _ _ _ _ _ _) as [[[d e] cbs] w'] eqn:Ht.
      assert (AB : e <> EFuel /\ Wok w')
        by (refine (try_stack_fuel _ _ _ _ _ _ _ _ _ _ Hf _ Hw Ht); [reflexivity|unfold answers_left, ansleft; lia]).
      destruct AB as [A B].
      cbn [y_err y_logs]. split; [exact A|apply Wok_logs; exact B].
    - (* IntoWriter *)
      unfold into_writer_cr.
      destruct (shv_init_inv b w Hf Hw) as [I0 M0].
      destruct (drain _ fuel [] _) as [[out e] st] eqn:Hd. cbn beta iota zeta. cbn [y_err y_logs].
      destruct (drain_fuel _ _ _ _ (shv_read_prog 65536%N ltac:(lia)) fuel _ _ _ _ _ I0 M0 Hd) as (A & B & C).
      split; [destruct e; congruence|]. apply Wok_logs. apply IV_Wok. apply shv_close_inv. exact B.
    - (* ReadAt *)
      destruct (try_stack _ _ _ _ _ _ _ _) as [[[d e] cbs] w'] eqn:Ht.
      assert (AB : e <> EFuel /\ Wok w')
        by (refine (try_stack_fuel _ _ _ _ _ _ _ _ _ _ Hf _ Hw Ht); [reflexivity|unfold answers_left, ansleft; lia]).
      destruct AB as [A B].
      cbn [y_err y_logs]. split; [exact A|apply Wok_logs; exact B].
    - (* ToChunkReader *)
      apply N.leb_le in Hg.
      destruct (valid_offset (g_size cfg) off); [|cbn [y_err y_logs]; split; [congruence|exact Hdisc]].
      destruct (shv_init_inv b w Hf Hw) as [I0 M0].
      pose proof (shv_read_prog max Hg) as PV.
      destruct (offset_init_fuel0 _ _ shv_close _ _ PV shv_close_inv fuel off _ I0 M0) as [Io0 Mo0].
      set (o0 := offset_init (shv_read H cfg fuel max) shv_close fuel off (vinit cfg (sch_init fuel b w))) in *.
      pose proof (offset_read_prog0 _ _ _ _ PV) as PO.
      destruct (drain (offset_read (shv_read H cfg fuel max)) fuel [] o0) as [[out e] o] eqn:Hd.
      cbn beta iota zeta.
      destruct (drain_fuel _ _ _ _ PO fuel _ _ _ _ _ Io0 ltac:(lia) Hd) as (A & B & C).
      destruct (extra_reads (offset_read (shv_read H cfg fuel max)) extra o) as [ex o2] eqn:He.
      cbn beta iota zeta. cbn [y_err y_logs].
      pose proof (extra_reads_inv _ _ _ _ PO _ _ _ _ B He) as B2.
      split; [exact A|]. apply Wok_logs. apply IV_Wok.
      exact (proj1 (proj1 (offset_close_inv0 shv_close _ _ shv_close_inv _ B2))).
    - (* ToReader *)
      destruct (caps_good _ Hg) as [Hcaps Hlast].
      destruct (shrv_init_inv b w Hf Hw) as [I0 M0].
      destruct (rconsume _ fuel caps (last_cap caps) [] _) as [[out e] st] eqn:Hrc.
      cbn beta iota zeta.
      destruct (rconsume_fuel _ _ _ shrv_read_prog fuel _ _ _ _ _ _ _ Hcaps Hlast I0 M0 Hrc) as (A & B & C).
      destruct (rextra _ extra (last_cap caps) st) as [ex st2] eqn:He.
      cbn beta iota zeta. cbn [y_err y_logs].
      pose proof (rextra_inv _ _ _ shrv_read_prog _ _ _ _ _ B He) as B2.
      split; [exact A|]. apply Wok_logs. vsimp.
      destruct B2 as (B2 & _). exact (proj2 (proj2 (proj1 (shr_close_fuel fuel _ B2)))).
    - (* CloneCopy *)
      destruct (try_stack _ _ _ _ _ _ _ _) as [[[d e] cbs] w'] eqn:Ht.
      assert (AB : e <> EFuel /\ Wok w')
        by (refine (try_stack_fuel _ _ _ _ _ _ _ _ _ _ Hf _ Hw Ht); [reflexivity|unfold answers_left, ansleft; lia]).
      destruct AB as [A B].
      destruct e; cbn [y_err y_logs]; (split; [congruence|apply Wok_logs; exact B]).
    - (* Discard *)
      cbn [y_err y_logs]. split; [congruence|exact Hdisc].
  Qed.

  (** * The whole case *)
  Definition hs0 (anss : list (list answer)) : list hst := map (fun a => mkHst a []) anss.
  Definition totcost (b0 : bufscript) (anss : list (list answer)) : nat := bcost b0 + actcost (hs0 anss).

  Lemma hs0_clean anss : Forall clean (hs0 anss).
  Proof. unfold hs0, clean. rewrite Forall_map. apply Forall_forall. intros a _. cbn. auto. Qed.

  Theorem run_stack_fuel b0 anss m : 4 * totcost b0 anss <= fuel -> good_param m = true ->
    y_err (run_stack H cfg fuel b0 anss m) <> EFuel /\ clean_logs (y_logs (run_stack H cfg fuel b0 anss m)).
  Proof.
    intros Hf Hg. unfold run_stack, totcost in *. fold (hs0 anss).
    destruct (stack_handlers b0 (mkW [] [] []) (hs0 anss)) as [b w] eqn:Hs.
    destruct (stack_handlers_fuel _ _ _ _ _ Hs ltac:(constructor) (hs0_clean anss)) as [Hw Hc].
    cbn [w_act actcost fold_right] in Hc.
    destruct (w_act w) as [|a act] eqn:Ea.
    - cbn [y_err y_logs]. split; [apply plain_fuel; [lia|exact Hg]|apply Wok_logs; exact Hw].
    - apply ehs_method_fuel; [exact Hg|rewrite Ea; lia|exact Hw].
  Qed.
End Methods.

(** * [stack_fuel] is four times the cost of the case *)
Lemma buf_fuel_bcost b : buf_fuel b = 4 * bcost b.
Proof. destruct b; cbn [buf_fuel bcost]; rewrite ?script_fuel_measure; lia. Qed.
Lemma ans_fuel_anscost ans : ans_fuel ans = 4 * anscost ans.
Proof.
  induction ans as [|a r IH]; [reflexivity|]. rewrite anscost_cons. unfold ans_fuel in *. cbn [fold_right].
  rewrite IH. destruct a; cbn [acost]; rewrite ?buf_fuel_bcost; lia.
Qed.
Lemma stack_fuel_totcost b0 anss : stack_fuel b0 anss = 4 * totcost b0 anss.
Proof.
  unfold stack_fuel, totcost. rewrite buf_fuel_bcost.
  assert (E : fold_right (fun ans n => ans_fuel ans + n) 0 anss = 4 * actcost (hs0 anss)).
  { induction anss as [|a r IH]; [reflexivity|]. cbn [fold_right hs0 map]. fold (hs0 r).
    rewrite actcost_cons, IH, ans_fuel_anscost. cbn [h_answers]. lia. }
  rewrite E. lia.
Qed.

(** [stack_fuel] suffices (and so does any larger fuel). *)
Theorem stack_fuel_suffices H cfg fuel b0 anss m :
  stack_fuel b0 anss <= fuel -> good_param m = true ->
  y_err (run_stack H cfg fuel b0 anss m) <> EFuel /\
  Forall (fun l => ~ In (HOnError EFuel) l) (y_logs (run_stack H cfg fuel b0 anss m)).
Proof. intros Hf Hg. apply run_stack_fuel; [rewrite <- stack_fuel_totcost; exact Hf|exact Hg]. Qed.

(** The single handler ([run_case], the model [run16_single] runs) on
    [case_fuel]: a stack of one. *)
Lemma case_fuel_stack_fuel b0 ans : case_fuel b0 ans = stack_fuel b0 [ans].
Proof. unfold case_fuel, stack_fuel. cbn [fold_right]. lia. Qed.
