(** C09 — the "otherwise" half at constructor level, for IntoWriter (the
    method through which partial data reaches the consumer): invalid content
    => error, fewer than [size] bytes written, callbacks sound, the Source's
    code when the source itself ends cleanly. *)
From Coq Require Import List ZArith NArith Bool Lia.
From BBS Require Import Buffer.Source Buffer.Validate Buffer.Convert Buffer.StreamProofs
  Buffer.ValidateProofs Buffer.ValidateReaderProofs Buffer.ConvertProofs Buffer.ReaderBufferProofs.
Import ListNotations.
Open Scope N_scope.

Lemma drains_pulls S (rd : S -> bytes * err * S) s bs e s' :
  drains rd s bs e s' -> exists s1, pulls rd s bs s1.
Proof.
  induction 1 as [s c e s' Hr Hne|s c s' bs e s'' Hr _ IH].
  - exists s. constructor.
  - destruct IH as (s1 & Hp). exists s1. econstructor; eassumption.
Qed.

Section Otherwise.
  Variable H : bytes -> bytes.
  Variable cfg : vcfg.
  Variable fuel : nat.

  Theorem chunk_into_writer_otherwise evs o :
    cas_chunk_reader H cfg fuel evs MIntoWriter = o -> o_err o <> EFuel ->
    ((In true (o_cbs o) -> valid_script H cfg evs) /\ (In false (o_cbs o) -> ~ valid_script H cfg evs)) /\
    (~ valid_script H cfg evs ->
       o_err o <> ENone /\ (lenN (o_data o) < g_size cfg \/ o_data o = []) /\
       (snd (content evs) = EEof -> o_err o = ECode (g_code cfg)) /\
       (forall c, snd (content evs) = ECode c -> o_err o = ECode c \/ o_err o = ECode (g_code cfg))).
  Proof.
    cbn [cas_chunk_reader]. unfold into_writer_cr. destruct (drain _ fuel [] _) as [[out e] st] eqn:Hd.
    intros <- Hnf. cbn [o_err o_data o_cbs cv_out] in *.
    assert (Hnf' : e <> EFuel) by (destruct e; try congruence; cbn in Hnf; congruence).
    destruct (drain_drains _ _ _ _ _ _ _ _ Hd Hnf') as (bs & -> & Hds). cbn [app].
    pose proof (vcr_callback_sound_end _ _ _ _ _ _ _ _ _ Hds) as [Hct Hcf].
    assert (Hcbs : v_cbs (cv_close st) = v_cbs st) by reflexivity. rewrite Hcbs.
    split.
    - split; intros Hin; [apply (valid_stream_script H cfg evs 0), Hct, Hin|].
      intros Hv. apply (Hcf Hin). apply (valid_stream_script H cfg evs 0). exact Hv.
    - intros Hnv.
      assert (Hnvs : ~ valid_stream H cfg csrc_read (mkCsrc evs 0))
        by (intros Hv; apply Hnv, (valid_stream_script H cfg evs 0), Hv).
      destruct (drains_pulls _ _ _ _ _ _ Hds) as (s1 & Hp).
      pose proof (vcr_withhold _ _ _ _ _ _ _ _ Hp Hnvs) as Hw.
      destruct (csrc_drains evs 0) as (send & Hsrc).
      assert (Hne : e <> EEof).
      { intros ->. apply Hnv. exact (proj1 (cv_complete _ _ _ _ _ _ Hds)). }
      rsplit; auto.
      + destruct e; try congruence. exfalso. exact (drains_not_none _ _ _ _ _ _ Hds eq_refl).
      + intros Heof. rewrite Heof in Hsrc.
        destruct (vcr_mismatch_code _ _ _ _ _ _ _ _ _ _ _ Hsrc Hnvs Hds) as [->| ->]; [reflexivity|congruence].
      + intros c Hc. rewrite Hc in Hsrc.
        destruct (vcr_error_origin _ _ _ _ _ _ _ _ _ Hds Hne) as [->|[[-> _]|(bs2 & u' & Hd2)]]; try congruence; auto.
        destruct (drains_det _ _ _ _ _ _ _ _ _ Hsrc Hd2) as (_ & <- & _). left. reflexivity.
  Qed.

  Theorem reader_into_writer_otherwise evs attach o :
    cas_reader H cfg fuel evs attach MIntoWriter = o -> o_err o <> EFuel ->
    ((In true (o_cbs o) -> valid_script H cfg evs) /\ (In false (o_cbs o) -> ~ valid_script H cfg evs)) /\
    (~ valid_script H cfg evs ->
       o_err o <> ENone /\ (lenN (o_data o) < g_size cfg \/ o_data o = [])).
  Proof.
    cbn [cas_reader]. unfold copy. destruct (copy_loop _ fuel _ [] _) as [[out e'] st] eqn:Hcp.
    intros <- Hnf. cbn [o_err o_data o_cbs rv_out] in *.
    destruct (copy_rdrains _ _ _ _ _ _ _ _ _ Hcp Hnf) as (bs & e & -> & Hd & He). cbn [app].
    unfold rv_read in Hd.
    pose proof (vr_callback_sound H cfg _ _ fuel rcont rsrc_spec rsrc_no_unexp _ _ e _ (or_intror Hd)) as Hcb.
    assert (Hcbs : v_cbs (rv_close st) = v_cbs st) by reflexivity. rewrite Hcbs.
    split; [exact Hcb|]. intros Hnv.
    pose proof (vr_withhold H cfg _ _ fuel rcont rsrc_spec rsrc_no_unexp _ _ e _ (or_intror Hd) Hnv) as Hw.
    split; [|exact Hw].
    destruct e; subst e'; try congruence.
    - exfalso. exact (rdrains_not_none _ _ _ _ _ _ Hd eq_refl).
    - exfalso. apply Hnv.
      destruct (vr_complete_implies_valid H cfg _ _ fuel rcont rsrc_spec rsrc_no_unexp _ _ _ Hd) as (Hc & Hl & Hh).
      unfold rcont in Hc. cbn in Hc. unfold valid_script. rewrite Hc. auto.
  Qed.
End Otherwise.
