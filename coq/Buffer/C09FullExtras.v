(** C09 (completion) — after the end of the stream nothing more is handed out:
    for both stream constructors, ToChunkReader and ToReader, every script
    (valid or not), once the stream has ended with an error or io.EOF (and the
    model did not run out of fuel) every further read yields no data; for the
    chunk-reader interfaces it repeats the same error.  Also the "otherwise"
    half of NewCASBufferFromByteSlice (eager validation). *)
From Coq Require Import List ZArith NArith Bool Lia.
From BBS Require Import Common.Sx Buffer.Source Buffer.Validate Buffer.Convert Buffer.StreamProofs
  Buffer.ValidateProofs Buffer.ValidateReaderProofs Buffer.ConvertProofs Buffer.ReaderBufferProofs
  Buffer.ConvertProofs2.
Import ListNotations.
Open Scope N_scope.

(** * Sticky chunk readers *)
Section Sticky.
  Variable S : Type.
  Variable rd : S -> (bytes * err) * S.

  (** a failed read (other than out-of-fuel) leaves a state in which every read fails the same way *)
  Definition sticky : Prop :=
    forall s c e s', rd s = ((c, e), s') -> e <> ENone -> e <> EFuel -> rd s' = (([], e), s').

  Lemma drain_last fuel : forall out s out' e s',
    drain rd fuel out s = ((out', e), s') -> e <> EFuel ->
    exists s1 c, rd s1 = ((c, e), s') /\ e <> ENone.
  Proof.
    induction fuel as [|f IH]; intros out s out' e s' Hd Hnf; cbn [drain] in Hd; [inv Hd; congruence|].
    destruct (rd s) as [[c e0] s1] eqn:Hr.
    destruct e0; try (inv Hd; exists s, c; split; [exact Hr|congruence]).
    eapply IH; eassumption.
  Qed.

  Lemma extra_reads_fixed e : forall k s,
    rd s = (([], e), s) -> extra_reads rd k s = (repeat ([], e) k, s).
  Proof.
    induction k as [|k IH]; intros s Hf; cbn [extra_reads repeat]; [reflexivity|].
    rewrite Hf, (IH s Hf). reflexivity.
  Qed.

  Lemma drain_then_extra fuel out s out' e s' k :
    sticky -> drain rd fuel out s = ((out', e), s') -> e <> EFuel ->
    extra_reads rd k s' = (repeat ([], e) k, s').
  Proof.
    intros Hst Hd Hnf. destruct (drain_last _ _ _ _ _ _ Hd Hnf) as (s1 & c & Hr & Hne).
    apply extra_reads_fixed. exact (Hst _ _ _ _ Hr Hne Hnf).
  Qed.

  Lemma offset_read_sticky : sticky -> forall o c e o',
    offset_read rd o = ((c, e), o') -> e <> ENone -> e <> EFuel -> offset_read rd o' = (([], e), o').
  Proof.
    intros Hst o c e o' Hr Hne Hnf. unfold offset_read in Hr.
    destruct (o_fixed o) eqn:Ef.
    - destruct (is_nil (o_prefix o)); [|inv Hr; congruence].
      destruct (rd (o_u o)) as [[c0 e0] u'] eqn:Hrd. inv Hr.
      unfold offset_read. cbn [o_fixed o_prefix is_nil o_u]. rewrite (Hst _ _ _ _ Hrd Hne Hnf). reflexivity.
    - inv Hr. unfold offset_read. rewrite Ef. reflexivity.
    - inv Hr. unfold offset_read. rewrite Ef. reflexivity.
    - inv Hr. unfold offset_read. rewrite Ef. reflexivity.
    - inv Hr. unfold offset_read. rewrite Ef. reflexivity.
  Qed.

  Lemma norm_read_sticky max : sticky -> forall g n c e n', g <> 0%nat ->
    norm_read rd g max n = ((c, e), n') -> e <> ENone -> e <> EFuel ->
    norm_read rd g max n' = (([], e), n').
  Proof.
    intros Hst g n c e n' Hg Hr Hne Hnf. destruct g as [|f]; [congruence|].
    assert (Hgen : forall g n, norm_read rd g max n = ((c, e), n') ->
              n_last n' = [] /\ rd (n_u n') = (([], e), n_u n')).
    { induction g as [|g IH]; intros n0 Hr0; cbn [norm_read] in Hr0.
      - destruct (negb (is_nil (n_last n0))); [destruct (max <? lenN (n_last n0)); inv Hr0; congruence|inv Hr0; congruence].
      - destruct (negb (is_nil (n_last n0))); [destruct (max <? lenN (n_last n0)); inv Hr0; congruence|].
        destruct (rd (n_u n0)) as [[c0 e0] u'] eqn:Hrd.
        destruct e0; try (inv Hr0; cbn [n_last n_u]; split; [reflexivity|]; apply (Hst _ _ _ _ Hrd); congruence).
        exact (IH _ Hr0). }
    destruct (Hgen _ _ Hr) as (Hl & Hf). cbn [norm_read]. rewrite Hl. cbn [is_nil negb]. rewrite Hf.
    destruct e; try congruence; destruct n' as [u l]; cbn in *; subst l; reflexivity.
  Qed.
End Sticky.

Lemma datas_of_repeat_nil e k : datas_of (repeat (([] : bytes), e) k) = [].
Proof. induction k as [|k IH]; cbn; [reflexivity|exact IH]. Qed.
Lemma errs_of_repeat d e k : errs_of (repeat ((d : bytes), e) k) = repeat e k.
Proof. induction k as [|k IH]; cbn; [reflexivity|]. unfold errs_of in IH. now rewrite IH. Qed.

Section ExtrasTheorems.
  Variable H : bytes -> bytes.
  Variable cfg : vcfg.
  Variable fuel : nat.
  Notation rdv := (cv_read H cfg fuel).
  Notation vrd := (rv_read H cfg fuel).

  Lemma cv_sticky : sticky cvs rdv.
  Proof. intros s c e s' Hr Hne _. unfold cv_read in *. exact (proj2 (vcr_sticky _ _ _ _ _ _ _ _ _ Hr Hne)). Qed.

  (** ** chunk-reader buffer, ToChunkReader: further reads repeat the error, no data *)
  Theorem chunk_to_chunk_reader_extras evs off max k :
    let o := cas_chunk_reader H cfg fuel evs (MToChunkReader off max k) in
    o_err o <> EFuel -> o_extra o = repeat (o_err o) k /\ o_aux o = [].
  Proof.
    cbn [cas_chunk_reader]. destruct (valid_offset (g_size cfg) off); [|cbn; auto].
    set (o0 := offset_init rdv cv_close fuel off (cv_init cfg evs)).
    destruct (drain (norm_read (offset_read rdv) fuel max) fuel [] (mkNst o0 [])) as [[out e] n] eqn:Hd.
    intros Hnf.
    assert (Hex : extra_reads (norm_read (offset_read rdv) fuel max) k n = (repeat ([], e) k, n)).
    { assert (Hnf' : e <> EFuel).
      { destruct (extra_reads _ k n) as [ex n2]. exact Hnf. }
      assert (Hf0 : fuel <> 0%nat).
      { intros E0. revert Hd. generalize (norm_read (offset_read rdv) fuel max). rewrite E0.
        intros r Hd. cbn [drain] in Hd. inv Hd. congruence. }
      eapply drain_then_extra; [|exact Hd|exact Hnf'].
      intros s c e1 s' Hr Hne Hnf1. eapply norm_read_sticky; try eassumption.
      intros o c2 e2 o' Hr2 Hne2 Hnf2. eapply offset_read_sticky; try eassumption.
      exact cv_sticky. }
    rewrite Hex. cbn [o_extra o_aux o_err cv_out]. rewrite datas_of_repeat_nil, errs_of_repeat. auto.
  Qed.

  (** ** reader buffer, ToChunkReader *)
  Lemma rb_read_sticky max : sticky (rbst rvs) (rb_read vrd fuel max).
  Proof.
    intros s c e s' Hr Hne Hnf. unfold rb_read in Hr. destruct (rb_err s) eqn:Ee.
    - destruct (read_full vrd fuel max (rb_u s)) as [[data e0] u'].
      destruct (negb (is_nil data)); inv Hr; [congruence|].
      unfold rb_read. cbn [rb_err]. destruct e0; try congruence; reflexivity.
    - inv Hr. unfold rb_read. rewrite Ee. reflexivity.
    - inv Hr. unfold rb_read. rewrite Ee. reflexivity.
    - inv Hr. unfold rb_read. rewrite Ee. reflexivity.
    - inv Hr. unfold rb_read. rewrite Ee. reflexivity.
  Qed.

  Theorem reader_to_chunk_reader_extras evs attach off max k :
    let o := cas_reader H cfg fuel evs attach (MToChunkReader off max k) in
    o_err o <> EFuel -> o_extra o = repeat (o_err o) k /\ o_aux o = [].
  Proof.
    cbn [cas_reader]. destruct (valid_offset (g_size cfg) off); [|cbn; auto].
    destruct (discard_from_reader vrd fuel off (rv_init cfg evs attach)) as [e0 st].
    destruct e0; try (cbn; auto).
    destruct (drain (rb_read vrd fuel max) fuel [] (mkRbst st ENone)) as [[out e] s] eqn:Hd.
    intros Hnf.
    assert (Hex : extra_reads (rb_read vrd fuel max) k s = (repeat ([], e) k, s)).
    { assert (Hnf' : e <> EFuel).
      { destruct (extra_reads _ k s) as [ex s2]. exact Hnf. }
      eapply drain_then_extra; [exact (rb_read_sticky max)|exact Hd|exact Hnf']. }
    rewrite Hex. cbn [o_extra o_aux o_err rv_out]. rewrite datas_of_repeat_nil, errs_of_repeat. auto.
  Qed.

  (** ** ToReader: further reads yield no data *)
  Lemma rconsume_last (S : Type) (rd : N -> S -> (bytes * err) * S) f : forall caps lc out s out' e s',
    rconsume rd f caps lc out s = ((out', e), s') -> e <> EFuel ->
    exists cap s1 c, rd cap s1 = ((c, e), s') /\ e <> ENone.
  Proof.
    induction f as [|f IH]; intros caps lc out s out' e s' Hr Hnf; cbn [rconsume] in Hr; [inv Hr; congruence|].
    destruct (rd (hd lc caps) s) as [[c e0] s1] eqn:Hrd.
    destruct e0; try (inv Hr; exists (hd lc caps), s, c; split; [exact Hrd|congruence]).
    eapply IH; eassumption.
  Qed.

  Lemma rextra_nodata (S : Type) (rd : N -> S -> (bytes * err) * S) cap : forall k s,
    (exists e, rd cap s = (([], e), s)) -> datas_of (fst (rextra rd k cap s)) = [] /\ snd (rextra rd k cap s) = s.
  Proof.
    induction k as [|k IH]; intros s Hf; cbn [rextra]; [auto|].
    destruct Hf as (e & Hf). rewrite Hf. destruct (IH s (ex_intro _ e Hf)) as (A & B).
    destruct (rextra rd k cap s) as [l s2]. cbn [fst snd] in *. subst s2. split; [|reflexivity].
    unfold datas_of in *. cbn [map concat fst app]. exact A.
  Qed.

  Theorem reader_to_reader_extras evs attach caps k :
    let o := cas_reader H cfg fuel evs attach (MToReader caps k) in
    o_err o <> EFuel -> o_aux o = [].
  Proof.
    cbn [cas_reader].
    destruct (rconsume vrd fuel caps (last_cap caps) [] (rv_init cfg evs attach)) as [[out e] st] eqn:Hrc.
    intros Hnf.
    assert (Hnf' : e <> EFuel) by (destruct (rextra vrd k (last_cap caps) st) as [ex st2]; exact Hnf).
    destruct (rconsume_last _ _ _ _ _ _ _ _ _ _ Hrc Hnf') as (cap & s1 & c & Hr & Hne).
    unfold rv_read in Hr. pose proof (vr_sticky _ _ _ _ _ _ _ _ _ _ Hr Hne (last_cap caps)) as Hfix.
    destruct (rextra_nodata _ vrd (last_cap caps) k st (ex_intro _ e Hfix)) as (A & _).
    destruct (rextra vrd k (last_cap caps) st) as [ex st2]. exact A.
  Qed.

  Lemma cb_read_after_error cap st e :
    rdv (cb_u st) = (([], e), cb_u st) -> e <> ENone -> cb_last st = [] ->
    exists e', cb_read rdv fuel cap st = (([], e'), st).
  Proof.
    intros Hf Hne Hl. unfold cb_read. rewrite Hl. cbn [takeN dropN]. change (lenN []) with 0. rewrite N.sub_0_r.
    destruct st as [u l]. cbn [cb_u cb_last] in *. subst l.
    destruct fuel as [|f]; cbn [cb_loop]; destruct (cap =? 0); try (eexists; reflexivity).
    cbn [cb_u]. rewrite Hf. destruct e; try congruence; eexists; reflexivity.
  Qed.

  Lemma cb_loop_error_last (rd := rdv) : forall f left got st c e st',
    (0 < left -> cb_last st = []) -> cb_loop rd f left got st = ((c, e), st') -> e <> ENone -> e <> EFuel ->
    cb_last st' = [] /\ exists s1 c1, rd s1 = ((c1, e), cb_u st').
  Proof.
    induction f as [|f IH]; intros left got st c e st' Hl Hr Hne Hnf; cbn [cb_loop] in Hr;
      destruct (left =? 0) eqn:E0; try (inv Hr; congruence).
    apply N.eqb_neq in E0.
    destruct (rd (cb_u st)) as [[c0 e0] u'] eqn:Hrd.
    destruct e0; try (inv Hr; cbn [cb_last cb_u]; split; [apply Hl; lia|eauto]).
    eapply IH; [|exact Hr|exact Hne|exact Hnf]. cbn [cb_last]. intros Hpos.
    apply dropN_all. rewrite lenN_takeN in Hpos. lia.
  Qed.

  Theorem chunk_to_reader_extras evs caps k :
    let o := cas_chunk_reader H cfg fuel evs (MToReader caps k) in
    o_err o <> EFuel -> o_aux o = [].
  Proof.
    cbn [cas_chunk_reader].
    destruct (rconsume (cb_read rdv fuel) fuel caps (last_cap caps) [] (mkCbst (cv_init cfg evs) [])) as [[out e] s] eqn:Hrc.
    intros Hnf.
    assert (Hnf' : e <> EFuel) by (destruct (rextra (cb_read rdv fuel) k (last_cap caps) s) as [ex s2]; exact Hnf).
    destruct (rconsume_last _ _ _ _ _ _ _ _ _ _ Hrc Hnf') as (cap & s1 & c & Hr & Hne).
    unfold cb_read in Hr.
    assert (Hpre : 0 < cap - lenN (takeN cap (cb_last s1)) ->
                   cb_last (mkCbst (cb_u s1) (dropN cap (cb_last s1))) = []).
    { intros Hpos. cbn [cb_last]. apply dropN_all. rewrite lenN_takeN in Hpos. lia. }
    destruct (cb_loop_error_last _ _ _ _ _ _ _ Hpre Hr Hne Hnf') as (Hl & s2 & c2 & Hrd).
    pose proof (cv_sticky _ _ _ _ Hrd Hne Hnf') as Hfix.
    destruct (rextra_nodata _ (cb_read rdv fuel) (last_cap caps) k s (cb_read_after_error _ _ _ Hfix Hne Hl)) as (A & _).
    destruct (rextra (cb_read rdv fuel) k (last_cap caps) s) as [ex s3]. exact A.
  Qed.

  (** ** NewCASBufferFromByteSlice: the "otherwise" half (eager validation) *)
  Theorem byte_slice_otherwise data m :
    m <> MDiscard -> ~ (lenN data = g_size cfg /\ g_hash cfg = H data) ->
    let o := cas_byte_slice H cfg fuel data m in
    o_err o = ECode (g_code cfg) /\ o_data o = [] /\ o_aux o = [] /\ o_cbs o = [false].
  Proof.
    intros Hm Hnv. unfold cas_byte_slice.
    destruct (g_size cfg =? lenN data) eqn:Es; cbn [negb]; [|destruct m; try congruence; cbn; auto].
    destruct (bytes_eqb (g_hash cfg) (H data)) eqn:Eh; cbn [negb]; [|destruct m; try congruence; cbn; auto].
    exfalso. apply Hnv. apply N.eqb_eq in Es. apply bytes_eqb_eq in Eh. auto.
  Qed.
End ExtrasTheorems.
