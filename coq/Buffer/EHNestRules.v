(** C16N — the accounting rules of NESTED error handling on the model, every
    tree, every script, every method, any fuel:

    - Done() is reported exactly once to every handler that exists (the
      handler of the buffer handed to the consumer and the handler of every
      wrapped replacement any handler has returned, at any depth);
    - the offering rule ([chk] of Run/R16N.v, the monitor's clause 4): every
      error a handler is offered is the error with which the buffer it holds
      at that moment has failed - the I/O error of a plain buffer goes to the
      innermost enclosing handler, the error a handler returns is what the
      enclosing handler is offered - and the observation has the shape of the
      scripts.

    Method: a reader state is LIVE (every buffer that has been given up is
    accounted for, the current one may still deliver) or it has FAILED with an
    error [e] (closing it now yields a record that passes the check and
    justifies [e] towards the enclosing handler).  The validating readers on
    top never read a reader again that has returned an error (sticky error),
    so a failed state is only ever closed. *)
From Coq Require Import List ZArith NArith Bool Lia.
From BBS Require Import Common.Sx Buffer.Source Buffer.Validate Buffer.Convert Buffer.ErrHandler
  Buffer.StreamProofs Buffer.ValidateProofs Buffer.ValidateReaderProofs Buffer.ConvertProofs
  Buffer.ReaderBufferProofs Buffer.ConvertProofs2 Buffer.ErrHandlerProofs Buffer.PreserveProofs
  Buffer.ClosedOnceProofs Buffer.EHFullCarry Buffer.EHFullReader Buffer.EHFullExact
  Buffer.EHNest Run.R09 Run.R16 Run.R16N.
Import ListNotations.
Open Scope N_scope.

(** the observed tree with error codes, as the monitor sees it *)
Fixpoint codes_of (o : otree) : ctree :=
  match o with
  | OLeaf n => TLeaf (Z.of_nat n)
  | ONode offs d kids => TNode (map code_of offs) (Z.of_nat d) (map codes_of kids)
  end.
Fixpoint od1 (o : otree) : bool :=
  match o with
  | OLeaf _ => true
  | ONode _ d kids => Nat.eqb d 1 && forallb od1 kids
  end.
(** the model's out-of-fuel marker is accepted from anybody *)
Definition exf (e : Z) : bool := (e =? -3)%Z.

Lemma forallb_app_true {A} (f : A -> bool) l1 l2 :
  forallb f l1 = true -> forallb f l2 = true -> forallb f (l1 ++ l2) = true.
Proof. intros A1 A2. rewrite forallb_app, A1, A2. reflexivity. Qed.

Section Rules.
  Variable s : bool.      (* streaming method? *)

  Definition G (t : nbuf) (o : otree) : Prop := chk exf s t (codes_of o) = true /\ od1 o = true.
  Definition F (t : nbuf) (o : otree) (e : err) : Prop := fin exf s t (codes_of o) (code_of e) = true.

  (** a handler's progress while its current buffer is alive: every earlier
      buffer [K] has been given up with a record that passes the check and
      justifies the error that was offered for it; every answer consumed was
      a replacement *)
  Inductive Seg : nanss -> nbuf -> list err -> list otree -> nanss -> nbuf -> Prop :=
  | Seg_nil ans t0 : Seg ans t0 [] [] ans t0
  | Seg_rep t' r t0 e offs o0 K rem tc :
      G t0 o0 -> F t0 o0 e -> Seg r t' offs K rem tc ->
      Seg (ARep t' r) t0 (e :: offs) (o0 :: K) rem tc.

  Lemma Seg_snoc ans t0 offs K t' r tc oc e :
    Seg ans t0 offs K (ARep t' r) tc -> G tc oc -> F tc oc e ->
    Seg ans t0 (offs ++ [e]) (K ++ [oc]) r t'.
  Proof.
    intros Hs. remember (ARep t' r) as rem eqn:Er. revert Er.
    induction Hs as [ans t0|t2 r2 t0 e2 offs o0 K rem tc Hg Hf Hs IH]; intros -> Hgc Hfc; cbn [app].
    - apply Seg_rep; [assumption|assumption|constructor].
    - apply Seg_rep; [assumption|assumption|]. apply IH; auto.
  Qed.

  (** the check of one handler node on its record *)
  Definition Gn (inner : nbuf) (ans : nanss) (offs : list err) (kids : list otree) : Prop :=
    match kids with
    | o0 :: rest =>
        chk exf s inner (codes_of o0) &&
        walk exf s ans (fin exf s inner (codes_of o0)) (map code_of offs) (map codes_of rest) = true
    | [] => False
    end /\ forallb od1 kids = true.

  Lemma Gn_G inner ans offs kids : Gn inner ans offs kids -> G (NW inner ans) (ONode offs 1 kids).
  Proof.
    intros (Hk & Hd). destruct kids as [|o0 rest]; [contradiction|].
    split; [exact Hk|]. cbn [od1]. rewrite Hd. reflexivity.
  Qed.

  Lemma Seg_close ans t0 offs K rem tc oc :
    Seg ans t0 offs K rem tc -> G tc oc -> Gn t0 ans offs (K ++ [oc]).
  Proof.
    induction 1 as [ans t0|t' r t0 e offs o0 K rem tc Hg Hf Hs IH]; intros (Hc & Hd).
    - unfold Gn. cbn [app map forallb]. rewrite Hc, Hd. split; [destruct ans; reflexivity|reflexivity].
    - destruct (IH (conj Hc Hd)) as (Hk & Hdd). destruct Hg as (Hg1 & Hg2). unfold F in Hf.
      split.
      + cbn [app map walk]. rewrite Hg1, Hf. cbn [andb].
        destruct (K ++ [oc]) as [|o1 rest] eqn:Ek; [contradiction|]. cbn [map]. exact Hk.
      + cbn [app forallb]. rewrite Hg2, Hdd. reflexivity.
  Qed.

  Lemma Seg_fail ans t0 offs K rem tc oc e :
    Seg ans t0 offs K rem tc -> match rem with ARep _ _ => False | _ => True end ->
    G tc oc -> F tc oc e -> Gn t0 ans (offs ++ [e]) (K ++ [oc]).
  Proof.
    induction 1 as [ans t0|t' r t0 e2 offs o0 K rem tc Hg Hf Hs IH]; intros Hrem (Hc & Hd) Hfe.
    - unfold F in Hfe. unfold Gn. cbn [app map forallb]. rewrite Hc, Hd.
      destruct ans; try contradiction; cbn [walk forallb]; rewrite Hfe; split; try reflexivity.
      destruct ans; reflexivity.
    - destruct (IH Hrem (conj Hc Hd) Hfe) as (Hk & Hdd). destruct Hg as (Hg1 & Hg2). unfold F in Hf.
      split.
      + cbn [app map walk]. rewrite Hg1, Hf. cbn [andb].
        destruct (K ++ [oc]) as [|o1 rest] eqn:Ek; [contradiction|]. cbn [map]. exact Hk.
      + cbn [app forallb]. rewrite Hg2, Hdd. reflexivity.
  Qed.

  Lemma Seg_returned ans t0 offs K rem tc :
    Seg ans t0 offs K rem tc ->
    returnedN ans (S (length offs)) =
    match rem with ANil => Some 10%Z | AFail c _ => Some c | ARep _ _ => None end.
  Proof.
    induction 1 as [ans t0|t' r t0 e offs o0 K rem tc Hg Hf Hs IH].
    - destruct ans; reflexivity.
    - cbn [length]. exact IH.
  Qed.

  (** the error a handler returns is justified by its record *)
  Lemma node_F inner ans offs K rem tc e kids c :
    Seg ans inner offs K rem tc ->
    match rem with ANil => c = 10%Z | AFail c' _ => c = c' | ARep _ _ => False end ->
    F (NW inner ans) (ONode (offs ++ [e]) 1 kids) (ECode c).
  Proof.
    intros Hs Hrem. unfold F, fin. cbn [codes_of code_of]. rewrite map_length, app_length. cbn [length].
    rewrite Nat.add_1_r, (Seg_returned _ _ _ _ _ _ Hs).
    destruct rem; try contradiction; subst; rewrite Z.eqb_refl; apply orb_true_r.
  Qed.

  (** Discard(): Done to every handler on the way down *)
  Lemma discard_G H cfg fuel : forall t, G t (discard_tree H cfg fuel t).
  Proof.
    induction t as [b|inner IH ans]; cbn [discard_tree].
    - split; reflexivity.
    - unfold hn_obs, hn_finish, hn_new. cbn. apply Gn_G. apply (Seg_close ans inner [] [] ans inner).
      + constructor.
      + exact IH.
  Qed.
End Rules.

(** * Whole-operation retries (ToByteSlice, ReadAt): structural *)
Section WholeRules.
  Variable H : bytes -> bytes.
  Variable cfg : vcfg.
  Variable fuel : nat.
  Variable m : meth.

  Definition wgood (t : nbuf) (r : wres) : Prop :=
    G false t (snd r) /\
    (match snd (fst (fst r)) with ENone | EEof => True | e => F false t (snd r) e end).

  Lemma whole_rules :
    (forall t, wgood t (whole H cfg fuel m t)) /\
    (forall ans ans0 t0 tc r offers dead cbs,
       Seg false ans0 t0 offers dead ans tc -> wgood tc r ->
       wgood (NW t0 ans0) (try_ans H cfg fuel m ans r offers dead cbs)).
  Proof.
    apply nbuf_nanss_ind.
    - intros b. cbn [whole]. split; cbn [snd fst].
      + split; reflexivity.
      + destruct (o_err (plain H cfg fuel b m)); auto; unfold F, fin; cbn; first [apply orb_true_r|reflexivity].
    - intros inner IHi ans IHa. cbn [whole]. eapply IHa; [constructor|apply IHi].
    - intros ans0 t0 tc r offers dead cbs Hs (Hg & Hf). destruct r as [[[d e] cb] o]. cbn [fst snd] in *.
      cbn [try_ans].
      assert (Hok : G false (NW t0 ans0) (ONode offers 1 (dead ++ [o]))).
      { apply Gn_G. eapply Seg_close; eauto. }
      assert (Hfail : e <> ENone -> e <> EEof ->
                wgood (NW t0 ans0) ([], ECode 10, cbs ++ cb, ONode (offers ++ [e]) 1 (dead ++ [o]))).
      { intros A B. split; cbn [fst snd].
        - apply Gn_G. eapply Seg_fail; eauto. exact Logic.I. destruct e; auto; congruence.
        - eapply node_F; [exact Hs|reflexivity]. }
      destruct e; first [apply Hfail; congruence|idtac].
      all: split; [exact Hok|exact Logic.I].
    - intros t' IHt rest IHr ans0 t0 tc r offers dead cbs Hs (Hg & Hf). destruct r as [[[d e] cb] o].
      cbn [fst snd] in *. cbn [try_ans].
      assert (Hok : G false (NW t0 ans0) (ONode offers 1 (dead ++ [o]))).
      { apply Gn_G. eapply Seg_close; eauto. }
      assert (Hrep : e <> ENone -> e <> EEof ->
                wgood (NW t0 ans0) (try_ans H cfg fuel m rest (whole H cfg fuel m t') (offers ++ [e]) (dead ++ [o]) (cbs ++ cb))).
      { intros A B. eapply IHr; [|apply IHt]. eapply Seg_snoc; eauto. destruct e; auto; congruence. }
      destruct e; first [apply Hrep; congruence|idtac].
      all: split; [exact Hok|exact Logic.I].
    - intros c rest IHr ans0 t0 tc r offers dead cbs Hs (Hg & Hf). destruct r as [[[d e] cb] o].
      cbn [fst snd] in *. cbn [try_ans].
      assert (Hok : G false (NW t0 ans0) (ONode offers 1 (dead ++ [o]))).
      { apply Gn_G. eapply Seg_close; eauto. }
      assert (Hfail : e <> ENone -> e <> EEof ->
                wgood (NW t0 ans0) ([], ECode c, cbs ++ cb, ONode (offers ++ [e]) 1 (dead ++ [o]))).
      { intros A B. split; cbn [fst snd].
        - apply Gn_G. eapply Seg_fail; eauto. exact Logic.I. destruct e; auto; congruence.
        - eapply node_F; [exact Hs|reflexivity]. }
      destruct e; first [apply Hfail; congruence|idtac].
      all: split; [exact Hok|exact Logic.I].
  Qed.
End WholeRules.

(** * Streams: the error a plain buffer ends with *)
Lemma content_term evs : snd (content evs) = EEof \/ exists c, snd (content evs) = ECode c.
Proof.
  induction evs as [|[bs|c|] r IH]; cbn [content].
  - left; reflexivity.
  - destruct (content r) as [c0 t0]. cbn [snd] in *. exact IH.
  - right. exists c. reflexivity.
  - left; reflexivity.
Qed.

Lemma piece_fin b k p e :
  piece_of b k = (p, e) -> e <> EEof -> leaf_fin b (code_of e) = true.
Proof.
  unfold piece_of, ucontent. intros Hp Hne. destruct b as [evs|evs a|d|x]; cbn [leaf_fin].
  - destruct (content evs) as [c t] eqn:Ec. pose proof (content_term evs) as Ht. rewrite Ec in Ht. cbn [snd] in *.
    assert (e = t) by (destruct (k <=? lenN c); inv Hp; reflexivity). subst t.
    destruct Ht as [->|(x & ->)]; [congruence|]. cbn. apply Z.eqb_refl.
  - destruct (content evs) as [c t] eqn:Ec. pose proof (content_term evs) as Ht. rewrite Ec in Ht. cbn [snd] in *.
    assert (e = t) by (destruct (k <=? lenN c); inv Hp; reflexivity). subst t.
    destruct Ht as [->|(x & ->)]; [congruence|]. cbn. apply Z.eqb_refl.
  - destruct (k <=? lenN d); inv Hp; [congruence|reflexivity].
  - destruct (k <=? lenN []); inv Hp; cbn; apply Z.eqb_refl.
Qed.

Lemma exf_fuel : exf (code_of EFuel) = true.
Proof. reflexivity. Qed.

Fixpoint twf (t : nbuf) : Prop :=
  match t with
  | NB b => wf_buf b
  | NW inner ans => twf inner /\ awf ans
  end
with awf (a : nanss) : Prop :=
  match a with
  | ANil => True
  | ARep b r => twf b /\ awf r
  | AFail _ r => awf r
  end.

Section RpullsSnoc.
  Variable S : Type.
  Variable rd : N -> S -> (bytes * err) * S.
  Lemma rpulls_snoc' s a s' cap c s'' :
    rpulls rd s a s' -> rd cap s' = ((c, ENone), s'') -> rpulls rd s (a ++ c) s''.
  Proof.
    induction 1 as [s|cap0 s c0 s1 bs s2 Hr _ IH]; intros Hc.
    - cbn. rewrite <- (app_nil_r c). eapply rpulls_step; [eassumption|constructor].
    - rewrite <- app_assoc. eapply rpulls_step; [eassumption|]. now apply IH.
  Qed.
End RpullsSnoc.

Notation Gs := (G true).
Notation Fs := (F true).

(** * The nested errorHandlingChunkReaders *)
Section ChunkRules.
  Variable ifuel : nat.
  Variable max : N.

  Fixpoint Live (r : ncr) (t : nbuf) : Prop :=
    match r, t with
    | CL u, NB b => wf_buf b /\ exists k p, pulls (ucr_read ifuel max) (ucr_open ifuel b k) p u
    | CE cur off h, NW inner ans =>
        hn_done h = 0%nat /\ awf (hn_ans h) /\
        exists tc, Seg true ans inner (hn_off h) (hn_dead h) (hn_ans h) tc /\ Live cur tc
    | _, _ => False
    end.
  Definition Fine (t : nbuf) (r : ncr) : Prop := Gs t (nobs (nclose r)).
  Definition Dead (t : nbuf) (r : ncr) (e : err) : Prop :=
    Fine t r /\ (e <> EEof -> Fs t (nobs (nclose r)) e).

  Lemma nopen_live : forall t k, twf t -> Live (nopen ifuel t k) t.
  Proof.
    induction t as [b|inner IH ans]; intros k Hw; cbn [nopen Live].
    - split; [exact Hw|]. exists k, []. constructor.
    - destruct Hw as (Hi & Ha). cbn. rsplit; auto. exists inner. split; [constructor|apply IH; exact Hi].
  Qed.

  Lemma live_fine : forall r t, Live r t -> Fine t r.
  Proof.
    induction r as [u|cur IH off h]; intros [b|inner ans] Hl; cbn [Live] in Hl; try contradiction.
    - split; reflexivity.
    - destruct Hl as (Hd & _ & tc & Hs & Hc). unfold Fine. cbn [nclose nobs]. unfold hn_obs, hn_finish. cbn.
      rewrite Hd. apply Gn_G. eapply Seg_close; [exact Hs|]. apply IH. exact Hc.
  Qed.

  Lemma fuel_dead t r : Live r t -> Dead t r EFuel.
  Proof. intros Hl. split; [apply live_fine; exact Hl|]. intros _. unfold F, fin. rewrite exf_fuel. reflexivity. Qed.

  Lemma nread_spec : forall fuel r t c e r',
    Live r t -> nread ifuel fuel max r = ((c, e), r') ->
    match e with ENone => Live r' t | _ => Dead t r' e end.
  Proof.
    induction fuel as [|f IH]; intros r t c e r' Hl Hr; cbn [nread] in Hr.
    - inv Hr. apply fuel_dead. exact Hl.
    - destruct r as [u|cur off h]; destruct t as [b|inner ans]; cbn [Live] in Hl; try contradiction.
      + destruct (ucr_read ifuel max u) as [x u'] eqn:Hu. destruct x as [c0 e0]. inv Hr.
        destruct Hl as (Hw & k & p & Hp).
        assert (Hdead : e <> ENone -> Dead (NB b) (CL u') e).
        { intros Hne. split; [split; reflexivity|]. intros Hneof. unfold F, fin. cbn [codes_of nobs nclose].
          destruct (err_eqb e EFuel) eqn:Ef.
          - destruct e; try discriminate. reflexivity.
          - assert (Hnf : e <> EFuel) by (intros ->; discriminate).
            assert (Hd : drains (ucr_read ifuel max) (ucr_open ifuel b k) (p ++ []) e u').
            { eapply pulls_drains; [exact Hp|]. eapply drains_end; eassumption. }
            rewrite (piece_fin _ _ _ _ (piece_exact _ _ _ _ _ _ _ Hd Hnf Hw) Hneof). apply orb_true_r. }
        destruct e; try (apply Hdead; congruence).
        split; [exact Hw|]. exists k, (p ++ c). eapply pulls_snoc; eassumption.
      + destruct Hl as (Hd & Hawf & tc & Hs & Hc).
        destruct (nread ifuel f max cur) as [[chunk e0] cur'] eqn:Hu.
        pose proof (IH _ _ _ _ _ Hc Hu) as Hk.
        assert (Hother : e0 <> ENone -> e0 <> EEof ->
          (let '(a, h') := hn_on_error h e0 in
           match a with
           | NFailWith c0 => (([], ECode c0), CE cur' off h')
           | NReplace t' => nread ifuel f max (CE (nopen ifuel t' off) off (hn_retire h' (nobs (nclose cur'))))
           end) = ((c, e), r') ->
          match e with ENone => Live r' (NW inner ans) | _ => Dead (NW inner ans) r' e end).
        { intros Hne Hnf Hx.
          assert (Hdk : Dead tc cur' e0) by (destruct e0; auto; congruence).
          destruct Hdk as (Hfc & Hfe). specialize (Hfe Hnf).
          unfold hn_on_error in Hx. destruct (hn_ans h) as [|t' r|c0 r] eqn:Ea.
          - inv Hx. split.
            + unfold Fine. cbn [nclose nobs]. unfold hn_obs, hn_finish. cbn. rewrite Hd. apply Gn_G.
              eapply Seg_fail; [exact Hs|exact Logic.I|exact Hfc|exact Hfe].
            + intros _. cbn [nclose nobs]. unfold hn_obs, hn_finish. cbn. rewrite Hd.
              eapply node_F; [exact Hs|reflexivity].
          - eapply IH; [|exact Hx].
            cbn [Live hn_retire hn_done hn_ans hn_off hn_dead]. destruct Hawf as (Hwt & Hwr).
            rsplit; auto. exists t'. split; [|apply nopen_live; exact Hwt].
            eapply Seg_snoc; [exact Hs|exact Hfc|exact Hfe].
          - inv Hx. split.
            + unfold Fine. cbn [nclose nobs]. unfold hn_obs, hn_finish. cbn. rewrite Hd. apply Gn_G.
              eapply Seg_fail; [exact Hs|exact Logic.I|exact Hfc|exact Hfe].
            + intros _. cbn [nclose nobs]. unfold hn_obs, hn_finish. cbn. rewrite Hd.
              eapply node_F; [exact Hs|reflexivity]. }
        destruct e0; try (apply Hother; [congruence|congruence|exact Hr]).
        * inv Hr. cbn [Live]. rsplit; auto. exists tc. auto.
        * inv Hr. split; [|congruence]. unfold Fine. cbn [nclose nobs]. unfold hn_obs, hn_finish. cbn.
          rewrite Hd. apply Gn_G. eapply Seg_close; [exact Hs|]. exact (proj1 Hk).
  Qed.
End ChunkRules.

(** * The nested errorHandlingReaders *)
Section ReaderRules.
  Variable ifuel : nat.

  Fixpoint LiveR (r : nrd) (t : nbuf) : Prop :=
    match r, t with
    | RL u, NB b => wf_buf b /\ exists k p, rpulls (urd_read ifuel) (urd_open ifuel b k) p u
    | RE cur off h, NW inner ans =>
        hn_done h = 0%nat /\ awf (hn_ans h) /\
        exists tc, Seg true ans inner (hn_off h) (hn_dead h) (hn_ans h) tc /\ LiveR cur tc
    | _, _ => False
    end.
  Definition FineR (t : nbuf) (r : nrd) : Prop := Gs t (nrobs (nrclose r)).
  Definition DeadR (t : nbuf) (r : nrd) (e : err) : Prop :=
    FineR t r /\ (e <> EEof -> Fs t (nrobs (nrclose r)) e).

  Lemma nropen_live : forall t k, twf t -> LiveR (nropen ifuel t k) t.
  Proof.
    induction t as [b|inner IH ans]; intros k Hw; cbn [nropen LiveR].
    - split; [exact Hw|]. exists k, []. constructor.
    - destruct Hw as (Hi & Ha). cbn. rsplit; auto. exists inner. split; [constructor|apply IH; exact Hi].
  Qed.

  Lemma liveR_fine : forall r t, LiveR r t -> FineR t r.
  Proof.
    induction r as [u|cur IH off h]; intros [b|inner ans] Hl; cbn [LiveR] in Hl; try contradiction.
    - split; reflexivity.
    - destruct Hl as (Hd & _ & tc & Hs & Hc). unfold FineR. cbn [nrclose nrobs]. unfold hn_obs, hn_finish. cbn.
      rewrite Hd. apply Gn_G. eapply Seg_close; [exact Hs|]. apply IH. exact Hc.
  Qed.

  Lemma nrread_spec : forall r t cap c e r',
    LiveR r t -> nrread ifuel cap r = ((c, e), r') ->
    match e with ENone => LiveR r' t | _ => DeadR t r' e end.
  Proof.
    induction r as [u|cur IH off h]; intros t cap c e r' Hl Hr; cbn [nrread] in Hr;
      destruct t as [b|inner ans]; cbn [LiveR] in Hl; try contradiction.
    - destruct (urd_read ifuel cap u) as [x u'] eqn:Hu. destruct x as [c0 e0]. inv Hr.
      destruct Hl as (Hw & k & p & Hp).
      assert (Hdead : e <> ENone -> DeadR (NB b) (RL u') e).
      { intros Hne. split; [split; reflexivity|]. intros Hneof. unfold F, fin. cbn [codes_of nrobs nrclose].
        destruct (err_eqb e EFuel) eqn:Ef.
        - destruct e; try discriminate. reflexivity.
        - assert (Hnf : e <> EFuel) by (intros ->; discriminate).
          assert (Hd : rdrains (urd_read ifuel) (urd_open ifuel b k) (p ++ c) e u').
          { eapply rpulls_rdrains; [exact Hp|]. eapply rdrains_end; eassumption. }
          rewrite (piece_fin _ _ _ _ (rpiece_exact _ _ _ _ _ _ Hd Hnf Hw) Hneof). apply orb_true_r. }
      destruct e; try (apply Hdead; congruence).
      split; [exact Hw|]. exists k, (p ++ c). eapply rpulls_snoc'; eassumption.
    - destruct Hl as (Hd & Hawf & tc & Hs & Hc).
      destruct (nrread ifuel cap cur) as [[data e0] cur'] eqn:Hu.
      pose proof (IH _ _ _ _ _ Hc Hu) as Hk.
      assert (Hother : e0 <> ENone -> e0 <> EEof ->
        (let '(a, h') := hn_on_error h e0 in
         match a with
         | NFailWith c0 => ((data, ECode c0), RE cur' (off + lenN data) h')
         | NReplace t' => ((data, ENone), RE (nropen ifuel t' (off + lenN data)) (off + lenN data)
                                            (hn_retire h' (nrobs (nrclose cur'))))
         end) = ((c, e), r') ->
        match e with ENone => LiveR r' (NW inner ans) | _ => DeadR (NW inner ans) r' e end).
      { intros Hne Hnf Hx.
        assert (Hdk : DeadR tc cur' e0) by (destruct e0; auto; congruence).
        destruct Hdk as (Hfc & Hfe). specialize (Hfe Hnf).
        unfold hn_on_error in Hx. destruct (hn_ans h) as [|t' r|c0 r] eqn:Ea.
        - inv Hx. split.
          + unfold FineR. cbn [nrclose nrobs]. unfold hn_obs, hn_finish. cbn. rewrite Hd. apply Gn_G.
            eapply Seg_fail; [exact Hs|exact Logic.I|exact Hfc|exact Hfe].
          + intros _. cbn [nrclose nrobs]. unfold hn_obs, hn_finish. cbn. rewrite Hd.
            eapply node_F; [exact Hs|reflexivity].
        - inv Hx. cbn [LiveR hn_retire hn_done hn_ans hn_off hn_dead]. destruct Hawf as (Hwt & Hwr).
          rsplit; auto. exists t'. split; [|apply nropen_live; exact Hwt].
          eapply Seg_snoc; [exact Hs|exact Hfc|exact Hfe].
        - inv Hx. split.
          + unfold FineR. cbn [nrclose nrobs]. unfold hn_obs, hn_finish. cbn. rewrite Hd. apply Gn_G.
            eapply Seg_fail; [exact Hs|exact Logic.I|exact Hfc|exact Hfe].
          + intros _. cbn [nrclose nrobs]. unfold hn_obs, hn_finish. cbn. rewrite Hd.
            eapply node_F; [exact Hs|reflexivity]. }
      destruct e0; try (apply Hother; [congruence|congruence|exact Hr]).
      + inv Hr. cbn [LiveR]. rsplit; auto. exists tc. auto.
      + inv Hr. split; [|congruence]. unfold FineR. cbn [nrclose nrobs]. unfold hn_obs, hn_finish. cbn.
        rewrite Hd. apply Gn_G. eapply Seg_close; [exact Hs|]. exact (proj1 Hk).
  Qed.
End ReaderRules.

(** * The validating readers never read again after an error *)
Section StickyChunk.
  Variable H : bytes -> bytes.
  Variable cfg : vcfg.
  Variable S : Type.
  Variable rd : S -> (bytes * err) * S.
  Variables P0 Pf : S -> Prop.
  Hypothesis P0f : forall s, P0 s -> Pf s.
  Hypothesis rd_spec : forall s c e s', P0 s -> rd s = ((c, e), s') -> (e = ENone -> P0 s') /\ Pf s'.

  Definition Jv (st : vst S) : Prop := (v_err st = ENone -> P0 (v_u st)) /\ Pf (v_u st).

  Lemma finalize_loop_sticky : forall f (st : vst S) e st',
    finalize_loop H cfg rd f st = (e, st') -> P0 (v_u st) -> e <> ENone /\ Pf (v_u st').
  Proof.
    induction f as [|f IH]; intros st e st' Hf Hp; cbn [finalize_loop] in Hf.
    - inv Hf. split; [congruence|auto].
    - destruct (rd (v_u st)) as [[chunk e0] u'] eqn:Hr. destruct (rd_spec _ _ _ _ Hp Hr) as (Hn & Hpf).
      destruct e0; cbn in Hf.
      + destruct (v_rem st <? lenN chunk); [inv Hf; split; [congruence|exact Hpf]|].
        eapply IH; [exact Hf|cbn; auto].
      + destruct (bytes_eqb _ _); inv Hf; (split; [congruence|exact Hpf]).
      + inv Hf; split; [congruence|exact Hpf].
      + inv Hf; split; [congruence|exact Hpf].
      + inv Hf; split; [congruence|exact Hpf].
  Qed.
  Lemma maybe_finalize_sticky f (st : vst S) e st' :
    maybe_finalize H cfg rd f st = (e, st') -> P0 (v_u st) -> (e = ENone -> st' = st) /\ Pf (v_u st').
  Proof.
    unfold maybe_finalize. intros Hm Hp. destruct (0 <? v_rem st).
    - inv Hm. auto.
    - destruct (finalize_loop_sticky _ _ _ _ Hm Hp) as (A & B). split; [congruence|exact B].
  Qed.

  Lemma vcr_read_sticky f (st : vst S) x st' :
    vcr_read H cfg rd f st = (x, st') -> Jv st -> Jv st'.
  Proof.
    unfold vcr_read. intros Hr (Hj0 & Hjf).
    destruct (v_err st) eqn:Eerr; try (inv Hr; split; [rewrite Eerr; congruence|exact Hjf]).
    specialize (Hj0 eq_refl).
    destruct (vcr_do_read H cfg rd f st) as [[chunk e] st1] eqn:Hd.
    unfold vcr_do_read in Hd.
    destruct (maybe_finalize H cfg rd f st) as [e0 st0] eqn:Hm.
    destruct (maybe_finalize_sticky _ _ _ _ Hm Hj0) as (Hsame & Hpf0).
    destruct e0; try (inv Hd; inv Hr; split; [cbn; congruence|exact Hpf0]).
    rewrite (Hsame eq_refl) in *. clear Hsame Hm st0.
    destruct (rd (v_u st)) as [[c1 e1] u'] eqn:Hrd. destruct (rd_spec _ _ _ _ Hj0 Hrd) as (Hn & Hpf).
    cbn [v_set_u v_rem v_u v_acc v_err v_cbs] in Hd.
    destruct e1; try (unfold v_fail in Hd; inv Hd; inv Hr; split; [cbn; congruence|exact Hpf]).
    destruct (v_rem st <? lenN c1); [unfold v_fail in Hd; inv Hd; inv Hr; split; [cbn; congruence|exact Hpf]|].
    inv Hd.
    match type of Hr with context [maybe_finalize H cfg rd f ?s0] =>
      destruct (maybe_finalize H cfg rd f s0) as [e2 st2] eqn:Hm2;
      destruct (maybe_finalize_sticky _ _ _ _ Hm2 (Hn eq_refl)) as (Hsame2 & Hpf2) end.
    destruct e2; inv Hr; (split; [cbn; try congruence|exact Hpf2]).
    intros _. rewrite (Hsame2 eq_refl). cbn. exact (Hn eq_refl).
  Qed.
End StickyChunk.

Section StickyReader.
  Variable H : bytes -> bytes.
  Variable cfg : vcfg.
  Variable S : Type.
  Variable rd : N -> S -> (bytes * err) * S.
  Variables P0 Pf : S -> Prop.
  Hypothesis P0f : forall s, P0 s -> Pf s.
  Hypothesis rd_spec : forall cap s c e s', P0 s -> rd cap s = ((c, e), s') -> (e = ENone -> P0 s') /\ Pf s'.

  Lemma read_full_loop_sticky : forall f want got s x s',
    read_full_loop rd f want got s = (x, s') -> P0 s -> Pf s'.
  Proof.
    induction f as [|f IH]; intros want got s x s' Hr Hp; cbn [read_full_loop] in Hr;
      destruct (want <=? lenN got); try (inv Hr; auto; fail).
    destruct (rd (want - lenN got) s) as [[c e] s1] eqn:Hrd. destruct (rd_spec _ _ _ _ _ Hp Hrd) as (Hn & Hpf).
    destruct e; try (destruct (want <=? lenN (got ++ c)); inv Hr; exact Hpf).
    eapply IH; [exact Hr|auto].
  Qed.

  Lemma vr_read_sticky f cap (st : vst S) x st' :
    vr_read H cfg rd f cap st = (x, st') -> Jv S P0 Pf st -> Jv S P0 Pf st'.
  Proof.
    unfold vr_read. intros Hr (Hj0 & Hjf).
    destruct (v_err st) eqn:Eerr; try (inv Hr; split; [rewrite Eerr; congruence|exact Hjf]).
    specialize (Hj0 eq_refl).
    destruct (vr_do_read H cfg rd f cap st) as [[d0 e0] st0] eqn:Hdo. inv Hr.
    unfold vr_do_read in Hdo. destruct (rd cap (v_u st)) as [[data re] u'] eqn:Hrd.
    destruct (rd_spec _ _ _ _ _ Hj0 Hrd) as (Hn & Hpf).
    cbn [v_set_u v_rem v_u v_acc v_err v_cbs] in Hdo.
    destruct (v_rem st <? lenN data); [unfold v_fail in Hdo; inv Hdo; split; [cbn; congruence|exact Hpf]|].
    destruct re; cbn [v_rem v_u v_acc v_err v_cbs] in Hdo.
    - destruct (v_rem st - lenN data =? 0).
      + destruct (read_full rd f 1 u') as [[fin0 fe] u''] eqn:Hf. unfold read_full in Hf.
        pose proof (read_full_loop_sticky _ _ _ _ _ _ Hf (Hn eq_refl)) as Hpf2.
        cbn [v_set_u v_rem v_u v_acc v_err v_cbs] in Hdo.
        destruct fe;
          try (destruct (_ <? lenN fin0); [unfold v_fail in Hdo; inv Hdo; split; [cbn; congruence|exact Hpf2]|];
               unfold vr_compare in Hdo; cbn in Hdo; destruct (bytes_eqb _ _); unfold v_fail in Hdo; inv Hdo;
               (split; [cbn; congruence|exact Hpf2]));
          inv Hdo; (split; [cbn; congruence|exact Hpf2]).
      + inv Hdo. split; [intros _; cbn; exact (Hn eq_refl)|exact Hpf].
    - destruct (negb _); [unfold v_fail in Hdo; inv Hdo; split; [cbn; congruence|exact Hpf]|].
      unfold vr_compare in Hdo. cbn in Hdo. destruct (bytes_eqb _ _); unfold v_fail in Hdo; inv Hdo;
        (split; [cbn; congruence|exact Hpf]).
    - inv Hdo. split; [cbn; congruence|exact Hpf].
    - inv Hdo. split; [cbn; congruence|exact Hpf].
    - inv Hdo. split; [cbn; congruence|exact Hpf].
  Qed.
End StickyReader.

(** * Every method *)
Section MethodRules.
  Variable H : bytes -> bytes.
  Variable cfg : vcfg.
  Variable fuel : nat.

  Lemma nread_step max t s c e s' :
    Live fuel max s t -> nread fuel fuel max s = ((c, e), s') -> (e = ENone -> Live fuel max s' t) /\ Fine t s'.
  Proof.
    intros Hl Hr. pose proof (nread_spec _ _ _ _ _ _ _ _ Hl Hr) as Hk.
    destruct e; try (split; [congruence|exact (proj1 Hk)]).
    split; [auto|apply (live_fine fuel max); exact Hk].
  Qed.
  Lemma nrread_step t cap s c e s' :
    LiveR fuel s t -> nrread fuel cap s = ((c, e), s') -> (e = ENone -> LiveR fuel s' t) /\ FineR t s'.
  Proof.
    intros Hl Hr. pose proof (nrread_spec _ _ _ _ _ _ _ Hl Hr) as Hk.
    destruct e; try (split; [congruence|exact (proj1 Hk)]).
    split; [auto|apply (liveR_fine fuel); exact Hk].
  Qed.

  Definition Jc (max : N) (t : nbuf) : nv -> Prop := Jv ncr (fun r => Live fuel max r t) (Fine t).
  Definition Jr (t : nbuf) : nrv -> Prop := Jv nrd (fun r => LiveR fuel r t) (FineR t).

  Lemma nv_read_J max t st x st' : nv_read H cfg fuel max st = (x, st') -> Jc max t st -> Jc max t st'.
  Proof.
    unfold nv_read, Jc. apply vcr_read_sticky.
    - intros s. apply live_fine.
    - intros s c e s' Hl Hr. eapply nread_step; eassumption.
  Qed.
  Lemma nrv_read_J t cap st x st' : nrv_read H cfg fuel cap st = (x, st') -> Jr t st -> Jr t st'.
  Proof.
    unfold nrv_read, Jr. apply vr_read_sticky.
    - intros s. apply liveR_fine.
    - intros cap0 s c e s' Hl Hr. eapply nrread_step; eassumption.
  Qed.
  Lemma Jc_init max t : twf t -> Jc max t (vinit cfg (nopen fuel t 0)).
  Proof.
    intros Hw. pose proof (nopen_live fuel max t 0 Hw) as Hl. split; cbn; [auto|apply (live_fine fuel max); exact Hl].
  Qed.
  Lemma Jr_init t : twf t -> Jr t (vinit cfg (nropen fuel t 0)).
  Proof.
    intros Hw. pose proof (nropen_live fuel t 0 Hw) as Hl. split; cbn; [auto|apply (liveR_fine fuel); exact Hl].
  Qed.
  Definition closedG (t : nbuf) (st : nv) : Prop := Gs t (nobs (v_u st)).
  Lemma nv_close_G max t st : Jc max t st -> closedG t (nv_close st).
  Proof. intros (_ & Hf). exact Hf. Qed.

  (** Done() exactly once to every handler that exists, and the offering rule
      at every handler of the tree, for every method. *)
  Theorem run_tree_rules t m :
    twf t -> G (streamingb m) t (z_tree (run_tree H cfg fuel t m)).
  Proof.
    intros Hw. destruct t as [b|inner ans].
    - cbn [run_tree z_tree]. split; reflexivity.
    - remember (NW inner ans) as t eqn:Et.
      destruct m; rewrite Et; cbn [run_tree streamingb]; rewrite <- Et.
      + destruct (whole H cfg fuel (MToByteSlice max) t) as [[[d e] cbs] o] eqn:Hwh. cbn [z_tree].
        pose proof (proj1 (whole_rules H cfg fuel (MToByteSlice max)) t) as (Hg & _). rewrite Hwh in Hg. exact Hg.
      + destruct (into_writer_cr (nv_read H cfg fuel 65536) nv_close fuel (vinit cfg (nopen fuel t 0)))
          as [[out e] st] eqn:Hi. cbn [z_tree].
        apply (into_writer_cr_ok _ _ _ (Jc 65536 t) (closedG t)
                 (fun s r s' => nv_read_J 65536 t s r s') (nv_close_G 65536 t) _ _ _ _ Hi).
        apply Jc_init. exact Hw.
      + destruct (whole H cfg fuel (MReadAt plen off) t) as [[[d e] cbs] o] eqn:Hwh. cbn [z_tree].
        pose proof (proj1 (whole_rules H cfg fuel (MReadAt plen off)) t) as (Hg & _). rewrite Hwh in Hg. exact Hg.
      + destruct (valid_offset (g_size cfg) off) eqn:Hv; [|cbn [z_tree]; apply discard_G].
        pose proof (fun s r s' => nv_read_J max t s r s') as Hpres.
        pose proof (offset_init_ok _ _ nv_close (Jc max t) (closedG t) Hpres (nv_close_G max t) fuel off _
                      (Jc_init max t Hw)) as H0.
        destruct (drain _ fuel [] _) as [[out e] o] eqn:Hd.
        pose proof (offset_read_ok _ (nv_read H cfg fuel max) (Jc max t) (closedG t) Hpres) as Hro.
        eapply (drain_pres _ _ _ Hro) in Hd; [|exact H0].
        destruct (extra_reads _ extra o) as [ex o2] eqn:He.
        eapply (extra_reads_pres _ _ _ Hro) in He; [|exact Hd].
        cbn [z_tree]. exact (offset_close_ok _ nv_close (Jc max t) (closedG t) (nv_close_G max t) _ He).
      + destruct (rconsume _ fuel caps _ [] _) as [[out e] st] eqn:Hr.
        pose proof (fun cap s r s' => nrv_read_J t cap s r s') as Hpres.
        eapply (rconsume_pres _ _ _ Hpres) in Hr; [|apply Jr_init; exact Hw].
        destruct (rextra _ extra _ st) as [ex st2] eqn:He.
        eapply (rextra_pres _ _ _ Hpres) in He; [|exact Hr].
        cbn [z_tree v_set_u v_u]. exact (proj2 He).
      + destruct (whole H cfg fuel (MToByteSlice max) t) as [[[d e] cbs] o] eqn:Hwh. cbn [z_tree].
        pose proof (proj1 (whole_rules H cfg fuel (MToByteSlice max)) t) as (Hg & _). rewrite Hwh in Hg. exact Hg.
      + cbn [z_tree]. apply discard_G.
  Qed.
End MethodRules.
