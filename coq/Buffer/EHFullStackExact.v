(** C16 — stacks of error handlers in closed form: the stream of the nested
    error-handling readers (the FLATTENED model [sch_read] / [shr_read]: one
    plain reader below the active levels, [escalate]) is the LEVEL-WISE
    specification [stitch_stack] the monitor evaluates: level l+1 takes the whole
    stream of level l as its base and consults its own script when that stream
    fails.  Every level's OnError log grows by exactly the errors
    [stitch_stack] says it is offered.  For well-formed buffers and no fuel
    exhaustion; any depth; chunk-reader path and io.Reader path. *)
From Coq Require Import List ZArith NArith Bool Lia.
From BBS Require Import Common.Sx Buffer.Source Buffer.Validate Buffer.Convert Buffer.ErrHandler
  Buffer.StreamProofs Buffer.ValidateProofs Buffer.ValidateReaderProofs Buffer.ConvertProofs
  Buffer.ReaderBufferProofs Buffer.ErrHandlerProofs
  Buffer.EHFullCarry Buffer.EHFullReader Buffer.EHFullExact Run.R09 Run.R16.
Import ListNotations.
Open Scope N_scope.

(** * The specification side *)
Definition spec3 := (bytes * err * list (list err))%type.

Lemma stitch_stack_eof : forall anss x, stitch_stack x EEof anss = (x, EEof, map (fun _ => []) anss).
Proof.
  induction anss as [|a r IH]; intros x; cbn [stitch_stack map]; [reflexivity|].
  cbn [stitch_from]. rewrite IH. reflexivity.
Qed.

(** [stitch b k] is [stitch_from] of the piece of [b] at [k], behind what has
    been delivered before *)
Lemma stitch_as_from pre b k ans p t :
  lenN pre = k -> piece_of b k = (p, t) ->
  stitch_from (pre ++ p) t ans =
  (let '(d, t2, offs) := stitch b k ans in (pre ++ d, t2, offs)).
Proof.
  intros Hk Hp. destruct ans as [|[b'|c] rest]; cbn [stitch]; rewrite Hp; destruct t; cbn [stitch_from]; try reflexivity.
  all: rewrite lenN_app, Hk; destruct (stitch b' (k + lenN p) rest) as [[p2 t2] offs]; rewrite <- ?app_assoc; reflexivity.
Qed.

Definition addhd (o : err) (K : spec3) : spec3 :=
  let '(D, E, offss) := K in (D, E, match offss with os :: r => (o :: os) :: r | [] => [] end).
Definition prelv (o : err) (K : spec3) : spec3 := let '(D, E, offss) := K in (D, E, [o] :: offss).

(** what [escalate] does, on the specification *)
Fixpoint esc_K (t : err) (acts : list hst) (K : spec3) : spec3 :=
  match acts with
  | [] => K
  | h :: rest =>
      match fst (on_error h t) with
      | Replace _ => addhd t K
      | Fail c => prelv t (esc_K (ECode c) rest K)
      end
  end.

(** the OnError arguments a handler has received *)
Definition oel (h : hst) : list err :=
  flat_map (fun x => match x with HOnError e => [e] | HDone => [] end) (h_log h).
Lemma oel_done h : oel (done h) = oel h.
Proof. unfold oel, done. cbn. rewrite flat_map_app. cbn. now rewrite app_nil_r. Qed.
Lemma oel_on_error h t : oel (snd (on_error h t)) = oel h ++ [t].
Proof. unfold oel. rewrite on_error_log, flat_map_app. reflexivity. Qed.

Lemma map_oel_done hs : map oel (map done hs) = map oel hs.
Proof. rewrite map_map. apply map_ext. intros h. apply oel_done. Qed.

Fixpoint zipo (logs : list (list err)) (offss : list (list err)) : list (list err) :=
  match logs, offss with
  | l :: ls, o :: os => (l ++ o) :: zipo ls os
  | _, _ => []
  end.

Lemma stitch_from_fail x t h c :
  t <> EEof -> fst (on_error h t) = Fail c -> stitch_from x t (h_answers h) = (x, ECode c, [t]).
Proof.
  unfold on_error. intros Hne Ho. destruct (h_answers h) as [|[b|c'] r]; cbn in Ho; inv Ho;
    destruct t; try congruence; reflexivity.
Qed.

Lemma esc_spec : forall acts t ob e' passed act' x K,
  t <> EEof -> escalate t acts = ((ob, e'), passed, act') ->
  match ob with
  | Some b => forall p' t', piece_of b (lenN x) = (p', t') ->
                            stitch_stack (x ++ p') t' (map h_answers act') = K
  | None => K = (x, e', [])
  end ->
  match ob with
  | Some b => forall p' t', piece_of b (lenN x) = (p', t') ->
                            stitch_stack x t (map h_answers acts) = esc_K t acts K
  | None => stitch_stack x t (map h_answers acts) = esc_K t acts K
  end.
Proof.
  induction acts as [|h rest IH]; intros t ob e' passed act' x K Hne He HK; cbn [escalate] in He.
  - inv He. subst K. reflexivity.
  - destruct (on_error h t) as [a h'] eqn:Ho. cbn [map stitch_stack esc_K]. rewrite Ho. cbn [fst].
    destruct a as [b|c].
    + injection He as Eob Ee Ep Ea; subst ob e' passed act'. intros p' t' Hp. specialize (HK _ _ Hp). cbn [map stitch_stack] in HK.
      rewrite (on_error_replace _ _ _ _ Ho).
      rewrite (stitch_as_from x b (lenN x) (h_answers h') p' t' eq_refl Hp) in HK.
      assert (Hsf : stitch_from x t (Replace b :: h_answers h') =
                    let '(p2, t2, offs) := stitch b (lenN x) (h_answers h') in (x ++ p2, t2, t :: offs))
        by (destruct t; try congruence; reflexivity).
      rewrite Hsf.
      destruct (stitch b (lenN x) (h_answers h')) as [[d t2] offs].
      destruct (stitch_stack (x ++ d) t2 (map h_answers rest)) as [[p3 t3] offss].
      subst K. reflexivity.
    + destruct (escalate (ECode c) rest) as [[r0 passed0] act0] eqn:Hr. destruct r0 as [ob0 e0]. injection He as Eob Ee Ep Ea; subst ob0 e0 passed act0.
      assert (Hf : stitch_from x t (h_answers h) = (x, ECode c, [t]))
        by (apply stitch_from_fail; [exact Hne|rewrite Ho; reflexivity]).
      rewrite Hf.
      specialize (IH (ECode c) ob e' passed0 act' x K ltac:(congruence) Hr HK).
      destruct ob as [b|].
      * intros p' t' Hp. rewrite (IH _ _ Hp). destruct (esc_K (ECode c) rest K) as [[D E] offss]. reflexivity.
      * rewrite IH. destruct (esc_K (ECode c) rest K) as [[D E] offss]. reflexivity.
Qed.

Lemma esc_logs : forall acts t ob e' passed act' fin2 K,
  escalate t acts = ((ob, e'), passed, act') ->
  match ob with
  | Some _ => map oel fin2 = zipo (map oel act') (snd K) /\ length (snd K) = length act'
  | None => fin2 = [] /\ snd K = []
  end ->
  map oel (map done passed ++ fin2) = zipo (map oel acts) (snd (esc_K t acts K)) /\
  length (snd (esc_K t acts K)) = length acts /\
  (acts <> [] -> exists h, hd_error (map done passed ++ fin2) = Some h /\ In t (oel h)).
Proof.
  induction acts as [|h rest IH]; intros t ob e' passed act' fin2 K He HK; cbn [escalate] in He.
  - inv He. destruct HK as (-> & HK). cbn. rewrite HK. rsplit; auto. congruence.
  - destruct (on_error h t) as [a h'] eqn:Ho. cbn [map esc_K]. rewrite Ho. cbn [fst].
    pose proof (oel_on_error h t) as Hl. rewrite Ho in Hl. cbn [snd] in Hl.
    destruct a as [b|c].
    + injection He as Eob Ee Ep Ea; subst ob e' passed act'. destruct HK as (HK & Hlen). cbn [app map]. cbn [map length] in HK, Hlen.
      destruct K as [[D E] offss]. cbn [snd addhd] in *.
      destruct offss as [|os r]; [discriminate|]. cbn [zipo length] in *.
      destruct fin2 as [|f fin2']; [discriminate|]. cbn [map] in HK. inversion HK as [[Hf Hr]].
      rsplit.
      * cbn [map]. rewrite Hf, Hr, Hl. rewrite <- app_assoc. reflexivity.
      * exact Hlen.
      * intros _. exists f. split; [reflexivity|]. rewrite Hf, Hl. apply in_or_app. left. apply in_or_app. right. left. reflexivity.
    + destruct (escalate (ECode c) rest) as [[r0 passed0] act0] eqn:Hr. destruct r0 as [ob0 e0]. injection He as Eob Ee Ep Ea; subst ob0 e0 passed act0.
      destruct (IH _ _ _ _ _ fin2 K Hr HK) as (Hm & Hlen & _).
      destruct (esc_K (ECode c) rest K) as [[D E] offss]. cbn [snd prelv] in *.
      cbn [app map zipo length]. rsplit.
      * rewrite Hm, oel_done, Hl. reflexivity.
      * rewrite Hlen. reflexivity.
      * intros _. exists (done h'). split; [reflexivity|]. rewrite oel_done, Hl. apply in_or_app. right. left. reflexivity.
Qed.

(** * The flattened stack stream as a relation, over any kind of reader *)
Section GenericStackStitch.
  Variable S : Type.
  Variable open : bufscript -> N -> S.
  Variable dr : S -> bytes -> err -> S -> Prop.
  Hypothesis exact : forall b k p t s', dr (open b k) p t s' -> t <> EFuel -> wf_buf b -> piece_of b k = (p, t).

  (** [sst cur k acts out e fin]: from the reader [cur] with [k] bytes delivered
      and the active levels [acts], the consumer receives [out], then [e];
      [fin]: the levels afterwards, in the same order. *)
  Inductive sst : S -> N -> list hst -> bytes -> err -> list hst -> Prop :=
  | ss_eof cur k acts p cur' : dr cur p EEof cur' -> sst cur k acts p EEof acts
  | ss_fail cur k acts p t cur' e' passed :
      dr cur p t cur' -> t <> EEof -> escalate t acts = ((None, e'), passed, []) ->
      sst cur k acts p e' passed
  | ss_replace cur k acts p t cur' b e0 passed act' p2 e fin :
      dr cur p t cur' -> t <> EEof -> escalate t acts = ((Some b, e0), passed, act') ->
      sst (open b (k + lenN p)) (k + lenN p) act' p2 e fin ->
      sst cur k acts (p ++ p2) e (map done passed ++ fin).

  Definition hs_wf (acts : list hst) : Prop := Forall (fun h => Forall wf_ans (h_answers h)) acts.
  Definition no_fuel_logged (hs : list hst) : Prop := Forall (fun h => ~ In EFuel (oel h)) hs.

  Lemma on_error_wf h t a h' :
    on_error h t = (a, h') -> Forall wf_ans (h_answers h) -> wf_ans a /\ Forall wf_ans (h_answers h').
  Proof.
    unfold on_error. destruct (h_answers h) as [|a0 r]; intros Ho Hw; inv Ho; cbn.
    - split; [exact Logic.I|constructor].
    - inversion Hw; auto.
  Qed.
  Lemma escalate_wf : forall acts t ob e' passed act',
    escalate t acts = ((ob, e'), passed, act') -> hs_wf acts ->
    hs_wf act' /\ match ob with Some b => wf_buf b | None => True end.
  Proof.
    induction acts as [|h rest IH]; intros t ob e' passed act' He Hw; cbn [escalate] in He.
    - inv He. split; [constructor|exact Logic.I].
    - inversion Hw as [|x l Hh Hrest]; subst.
      destruct (on_error h t) as [a h'] eqn:Ho. destruct (on_error_wf _ _ _ _ Ho Hh) as (Ha & Hh').
      destruct a as [b|c].
      + inv He. split; [constructor; assumption|exact Ha].
      + destruct (escalate (ECode c) rest) as [[r0 passed0] act0] eqn:Hr. destruct r0 as [ob0 e0]. inv He.
        eapply IH; eassumption.
  Qed.

  (** the closed form *)
  Theorem sst_is_stitch_stack : forall cur k acts out e fin,
    sst cur k acts out e fin ->
    forall b pre p t, cur = open b k -> lenN pre = k -> piece_of b k = (p, t) ->
    wf_buf b -> hs_wf acts -> acts <> [] -> no_fuel_logged fin -> e <> EFuel ->
    exists offss,
      stitch_stack (pre ++ p) t (map h_answers acts) = (pre ++ out, e, offss) /\
      map oel fin = zipo (map oel acts) offss /\ length offss = length acts.
  Proof.
    induction 1 as [cur k acts p0 cur' Hd|cur k acts p0 t0 cur' e' passed Hd Hne He
                   |cur k acts p0 t0 cur' b1 e0 passed act' p2 e fin Hd Hne He _ IH];
      intros b pre p t -> Hk Hp Hwf Hw Hnn Hnf Hef.
    - rewrite (exact _ _ _ _ _ Hd ltac:(congruence) Hwf) in Hp. inv Hp.
      rewrite stitch_stack_eof. eexists. split; [reflexivity|]. split.
      + clear. induction acts as [|h r IH]; cbn [map zipo]; [reflexivity|]. rewrite app_nil_r. f_equal. exact IH.
      + now rewrite !map_length.
    - destruct (esc_logs _ _ _ _ _ _ [] (pre ++ p0, e', []) He (conj eq_refl eq_refl)) as (Hm & Hlen & Hhd).
      rewrite app_nil_r in *.
      assert (Ht0 : t0 <> EFuel).
      { intros ->. destruct (Hhd Hnn) as (h & Hh & Hin). unfold no_fuel_logged in Hnf. rewrite Forall_forall in Hnf.
        destruct passed as [|h0 ps]; [discriminate|]. cbn in Hh. inv Hh. apply (Hnf h0 (or_introl eq_refl)).
        rewrite oel_done in Hin. exact Hin. }
      rewrite (exact _ _ _ _ _ Hd Ht0 Hwf) in Hp. inv Hp.
      pose proof (esc_spec _ _ _ _ _ _ (pre ++ p) (pre ++ p, e', []) Hne He eq_refl) as Hs. cbn beta iota in Hs.
      rewrite Hs. destruct (esc_K t acts (pre ++ p, e', [])) as [[D E] offss] eqn:HK.
      assert (HDE : D = pre ++ p /\ E = e').
      { clear -HK. revert t D E offss HK. induction acts as [|h r IH]; intros t D E offss HK; cbn [esc_K] in HK.
        - inv HK. auto.
        - destruct (fst (on_error h t)); [inv HK; auto|].
          destruct (esc_K (ECode c) r (pre ++ p, e', [])) as [[D0 E0] o0] eqn:H0. inv HK. eapply IH; eauto. }
      destruct HDE as (-> & ->). exists offss. cbn [snd] in *. rewrite map_oel_done in Hm. auto.
    - (* a replacement: first the rest of the run *)
      destruct (escalate_wf _ _ _ _ _ _ He Hw) as (Hw' & Hwb).
      assert (Hnf2 : no_fuel_logged fin) by (unfold no_fuel_logged in *; apply Forall_app in Hnf; tauto).
      assert (Hact' : act' <> []).
      { clear -He. revert t0 passed He. induction acts as [|h r IH]; intros t0 passed He; cbn [escalate] in He; [inv He|].
        destruct (on_error h t0) as [a h']. destruct a; [inv He; discriminate|].
        destruct (escalate (ECode c) r) as [[r0 ps] a0] eqn:Hr. destruct r0. inv He. eapply IH; eauto. }
      destruct (piece_of b1 (k + lenN p0)) as [p' t'] eqn:Hp'.
      destruct (IH b1 (pre ++ p0) p' t' eq_refl ltac:(rewrite lenN_app; lia) Hp' Hwb Hw' Hact' Hnf2 Hef)
        as (offss2 & Hs2 & Hm2 & Hl2).
      destruct (esc_logs _ _ _ _ _ _ fin (pre ++ p0 ++ p2, e, offss2) He (conj Hm2 Hl2)) as (Hm & Hlen & Hhd).
      assert (Ht0 : t0 <> EFuel).
      { intros ->. destruct (Hhd Hnn) as (h & Hh & Hin). unfold no_fuel_logged in Hnf. rewrite Forall_forall in Hnf.
        apply (Hnf h); [|exact Hin]. revert Hh. destruct (map done passed ++ fin) as [|h0 l]; cbn; intros Hh; [discriminate Hh|]. inv Hh. left. reflexivity. }
      rewrite (exact _ _ _ _ _ Hd Ht0 Hwf) in Hp. inv Hp.
      assert (HKs : forall p'0 t'0, piece_of b1 (lenN (pre ++ p)) = (p'0, t'0) ->
                stitch_stack ((pre ++ p) ++ p'0) t'0 (map h_answers act') = (pre ++ p ++ p2, e, offss2)).
      { intros p'0 t'0 Hq. rewrite lenN_app in Hq. rewrite Hp' in Hq. inv Hq. rewrite Hs2, <- app_assoc. reflexivity. }
      pose proof (esc_spec _ _ _ _ _ _ (pre ++ p) (pre ++ p ++ p2, e, offss2) Hne He HKs) as Hs. cbn beta iota in Hs.
      rewrite lenN_app in Hs. rewrite (Hs _ _ Hp').
      destruct (esc_K t acts (pre ++ p ++ p2, e, offss2)) as [[D E] offss] eqn:HK.
      assert (HDE : D = pre ++ p ++ p2 /\ E = e).
      { clear -HK. revert t D E offss HK. induction acts as [|h r IH]; intros t D E offss HK; cbn [esc_K] in HK.
        - inv HK. auto.
        - destruct (fst (on_error h t)); [destruct offss2; inv HK; auto|].
          destruct (esc_K (ECode c) r (pre ++ p ++ p2, e, offss2)) as [[D0 E0] o0] eqn:H0. inv HK. eapply IH; eauto. }
      destruct HDE as (-> & ->). exists offss. cbn [snd] in *. auto.
  Qed.
End GenericStackStitch.

(** [escalate] without a replacement ends with an error *)
Lemma escalate_none_err : forall acts t e' passed act',
  escalate t acts = ((None, e'), passed, act') -> act' = [] /\ (e' = t \/ exists c, e' = ECode c).
Proof.
  induction acts as [|h rest IH]; intros t e' passed act' He; cbn [escalate] in He.
  - inv He. auto.
  - destruct (on_error h t) as [a h']. destruct a as [b|c]; [inv He|].
    destruct (escalate (ECode c) rest) as [[r0 passed0] act0] eqn:Hr. destruct r0 as [ob0 e0]. inv He.
    destruct (IH _ _ _ _ Hr) as (-> & [->|(c0 & ->)]); split; eauto.
Qed.

(** * The nested error-handling chunk readers *)
Section SchStitched.
  Variable ifuel : nat.
  Variable max : N.
  Notation urd := (ucr_read ifuel max).
  Notation sstc := (sst ucr (ucr_open ifuel) (drains urd)).

  Definition lv (w : world) : list hst := w_dn w ++ w_act w.

  Lemma sst_cons cur c cur' k acts out e fin :
    urd cur = ((c, ENone), cur') -> sstc cur' (k + lenN c) acts out e fin -> sstc cur k acts (c ++ out) e fin.
  Proof.
    intros Hr Hs. inversion Hs; subst.
    - eapply ss_eof. eapply drains_step; eassumption.
    - eapply ss_fail; [eapply drains_step; eassumption|assumption|assumption].
    - rewrite app_assoc. eapply ss_replace; [eapply drains_step; eassumption|assumption|eassumption|].
      rewrite lenN_app, N.add_assoc. assumption.
  Qed.

  (** one Read, with the replacements performed within it *)
  Lemma sch_read_inv : forall f r c e r1,
    sch_read ifuel f max r = ((c, e), r1) -> e <> EFuel ->
    (e = ENone ->
       forall out e2 fin, sstc (sc_cur r1) (sc_off r1) (w_act (sc_w r1)) out e2 fin ->
         exists fin0, sstc (sc_cur r) (sc_off r) (w_act (sc_w r)) (c ++ out) e2 fin0 /\
                      w_dn (sc_w r) ++ fin0 = w_dn (sc_w r1) ++ fin) /\
    (e <> ENone ->
       c = [] /\
       exists fin0, sstc (sc_cur r) (sc_off r) (w_act (sc_w r)) [] e fin0 /\
                    w_dn (sc_w r) ++ fin0 = lv (sc_w r1)).
  Proof.
    induction f as [|f IH]; intros r c e r1 Hr Hnf; cbn [sch_read] in Hr; [inv Hr; congruence|].
    destruct (urd (sc_cur r)) as [[chunk e0] cur'] eqn:Hu.
    assert (Hother : e0 <> ENone -> e0 <> EEof ->
      (let '(ob, e', passed, act') := escalate e0 (w_act (sc_w r)) in
       match ob with
       | Some b => sch_read ifuel f max
                     (mkSch (ucr_open ifuel b (sc_off r)) (sc_off r)
                            (after_replace (sc_w r) passed act' (ucr_closes (ucr_close cur'))))
       | None => (([], e'), mkSch cur' (sc_off r) (after_failure (sc_w r) passed))
       end) = ((c, e), r1) ->
      (e = ENone ->
         forall out e2 fin, sstc (sc_cur r1) (sc_off r1) (w_act (sc_w r1)) out e2 fin ->
           exists fin0, sstc (sc_cur r) (sc_off r) (w_act (sc_w r)) (c ++ out) e2 fin0 /\
                        w_dn (sc_w r) ++ fin0 = w_dn (sc_w r1) ++ fin) /\
      (e <> ENone ->
         c = [] /\
         exists fin0, sstc (sc_cur r) (sc_off r) (w_act (sc_w r)) [] e fin0 /\
                      w_dn (sc_w r) ++ fin0 = lv (sc_w r1))).
    { intros Hn He Hx. destruct (escalate e0 (w_act (sc_w r))) as [[[ob e'] passed] act'] eqn:Hesc.
      assert (Hd0 : drains urd (sc_cur r) [] e0 cur') by (eapply drains_end; eassumption).
      destruct ob as [b|].
      - destruct (IH _ _ _ _ Hx Hnf) as (IH1 & IH2). cbn [sc_cur sc_off sc_w after_replace w_dn w_act] in IH1, IH2.
        split.
        + intros Ee out e2 fin Hs. destruct (IH1 Ee out e2 fin Hs) as (fin2 & Hs2 & Hw2).
          exists (map done passed ++ fin2). split.
          * change (c ++ out) with ([] ++ (c ++ out)). eapply ss_replace; [exact Hd0|exact He|exact Hesc|].
            rewrite lenN_nil, N.add_0_r. exact Hs2.
          * rewrite app_assoc. exact Hw2.
        + intros Ee. destruct (IH2 Ee) as (-> & fin2 & Hs2 & Hw2). split; [reflexivity|].
          exists (map done passed ++ fin2). split.
          * change (@nil N) with (@nil N ++ []). eapply ss_replace; [exact Hd0|exact He|exact Hesc|].
            rewrite lenN_nil, N.add_0_r. exact Hs2.
          * rewrite app_assoc. exact Hw2.
      - destruct (escalate_none_err _ _ _ _ _ Hesc) as (-> & He').
        inv Hx. split; [intros ->; destruct He' as [?|(c0 & ?)]; congruence|].
        intros _. split; [reflexivity|]. exists passed. split.
        + eapply ss_fail; [exact Hd0|exact He|exact Hesc].
        + unfold lv. reflexivity. }
    destruct e0; try (apply Hother; [congruence|congruence|exact Hr]).
    - inv Hr. split; [|congruence]. intros _ out e2 fin Hs. exists fin. split; [|reflexivity].
      eapply sst_cons; eassumption.
    - inv Hr. split; [congruence|]. intros _. split; [reflexivity|]. exists (w_act (sc_w r)). split.
      + eapply ss_eof. eapply drains_end; [eassumption|congruence].
      + reflexivity.
  Qed.

  Theorem sch_stitched fuel r out e r' :
    drains (sch_read ifuel fuel max) r out e r' -> e <> EFuel ->
    exists fin, sstc (sc_cur r) (sc_off r) (w_act (sc_w r)) out e fin /\
                w_dn (sc_w r) ++ fin = lv (sc_w r').
  Proof.
    induction 1 as [r c e r1 Hr Hnn|r c r1 bs e r2 Hr _ IH]; intros Hne.
    - destruct (proj2 (sch_read_inv _ _ _ _ _ Hr Hne) Hnn) as (_ & fin0 & Hs & Hw). eauto.
    - destruct (IH Hne) as (fin & Hs & Hw).
      destruct (proj1 (sch_read_inv _ _ _ _ _ Hr ltac:(congruence)) eq_refl _ _ _ Hs) as (fin0 & Hs0 & Hw0).
      exists fin0. split; [exact Hs0|]. rewrite Hw0. exact Hw.
  Qed.
End SchStitched.

(** * The nested error-handling io.Readers *)
Section ShrStitched.
  Variable fuel : nat.
  Notation urdr := (urd_read fuel).
  Notation sstr := (sst urd (urd_open fuel) (rdrains urdr)).

  Lemma ssr_cons cap cur c cur' k acts out e fin :
    urdr cap cur = ((c, ENone), cur') -> sstr cur' (k + lenN c) acts out e fin -> sstr cur k acts (c ++ out) e fin.
  Proof.
    intros Hr Hs. inversion Hs; subst.
    - eapply ss_eof. eapply rdrains_step; eassumption.
    - eapply ss_fail; [eapply rdrains_step; eassumption|assumption|assumption].
    - rewrite app_assoc. eapply ss_replace; [eapply rdrains_step; eassumption|assumption|eassumption|].
      rewrite lenN_app, N.add_assoc. assumption.
  Qed.

  Theorem shr_stitched r out e r' :
    rdrains (shr_read fuel) r out e r' ->
    exists fin, sstr (sr_cur r) (sr_off r) (w_act (sr_w r)) out e fin /\
                w_dn (sr_w r) ++ fin = lv (sr_w r').
  Proof.
    induction 1 as [cap r c e r1 Hr Hne|cap r c r1 bs e r2 Hr _ IH]; unfold shr_read in Hr;
      destruct (urd_read fuel cap (sr_cur r)) as [[data t] cur'] eqn:Hu.
    - destruct (escalate t (w_act (sr_w r))) as [[[ob e'] passed] act'] eqn:Hesc.
      assert (Hd0 : rdrains urdr (sr_cur r) data t cur' -> t <> ENone -> True) by auto.
      destruct t.
      + inv Hr. congruence.
      + inv Hr. exists (w_act (sr_w r)). split; [|reflexivity].
        eapply ss_eof. eapply rdrains_end; [eassumption|congruence].
      + destruct ob as [b|]; inv Hr; [congruence|]. destruct (escalate_none_err _ _ _ _ _ Hesc) as (-> & _).
        exists passed. split; [|reflexivity]. eapply ss_fail; [eapply rdrains_end; [eassumption|congruence]|congruence|exact Hesc].
      + destruct ob as [b|]; inv Hr; [congruence|]. destruct (escalate_none_err _ _ _ _ _ Hesc) as (-> & _).
        exists passed. split; [|reflexivity]. eapply ss_fail; [eapply rdrains_end; [eassumption|congruence]|congruence|exact Hesc].
      + destruct ob as [b|]; inv Hr; [congruence|]. destruct (escalate_none_err _ _ _ _ _ Hesc) as (-> & _).
        exists passed. split; [|reflexivity]. eapply ss_fail; [eapply rdrains_end; [eassumption|congruence]|congruence|exact Hesc].
    - destruct IH as (fin & Hs & Hw).
      destruct (escalate t (w_act (sr_w r))) as [[[ob e'] passed] act'] eqn:Hesc.
      assert (Hrep : t <> ENone -> t <> EEof -> forall b,
                ob = Some b ->
                r1 = mkShr (urd_open fuel b (sr_off r + lenN data)) (sr_off r + lenN data)
                           (after_replace (sr_w r) passed act' (urd_closes (urd_close cur'))) -> c = data ->
                exists fin0, sstr (sr_cur r) (sr_off r) (w_act (sr_w r)) (c ++ bs) e fin0 /\
                             w_dn (sr_w r) ++ fin0 = lv (sr_w r2)).
      { intros Hn He b -> -> ->. cbn [sr_cur sr_off sr_w after_replace w_dn w_act] in Hs, Hw.
        exists (map done passed ++ fin). split.
        - eapply ss_replace; [eapply rdrains_end; eassumption|exact He|exact Hesc|exact Hs].
        - rewrite app_assoc. exact Hw. }
      destruct t.
      + inv Hr. exists fin. split; [eapply ssr_cons; eassumption|exact Hw].
      + inv Hr.
      + destruct ob as [b|]; inv Hr; [|destruct (escalate_none_err _ _ _ _ _ Hesc) as (_ & [?|(cc & ?)]); congruence].
        eapply Hrep; try reflexivity; congruence.
      + destruct ob as [b|]; inv Hr; [|destruct (escalate_none_err _ _ _ _ _ Hesc) as (_ & [?|(cc & ?)]); congruence].
        eapply Hrep; try reflexivity; congruence.
      + destruct ob as [b|]; inv Hr; [|destruct (escalate_none_err _ _ _ _ _ Hesc) as (_ & [?|(cc & ?)]); congruence].
        eapply Hrep; try reflexivity; congruence.
  Qed.
End ShrStitched.

(** * The closed form for stacks *)
Definition oews (w : world) : list (list err) := map oel (lv w).

Theorem stack_chunk_stream_is_stitch_stack ifuel fuel max b w out e r' :
  drains (sch_read ifuel fuel max) (sch_init ifuel b w) out e r' ->
  wf_buf b -> hs_wf (w_act w) -> w_act w <> [] ->
  e <> EFuel -> Forall (fun h => ~ In EFuel (oel h)) (lv (sc_w r')) ->
  exists offss,
    (let '(p, t) := piece_of b 0 in stitch_stack p t (map h_answers (w_act w))) = (out, e, offss) /\
    oews (sc_w r') = map oel (w_dn w) ++ zipo (map oel (w_act w)) offss /\
    length offss = length (w_act w).
Proof.
  intros Hd Hwf Hw Hnn Hne Hnf.
  destruct (sch_stitched _ _ _ _ _ _ _ Hd Hne) as (fin & Hs & Hlv). cbn [sch_init sc_cur sc_off sc_w] in Hs, Hlv.
  destruct (piece_of b 0) as [p t] eqn:Hp.
  assert (Hnf2 : no_fuel_logged fin).
  { unfold no_fuel_logged. rewrite <- Hlv in Hnf. apply Forall_app in Hnf. tauto. }
  destruct (sst_is_stitch_stack _ _ _ (fun b k p t s' Hd Hn Hw0 => piece_exact ifuel max b k p t s' Hd Hn Hw0)
              _ _ _ _ _ _ Hs b [] p t eq_refl eq_refl Hp Hwf Hw Hnn Hnf2 Hne) as (offss & Hss & Hm & Hl).
  cbn [app] in Hss. exists offss. rsplit; auto.
  unfold oews. rewrite <- Hlv, map_app, Hm. reflexivity.
Qed.

Theorem stack_reader_stream_is_stitch_stack fuel b w out e r' :
  rdrains (shr_read fuel) (shr_init fuel b w) out e r' ->
  wf_buf b -> hs_wf (w_act w) -> w_act w <> [] ->
  e <> EFuel -> Forall (fun h => ~ In EFuel (oel h)) (lv (sr_w r')) ->
  exists offss,
    (let '(p, t) := piece_of b 0 in stitch_stack p t (map h_answers (w_act w))) = (out, e, offss) /\
    oews (sr_w r') = map oel (w_dn w) ++ zipo (map oel (w_act w)) offss /\
    length offss = length (w_act w).
Proof.
  intros Hd Hwf Hw Hnn Hne Hnf.
  destruct (shr_stitched _ _ _ _ _ Hd) as (fin & Hs & Hlv). cbn [shr_init sr_cur sr_off sr_w] in Hs, Hlv.
  destruct (piece_of b 0) as [p t] eqn:Hp.
  assert (Hnf2 : no_fuel_logged fin).
  { unfold no_fuel_logged. rewrite <- Hlv in Hnf. apply Forall_app in Hnf. tauto. }
  destruct (sst_is_stitch_stack _ _ _ (fun b k p t s' Hd Hn Hw0 => rpiece_exact fuel b k p t s' Hd Hn Hw0)
              _ _ _ _ _ _ Hs b [] p t eq_refl eq_refl Hp Hwf Hw Hnn Hnf2 Hne) as (offss & Hss & Hm & Hl).
  cbn [app] in Hss. exists offss. rsplit; auto.
  unfold oews. rewrite <- Hlv, map_app, Hm. reflexivity.
Qed.
