(** C15, model M2: the monitor [mon15_prog] is silent on the model's own
    output [run15_prog], for every input.  On the way: every successful
    method of every well-formed object returns the bytes the Buffer interface
    promises ([eval_spec]), and no handle derived from a buffer with a failed
    task without an error handler or CloneCopy in between reports [Ok]. *)
From BBS Require Import Common.Sx Buffer.Algebra Buffer.AlgebraProofs Buffer.AlgebraTask.
From BBS Require Import Buffer.MuxSeqMon Run.R15.
From Coq Require Import Arith Lia.

(** ---- successful results are the bytes the interface promises ---- *)
Section Spec.
  Variable D : list Z.
  Variable flt : fault.
  Notation eval := (eval D flt).

  Definition expected (m : meth) : list Z :=
    match m with
    | MSize => [Z.of_nat (length D)]
    | MWriter | MReader | MProto _ | MSlice _ => D
    | MChunks off => skipn off D
    | MReadAt len off => firstn len (skipn off D)
    | MDiscard => []
    end.

  Definition spec_ok (m : meth) (r : res) : Prop :=
    match r with
    | Ok b => b = expected m
    | Eof b => exists len off, m = MReadAt len off /\ b = firstn len (skipn off D) /\
                               (length (skipn off D) < len)%nat
    | _ => True
    end.

  Lemma spec_readat len off : spec_ok (MReadAt len off) (readat_pure D len off).
  Proof.
    unfold readat_pure. destruct (Nat.ltb (length (skipn off D)) len) eqn:E; cbn.
    - apply Nat.ltb_lt in E. exists len, off. split; [reflexivity|]. split; [|exact E].
      symmetry. apply firstn_all2. lia.
    - reflexivity.
  Qed.

  Lemma spec_plain m : spec_ok m (plain D m).
  Proof.
    destruct m; cbn [plain]; try reflexivity; try apply spec_readat;
      unfold dlen; destruct (Nat.ltb _ _); cbn; reflexivity.
  Qed.

  Lemma spec_to_res s m : spec_ok m (to_res s (expected m)).
  Proof. destruct s; cbn; reflexivity. Qed.

  Lemma spec_stream dg src m : good D dg src -> spec_ok m (streamkind D flt dg src m).
  Proof.
    intros [-> ->]. destruct m; cbn [streamkind size_of]; try reflexivity;
      try apply (spec_to_res _ MWriter); try apply (spec_to_res _ MReader).
    - destruct (validate _ _ _); cbn; try exact I. apply spec_readat.
    - destruct (Nat.ltb _ _); [exact I|apply (spec_to_res _ (MProto max))].
    - destruct (Nat.ltb _ _); [exact I|apply (spec_to_res _ (MSlice max))].
    - destruct (Nat.ltb _ _); [exact I|apply (spec_to_res _ (MChunks off))].
  Qed.

  Lemma spec_ok_chunks0 r m : spec_ok (MChunks 0) r ->
    match m with MWriter | MReader | MProto _ | MSlice _ => True | _ => False end -> spec_ok m r.
  Proof.
    destruct r; cbn; try (intros; exact I).
    - intros -> Hm. destruct m; try contradiction; reflexivity.
    - intros (l & o & X & _). discriminate.
  Qed.

  Theorem eval_spec n : wf D n -> forall m, spec_ok m (eval n m).
  Proof.
    induction n; intros Hw m.
    - apply spec_plain.
    - apply spec_plain.
    - destruct m; cbn; exact I || reflexivity.
    - apply spec_plain.
    - apply spec_stream; exact Hw.
    - apply spec_stream; exact Hw.
    - (* NCloned *)
      cbn in Hw. destruct Hw as [[-> ->] Hb]. pose proof (IHn Hb (MChunks 0)) as H0.
      destruct m; cbn [Algebra.eval size_of]; try reflexivity;
        try (apply spec_ok_chunks0; [exact H0|exact I]).
      + destruct (eval n (MChunks 0)) eqn:E; try exact I; [apply spec_readat|].
        cbn in H0. destruct H0 as (l & o & X & _). discriminate.
      + destruct (Nat.ltb _ _); [exact I|apply spec_ok_chunks0; [exact H0|exact I]].
      + destruct (Nat.ltb _ _); [exact I|apply spec_ok_chunks0; [exact H0|exact I]].
      + destruct (eval n (MChunks 0)) eqn:E; try exact I; [reflexivity|].
        cbn in H0. destruct H0 as (l & o & X & _). discriminate.
    - (* NTask *)
      cbn in Hw. destruct Hw as [[-> ->] Hb].
      assert (Hgen : forall m', spec_ok m' (match eval n m' with
                       | Ok x => if Z.eqb terr 0 then Ok x else Err terr | r => r end)).
      { intros m'. pose proof (IHn Hb m') as H. destruct (eval n m'); try exact H.
        destruct (Z.eqb terr 0); [exact H|exact I]. }
      destruct m; cbn [Algebra.eval size_of]; try apply Hgen; try reflexivity.
      destruct (eval n MDiscard); cbn; exact I || reflexivity.
    - (* NEH *)
      cbn in Hw. destruct Hw as [[-> ->] Hb].
      assert (Hgen : forall m', spec_ok m' (match eval n m' with Err c => Err (tr h c) | r => r end)).
      { intros m'. pose proof (IHn Hb m') as H. destruct (eval n m'); exact H || exact I. }
      destruct m; cbn [Algebra.eval size_of]; try apply Hgen; try reflexivity.
      + apply (spec_to_res _ MWriter).
      + destruct (Nat.ltb _ _); [exact I|apply (spec_to_res _ (MChunks off))].
      + pose proof (spec_to_res (validate (Some (dlen D)) (Some code_internal)
                       (map_err (tr h) (fst (ustream D flt n ReaderMode)))) MReader) as H.
        cbn [expected] in H. destruct (to_res _ D); try exact H.
        destruct (Z.eqb _ 0); [exact H|exact I].
      + apply IHn; exact Hb.
  Qed.
End Spec.

(** ---- the operations of an input, classified ---- *)

Inductive opc :=
| OStream (side : Z) (sm : sx) | OCopy (side max : Z) (sm : sx)
| OTask (terr : Z) | OEH (h : Z) | ONone.

Definition cls (op : sx) : opc :=
  match op with
  | L [A 0; A side; sm] => OStream side sm
  | L [A 1; A side; A max; sm] => OCopy side max sm
  | L [A 2; A terr] => OTask terr
  | L [A 3; A h] => OEH h
  | _ => ONone
  end.

Definition apply_op (p : prog) (i : nat) (o : opc) : prog :=
  match o with
  | OStream side sm => if Z.eqb side 0 then CloneStreamL p (dec_meth sm) else CloneStreamR p (dec_meth sm)
  | OCopy side max sm =>
      if Z.eqb side 0 then CloneCopyL p (Z.to_nat max) (dec_meth sm)
      else CloneCopyR p (Z.to_nat max) (dec_meth sm)
  | OTask terr => WithTask p i terr
  | OEH h => WithEH p h
  | ONone => p
  end.

Definition op_handle (i : nat) (o : opc) : list (nat * meth) :=
  match o with
  | OStream _ sm | OCopy _ _ sm => [(i, dec_meth sm)]
  | _ => []
  end.

Definition okop (o : sx) : bool :=
  match o with L (A 3 :: _) | L (A 1 :: _) => false | _ => true end.

Ltac crush_match :=
  repeat match goal with
         | |- context [match ?x with _ => _ end] => is_var x; destruct x; try reflexivity
         end.

Lemma dec_ops_cons p i op rest :
  dec_ops p i (op :: rest) = dec_ops (apply_op p i (cls op)) (S i) rest.
Proof.
  cbn [dec_ops]. f_equal. unfold cls, apply_op. crush_match.
Qed.

Lemma handle_meths_cons op rest i :
  handle_meths (op :: rest) i = op_handle i (cls op) ++ handle_meths rest (S i).
Proof.
  cbn [handle_meths]. unfold cls, op_handle. crush_match.
Qed.

Lemma ftb_cons op rest k :
  failing_task_before (op :: rest) (S k) =
  (match cls op with
   | OTask terr => negb (Z.eqb terr 0) && forallb okop (firstn k rest)
   | _ => false
   end) || failing_task_before rest k.
Proof.
  cbn [failing_task_before]. unfold cls. fold okop. crush_match.
Qed.

Lemma okop_cls o : okop o = true -> match cls o with OEH _ | OCopy _ _ _ => False | _ => True end.
Proof.
  unfold okop, cls. intros H.
  repeat match goal with
         | |- context [match ?x with _ => _ end] => is_var x; destruct x; try exact I; try discriminate
         end.
Qed.

Section Prog.
  Variable D : list Z.
  Variable f : fault.
  Notation build := (build D f true).
  Notation siblings := (siblings D f true).

  (** handles in observation order with their positions: siblings by op
      position, then the main handle *)
  Fixpoint J (p : prog) (i : nat) (ops : list sx) (m : meth) : list (nat * bres * meth) :=
    match ops with
    | [] => [(i, build p, m)]
    | op :: rest =>
        let p' := apply_op p i (cls op) in
        map (fun pm => (fst pm, build p', snd pm)) (op_handle i (cls op)) ++ J p' (S i) rest m
    end.

  Lemma J_meths m : forall ops p i,
    handle_meths ops i ++ [((i + length ops)%nat, m)] = map (fun t => (fst (fst t), snd t)) (J p i ops m).
  Proof.
    induction ops as [|op rest IH]; intros p i.
    - cbn. rewrite Nat.add_0_r. reflexivity.
    - rewrite handle_meths_cons. cbn [J length]. rewrite map_app, <- app_assoc.
      rewrite <- (IH (apply_op p i (cls op)) (S i)). rewrite Nat.add_succ_r. cbn [Nat.add].
      f_equal. destruct (cls op); reflexivity.
  Qed.

  Lemma siblings_apply p i o :
    siblings (apply_op p i o) =
    siblings p ++ map (fun pm => (build (apply_op p i o), snd pm)) (op_handle i o).
  Proof.
    destruct o; cbn [apply_op op_handle map]; try (rewrite app_nil_r; reflexivity);
      destruct (Z.eqb side 0); reflexivity.
  Qed.

  Lemma J_handles m : forall ops p i,
    siblings (dec_ops p i ops) ++ [(build (dec_ops p i ops), m)] =
    siblings p ++ map (fun t => (snd (fst t), snd t)) (J p i ops m).
  Proof.
    induction ops as [|op rest IH]; intros p i.
    - reflexivity.
    - rewrite dec_ops_cons, IH. cbn [J]. rewrite siblings_apply, map_app, <- app_assoc.
      f_equal. f_equal. rewrite !map_map. reflexivity.
  Qed.

  (** every handle is the object built by some program *)
  Lemma J_builds m : forall ops p i t, In t (J p i ops m) -> exists q, snd (fst t) = build q.
  Proof.
    induction ops as [|op rest IH]; intros p i t Hin; cbn [J] in Hin.
    - destruct Hin as [<-|[]]. exists p. reflexivity.
    - apply in_app_or in Hin. destruct Hin as [Hin|Hin]; [|eapply IH; exact Hin].
      apply in_map_iff in Hin. destruct Hin as (pm & <- & _). eexists. reflexivity.
  Qed.

  Lemma J_pos m : forall ops p i t, In t (J p i ops m) -> (i <= fst (fst t))%nat.
  Proof.
    induction ops as [|op rest IH]; intros p i t Hin; cbn [J] in Hin.
    - destruct Hin as [<-|[]]. cbn. lia.
    - apply in_app_or in Hin. destruct Hin as [Hin|Hin].
      + apply in_map_iff in Hin. destruct Hin as (pm & <- & Hpm). cbn.
        destruct (cls op); cbn in Hpm; try contradiction; destruct Hpm as [<-|[]]; cbn; lia.
      + pose proof (IH _ _ _ Hin). lia.
  Qed.

  Lemma base_kind_dec_ops : forall ops p i, base_kind (dec_ops p i ops) = base_kind p.
  Proof.
    induction ops as [|op rest IH]; intros p i; [reflexivity|].
    rewrite dec_ops_cons, IH. destruct (cls op); cbn; try reflexivity; destruct (Z.eqb side 0); reflexivity.
  Qed.

  (** ---- clause 6 ---- *)

  Definition bnever_ok (b : bres) : Prop := forall n, b = BNode n -> never_ok D f n.

  Lemma bnever_ok_apply p i o : bnever_ok (build p) ->
    match o with OEH _ => False | _ => True end -> bnever_ok (build (apply_op p i o)).
  Proof.
    intros H Ho n Hn. destruct o; try contradiction; cbn [apply_op] in Hn.
    - assert (E : build (if Z.eqb side 0 then CloneStreamL p (dec_meth sm) else CloneStreamR p (dec_meth sm))
                  = bbind (build p) (fun n => BNode (cloneStream true (needs_validation (dec_meth sm)) n)))
        by (destruct (Z.eqb side 0); reflexivity).
      rewrite E in Hn. destruct (build p) as [|n0]; [discriminate|]. cbn in Hn. inversion Hn.
      apply never_ok_cloneStream. apply H. reflexivity.
    - assert (E : build (if Z.eqb side 0 then CloneCopyL p (Z.to_nat max) (dec_meth sm)
                         else CloneCopyR p (Z.to_nat max) (dec_meth sm))
                  = bbind (build p) (cloneCopy D f true (Z.to_nat max)))
        by (destruct (Z.eqb side 0); reflexivity).
      rewrite E in Hn. destruct (build p) as [|n0]; [discriminate|]. cbn [bbind] in Hn.
      eapply never_ok_cloneCopy; [|exact Hn]. apply H. reflexivity.
    - cbn [Algebra.build] in Hn. destruct (build p) as [|n0]; [discriminate|]. cbn in Hn. inversion Hn.
      apply never_ok_withTask. apply H. reflexivity.
    - apply H. exact Hn.
  Qed.

  (** once the object never reports Ok, neither does any later handle as long
      as no error handler / CloneCopy op lies strictly between *)
  Lemma J_never_ok m : forall ops p i t, bnever_ok (build p) -> In t (J p i ops m) ->
    forallb okop (firstn (fst (fst t) - i) ops) = true -> bnever_ok (snd (fst t)).
  Proof.
    induction ops as [|op rest IH]; intros p i t Hp Hin Hok; cbn [J] in Hin.
    - destruct Hin as [<-|[]]. exact Hp.
    - apply in_app_or in Hin. destruct Hin as [Hin|Hin].
      + apply in_map_iff in Hin. destruct Hin as (pm & <- & Hpm). cbn [fst snd].
        apply bnever_ok_apply; [exact Hp|]. destruct (cls op); cbn in Hpm; try contradiction; exact I.
      + pose proof (J_pos _ _ _ _ _ Hin) as Hpos.
        replace (fst (fst t) - i)%nat with (S (fst (fst t) - S i)) in Hok by lia.
        cbn [firstn forallb] in Hok. apply andb_true_iff in Hok. destruct Hok as [Ho Hrest].
        apply (IH (apply_op p i (cls op)) (S i) t); [|exact Hin|exact Hrest].
        apply bnever_ok_apply; [exact Hp|]. pose proof (okop_cls op Ho). destruct (cls op); try contradiction; exact I.
  Qed.

  Lemma J_clause6 m : forall ops p i t, In t (J p i ops m) ->
    failing_task_before ops (fst (fst t) - i) = true -> bnever_ok (snd (fst t)).
  Proof.
    induction ops as [|op rest IH]; intros p i t Hin Hf; cbn [J] in Hin.
    - destruct (fst (fst t) - i)%nat; discriminate.
    - apply in_app_or in Hin. destruct Hin as [Hin|Hin].
      + apply in_map_iff in Hin. destruct Hin as (pm & <- & Hpm). exfalso.
        assert (fst pm = i) by (destruct (cls op); cbn in Hpm; try contradiction; destruct Hpm as [<-|[]]; reflexivity).
        cbn [fst] in Hf. rewrite H, Nat.sub_diag in Hf. discriminate.
      + pose proof (J_pos _ _ _ _ _ Hin) as Hpos.
        replace (fst (fst t) - i)%nat with (S (fst (fst t) - S i)) in Hf by lia.
        rewrite ftb_cons in Hf. apply orb_true_iff in Hf. destruct Hf as [Hf|Hf].
        * destruct (cls op) eqn:Ec; try discriminate.
          apply andb_true_iff in Hf. destruct Hf as [Hne Hok].
          apply (J_never_ok m rest (apply_op p i (OTask terr)) (S i) t); [|exact Hin|exact Hok].
          cbn [apply_op]. intros n Hn. cbn [Algebra.build] in Hn.
          destruct (build p) as [|n0]; [discriminate|]. cbn in Hn. inversion Hn.
          apply never_ok_withTask_failing. apply negb_true_iff, Z.eqb_neq in Hne. exact Hne.
        * eapply IH; [exact Hin|exact Hf].
  Qed.
End Prog.

(** ---- the theorem ---- *)

Lemma combine_map {A B C} (g1 : A -> B) (g2 : A -> C) l :
  combine (map g1 l) (map g2 l) = map (fun t => (g1 t, g2 t)) l.
Proof. induction l; cbn; [reflexivity|f_equal; assumption]. Qed.

Lemma existsb_map {A B} (g : A -> B) (h : B -> bool) l : existsb h (map g l) = existsb (fun x => h (g x)) l.
Proof. induction l; cbn; [reflexivity|f_equal; assumption]. Qed.

Lemma spec_bytes_ok D m r : spec_ok D m r -> spec_bytes D m (enc_res r) = true.
Proof.
  destruct r; cbn [enc_res spec_bytes]; try reflexivity.
  - intros ->. destruct m; cbn [expected]; apply sx_eqb_refl.
  - intros (len & off & -> & -> & Hlt). rewrite sx_eqb_refl. cbn. apply Nat.ltb_lt. exact Hlt.
Qed.

Theorem mon15_prog_silent inp : mon15_prog inp (run15_prog inp) = [].
Proof.
  unfold mon15_prog, run15_prog.
  set (D := data_of (sx_Zs (sx_nth inp 4))). set (f := dec_fault (sx_Z (sx_nth inp 3))).
  set (ktag := sx_Z (sx_nth inp 1)). set (ops := sx_list (sx_nth inp 5)).
  set (p0 := Base (dec_kind ktag (sx_Z (sx_nth inp 2)))). set (m := dec_meth (sx_nth inp 6)).
  rewrite (J_handles D f m ops p0 0).
  change (siblings D f true p0) with (@nil (bres * meth)). cbn [app].
  rewrite <- (Nat.add_0_l (length ops)). rewrite (J_meths D f m ops p0 0).
  set (JJ := J D f p0 0 ops m).
  unfold sx_nth. cbn [sx_list nth]. rewrite !map_map.
  rewrite combine_map.
  (* properties of every handle *)
  assert (HJ : forall t, In t JJ ->
            exists n, snd (fst t) = BNode n /\ wf D n /\ eval D f n (snd t) <> Panic).
  { intros t Hin. destruct (J_builds D f m ops p0 0 t Hin) as (q & ->). apply handle_ok. }
  assert (C3 : is_stream_clone ktag ops && negb (Z.eqb (Z.of_nat (closes D f true (dec_ops p0 0 ops))) 1) = false).
  { unfold is_stream_clone, closes. rewrite base_kind_dec_ops. cbn [base_kind p0].
    destruct (Z.eqb ktag 4) eqn:E4; [apply Z.eqb_eq in E4; rewrite E4; cbn; apply andb_false_r|].
    destruct (Z.eqb ktag 5) eqn:E5; [apply Z.eqb_eq in E5; rewrite E5; cbn; apply andb_false_r|].
    reflexivity. }
  rewrite !existsb_map.
  (* 1: no panic *)
  rewrite existsb_false_forall.
  2:{ intros t Hin. destruct (HJ t Hin) as (n & Hn & _ & Hnp).
      cbn [sx_list nth]. unfold run_handle. cbn [fst snd]. rewrite Hn.
      destruct (eval D f n (snd t)); try reflexivity. contradiction. }
  (* 2, 3 *)
  cbn [sx_bool sx_Z Z.eqb negb app andb of_nat]. rewrite C3.
  (* 4: the model always waits *)
  rewrite existsb_false_forall.
  2:{ intros t _. cbn. apply andb_false_r. }
  (* 5: bytes *)
  rewrite existsb_false_forall.
  2:{ intros t Hin. destruct (HJ t Hin) as (n & Hn & Hw & _).
      cbn [fst snd sx_list nth]. unfold run_handle. cbn [fst snd]. rewrite Hn.
      rewrite spec_bytes_ok; [reflexivity|]. apply eval_spec. exact Hw. }
  (* 6: failed task *)
  rewrite existsb_false_forall.
  2:{ intros t Hin. destruct (HJ t Hin) as (n & Hn & Hw & _).
      cbn [fst snd sx_list nth]. unfold run_handle. cbn [fst snd]. rewrite Hn.
      destruct (completing (snd t)) eqn:Ec; [|reflexivity].
      destruct (failing_task_before ops (fst (fst t))) eqn:Ef; [|apply andb_false_r].
      assert (Hnev : never_ok D f n).
      { apply (J_clause6 D f m ops p0 0 t Hin); [rewrite Nat.sub_0_r; exact Ef|exact Hn]. }
      assert (Hcm : AlgebraProofs.completing (snd t)).
      { unfold completing in Ec. split; intros X; rewrite X in Ec; discriminate. }
      pose proof (Hnev (snd t) Hcm) as Hno.
      destruct (eval D f n (snd t)); try reflexivity. exfalso. eapply Hno. reflexivity. }
  reflexivity.
Qed.

(** Both halves: the C15 monitor is silent on the model's own output. *)
Theorem mon15_silent_on_model inp :
  (sx_nth inp 0 = A 2 -> sx_list (sx_nth inp 3) <> [] /\ sx_Z (sx_nth inp 2) <> 99%Z) ->
  mon15 inp (run15 inp) = [].
Proof.
  intros H. unfold mon15, run15.
  destruct (sx_nth inp 0) as [z|l] eqn:E; [|reflexivity].
  destruct z as [|q|q]; try reflexivity.
  destruct q as [q|q|]; try reflexivity; [|apply mon15_prog_silent].
  destruct q; try reflexivity. destruct (H eq_refl) as [H1 H2]. apply mon15_mux_silent; assumption.
Qed.
