(** C09/C16 — streams of an arbitrary ChunkReader as relations, and basic
    lemmas on the byte-list helpers. *)
From Coq Require Import List ZArith NArith Bool Lia.
From BBS Require Import Buffer.Source.
Import ListNotations.
Open Scope N_scope.

Lemma lenN_app a b : lenN (a ++ b) = lenN a + lenN b.
Proof. unfold lenN. rewrite app_length. lia. Qed.
Lemma lenN_nil : lenN [] = 0. Proof. reflexivity. Qed.
Lemma lenN_zero l : lenN l = 0 -> l = [].
Proof. destruct l; [reflexivity|]. unfold lenN. cbn. lia. Qed.
Lemma lenN_cons x l : lenN (x :: l) = 1 + lenN l.
Proof. unfold lenN. cbn [length]. lia. Qed.

Lemma bytes_eqb_eq a b : bytes_eqb a b = true <-> a = b.
Proof.
  revert b. induction a as [|x a IH]; intros [|y b]; cbn.
  - split; reflexivity.
  - split; congruence.
  - split; congruence.
  - rewrite andb_true_iff, N.eqb_eq, IH. split; [intros [-> ->]; reflexivity|intros [= -> ->]; auto].
Qed.

Lemma is_nil_true l : is_nil l = true <-> l = [].
Proof. destruct l; cbn; split; congruence. Qed.

Lemma takeN_dropN n l : takeN n l ++ dropN n l = l.
Proof.
  revert n. induction l as [|x l IH]; intros n; cbn; [reflexivity|].
  destruct (n =? 0); [reflexivity|]. cbn. now rewrite IH.
Qed.
Lemma takeN_0 l : takeN 0 l = [].
Proof. destruct l; reflexivity. Qed.
Lemma dropN_0 l : dropN 0 l = l.
Proof. destruct l; reflexivity. Qed.
Lemma lenN_takeN n l : lenN (takeN n l) = N.min n (lenN l).
Proof.
  revert n. induction l as [|x l IH]; intros n; cbn [takeN].
  - rewrite lenN_nil. lia.
  - destruct (n =? 0) eqn:E.
    + apply N.eqb_eq in E. subst. rewrite lenN_nil. lia.
    + apply N.eqb_neq in E. rewrite !lenN_cons, IH. lia.
Qed.
Lemma takeN_all n l : lenN l <= n -> takeN n l = l.
Proof.
  revert n. induction l as [|x l IH]; intros n Hn; cbn [takeN]; [reflexivity|].
  rewrite lenN_cons in Hn. destruct (n =? 0) eqn:E; [apply N.eqb_eq in E; lia|].
  f_equal. apply IH. lia.
Qed.
Lemma dropN_all n l : lenN l <= n -> dropN n l = [].
Proof.
  intros Hn. pose proof (takeN_dropN n l) as E. rewrite (takeN_all _ _ Hn) in E.
  apply (app_inv_head l). now rewrite app_nil_r.
Qed.
Lemma dropN_app n a b : n <= lenN a -> dropN n (a ++ b) = dropN n a ++ b.
Proof.
  revert n. induction a as [|x a IH]; intros n Hn.
  - rewrite lenN_nil in Hn. assert (n = 0) by lia. subst. now rewrite dropN_0.
  - cbn [dropN app]. destruct (n =? 0) eqn:E; [reflexivity|]. apply N.eqb_neq in E.
    rewrite lenN_cons in Hn. apply IH. lia.
Qed.
Lemma dropN_app_ge n a b : lenN a <= n -> dropN n (a ++ b) = dropN (n - lenN a) b.
Proof.
  revert n. induction a as [|x a IH]; intros n Hn.
  - rewrite lenN_nil, N.sub_0_r. reflexivity.
  - cbn [dropN app]. rewrite lenN_cons in *. destruct (n =? 0) eqn:E; [apply N.eqb_eq in E; lia|].
    rewrite IH by lia. f_equal. lia.
Qed.
Lemma dropN_dropN n m l : dropN n (dropN m l) = dropN (m + n) l.
Proof.
  revert m. induction l as [|x l IH]; intros m; cbn.
  - destruct (dropN m []); reflexivity.
  - destruct (m =? 0) eqn:E.
    + apply N.eqb_eq in E. subst. cbn. reflexivity.
    + apply N.eqb_neq in E. rewrite IH. destruct (m + n =? 0) eqn:E2; [apply N.eqb_eq in E2; lia|].
      f_equal. lia.
Qed.

Section Streams.
  Variable S : Type.
  Variable rd : S -> (bytes * err) * S.

  (** some number of successful reads, concatenated *)
  Inductive pulls : S -> bytes -> S -> Prop :=
  | pulls_nil s : pulls s [] s
  | pulls_step s c s' bs s'' :
      rd s = ((c, ENone), s') -> pulls s' bs s'' -> pulls s (c ++ bs) s''.

  (** successful reads up to the first error [e] (io.EOF included) *)
  Inductive drains : S -> bytes -> err -> S -> Prop :=
  | drains_end s c e s' : rd s = ((c, e), s') -> e <> ENone -> drains s [] e s'
  | drains_step s c s' bs e s'' :
      rd s = ((c, ENone), s') -> drains s' bs e s'' -> drains s (c ++ bs) e s''.

  Lemma pulls_snoc s bs s' c s'' :
    pulls s bs s' -> rd s' = ((c, ENone), s'') -> pulls s (bs ++ c) s''.
  Proof.
    induction 1 as [s|s c0 s1 bs s2 Hr _ IH]; intros Hc.
    - cbn. rewrite <- (app_nil_r c). econstructor; [eassumption|constructor].
    - rewrite <- app_assoc. econstructor; [eassumption|]. now apply IH.
  Qed.

  Lemma pulls_trans s a s' b s'' : pulls s a s' -> pulls s' b s'' -> pulls s (a ++ b) s''.
  Proof.
    induction 1; intros Hb; [exact Hb|]. rewrite <- app_assoc. econstructor; eauto.
  Qed.

  Lemma pulls_drains s bs s' bs' e s'' :
    pulls s bs s' -> drains s' bs' e s'' -> drains s (bs ++ bs') e s''.
  Proof.
    induction 1; intros Hd; [exact Hd|]. rewrite <- app_assoc. econstructor; eauto.
  Qed.

  Lemma drains_det s b1 e1 s1 b2 e2 s2 :
    drains s b1 e1 s1 -> drains s b2 e2 s2 -> b1 = b2 /\ e1 = e2 /\ s1 = s2.
  Proof.
    intros H1. revert b2 e2 s2.
    induction H1 as [s c e s' Hr Hne|s c s' bs e s'' Hr _ IH]; intros b2 e2 s2 H2; inversion H2; subst.
    - rewrite Hr in H. inversion H; subst. auto.
    - rewrite Hr in H. inversion H; subst. congruence.
    - rewrite Hr in H. inversion H; subst. congruence.
    - rewrite Hr in H. inversion H; subst. destruct (IH _ _ _ H0) as (-> & -> & ->). auto.
  Qed.

  Lemma pulls_prefix_drains s bs s' full e s2 :
    pulls s bs s' -> drains s full e s2 -> exists rest, full = bs ++ rest /\ drains s' rest e s2.
  Proof.
    intros Hp. revert full. induction Hp as [s|s c s1 bs s' Hr _ IH]; intros full Hd.
    - exists full. auto.
    - inversion Hd; subst.
      + rewrite Hr in H. inversion H; subst. congruence.
      + rewrite Hr in H. inversion H; subst. destruct (IH _ H0) as (rest & -> & Hd').
        exists rest. rewrite app_assoc. auto.
  Qed.

  Lemma drains_not_none s bs e s' : drains s bs e s' -> e <> ENone.
  Proof. induction 1; auto. Qed.

  Lemma drain_drains fuel : forall out s out' e s',
    drain rd fuel out s = ((out', e), s') -> e <> EFuel ->
    exists bs, out' = out ++ bs /\ drains s bs e s'.
  Proof.
    induction fuel as [|f IH]; intros out s out' e s' Hd Hne; cbn in Hd.
    - inversion Hd; subst. congruence.
    - destruct (rd s) as [[c e0] s1] eqn:Hr.
      destruct e0; try (inversion Hd; subst; exists []; rewrite app_nil_r; split; [reflexivity|];
                        eapply drains_end; [eassumption|congruence]).
      destruct (IH _ _ _ _ _ Hd Hne) as (bs & -> & Hds).
      exists (c ++ bs). rewrite app_assoc. split; [reflexivity|]. econstructor; eassumption.
  Qed.
End Streams.
Arguments pulls {S}. Arguments drains {S}.
