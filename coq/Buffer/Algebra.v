(** C15, model M2: decorator programs over buffers (definitions only).

    A deep embedding of compositions of CloneStream / CloneCopy / WithTask /
    WithErrorHandler of unbounded depth, with the Go constructors of
    pkg/blobstore/buffer modelled field by field: every CAS-kind node carries
    its own [dg] (digest: here its size) and [src] (Source: here its error
    code) fields, exactly as the Go structs do.  A method that needs a digest
    on a node whose field is absent is [Panic] (Go: [d.value[0]] on the zero
    Digest; nil [dataIntegrityCallback] on the zero Source).

    [fixed] selects what [casBufferWithBackgroundTask.decorateBuffer] copies:
    [true] = base, digest, source, task (repaired code, the behaviour the
    property demands); [false] = base and task only (the pinned tree,
    finding F1).

    Data: every base object holds the same valid byte string [D]; stream
    sources may be faulty ([FCorrupt]: same size, wrong checksum; [FIo c]:
    the source fails with code [c] instead of reporting end-of-file).
    Observations are results of complete consumptions: bytes, a gRPC code, or
    Panic. *)
From Coq Require Import List ZArith NArith Bool.
Import ListNotations.
Open Scope Z_scope.

Inductive kind := KBytes | KProto | KErr (c : Z) | KReaderAt | KReader | KChunk.
Inductive fault := FNone | FCorrupt | FIo (c : Z).

Inductive meth :=
| MSize | MWriter | MReadAt (len off : nat) | MProto (max : nat) | MSlice (max : nat)
| MChunks (off : nat) | MReader | MDiscard.

(** Outcome of a method: [Eof] is ReadAt's "(n, io.EOF)". *)
Inductive res := Panic | Ok (bytes : list Z) | Eof (bytes : list Z) | Err (c : Z).

(** Status of a fully read stream: data (valid or not) up to end-of-file, or
    an error. *)
Inductive sres := SPanic | SData (valid : bool) | SErr (c : Z).

Inductive smode := ChunkMode | ReaderMode.

(** Buffer objects, one constructor per Go type, fields as in the Go struct. *)
Inductive node :=
| NBytes                                              (* validatedByteSliceBuffer *)
| NProto                                              (* protoBuffer *)
| NErr (c : Z)                                        (* errorBuffer *)
| NReaderAt                                           (* validatedReaderBuffer *)
| NReader (dg : option nat) (src : option Z)          (* casReaderBuffer *)
| NChunk (dg : option nat) (src : option Z)           (* casChunkReaderBuffer *)
| NCloned (base : node) (dg : option nat) (src : option Z) (nv : bool)
                                                      (* casClonedBuffer; nv = needsValidation
                                                         registered by the other consumers *)
| NTask (base : node) (dg : option nat) (src : option Z) (id : nat) (terr : Z)
                                                      (* casBufferWithBackgroundTask *)
| NEH (base : node) (h : Z) (dg : option nat) (src : option Z).
                                                      (* casErrorHandlingBuffer *)

Inductive bres := BPanic | BNode (n : node).

(** Decorator programs.  The [L]/[R] constructors select one half of a clone;
    the other half (the "sibling") is consumed by method [sib] in its own
    goroutine. *)
Inductive prog :=
| Base (k : kind)
| CloneStreamL (p : prog) (sib : meth)
| CloneStreamR (p : prog) (sib : meth)
| CloneCopyL (p : prog) (max : nat) (sib : meth)
| CloneCopyR (p : prog) (max : nat) (sib : meth)
| WithTask (p : prog) (id : nat) (terr : Z)
| WithEH (p : prog) (h : Z).

(** gRPC codes used by the buffer layer itself. *)
Definition code_invalid_argument : Z := 3.
Definition code_internal : Z := 13.

Section Sem.
  Variable D : list Z.        (* contents of the object *)
  Variable flt : fault.       (* behaviour of a stream source *)
  Variable fixed : bool.      (* decorateBuffer copies digest and source *)

  Definition dlen : nat := length D.

  (** The error handler [h]: OnError(err) = (nil, status h), or err itself
      when h = 0. *)
  Definition tr (h c : Z) : Z := if Z.eqb h 0 then c else h.

  Definition node_dg (n : node) : option nat :=
    match n with
    | NReader dg _ | NChunk dg _ | NCloned _ dg _ _ | NTask _ dg _ _ _ | NEH _ _ dg _ => dg
    | _ => None
    end.
  Definition node_src (n : node) : option Z :=
    match n with
    | NReader _ s | NChunk _ s | NCloned _ _ s _ | NTask _ _ s _ _ | NEH _ _ _ s => s
    | _ => None
    end.

  Definition size_of (dg : option nat) : res :=
    match dg with None => Panic | Some sz => Ok [Z.of_nat sz] end.

  Definition srcres : sres :=
    match flt with FNone => SData true | FCorrupt => SData false | FIo c => SErr c end.

  (** newCASValidatingReader / newCASValidatingChunkReader over a stream. *)
  Definition validate (dg : option nat) (src : option Z) (s : sres) : sres :=
    match dg, src with
    | Some _, Some code => match s with SData false => SErr code | _ => s end
    | _, _ => SPanic
    end.

  Definition to_res (s : sres) (bytes : list Z) : res :=
    match s with SPanic => Panic | SErr c => Err c | SData _ => Ok bytes end.
  Definition of_res (r : res) : sres :=
    match r with Panic => SPanic | Err c => SErr c | Ok _ | Eof _ => SData true end.
  Definition map_err (f : Z -> Z) (s : sres) : sres :=
    match s with SErr c => SErr (f c) | _ => s end.

  Definition readat_pure (len off : nat) : res :=
    let rest := skipn off D in
    if Nat.ltb (length rest) len then Eof rest else Ok (firstn len rest).

  (** Methods of the trivially cloneable kinds (byte slice, proto, ReaderAt). *)
  Definition plain (m : meth) : res :=
    match m with
    | MSize => Ok [Z.of_nat dlen]
    | MWriter | MReader => Ok D
    | MReadAt len off => readat_pure len off
    | MProto max | MSlice max => if Nat.ltb max dlen then Err code_invalid_argument else Ok D
    | MChunks off => if Nat.ltb dlen off then Err code_invalid_argument else Ok (skipn off D)
    | MDiscard => Ok []
    end.

  (** casReaderBuffer / casChunkReaderBuffer. *)
  Definition streamkind (dg : option nat) (src : option Z) (m : meth) : res :=
    match m with
    | MSize => size_of dg
    | MDiscard => Ok []
    | MWriter | MReader => to_res (validate dg src srcres) D
    | MReadAt len off =>
        match validate dg src srcres with SData _ => readat_pure len off | s => to_res s [] end
    | MProto max | MSlice max =>
        match dg with
        | None => Panic
        | Some sz => if Nat.ltb max sz then Err code_invalid_argument
                     else to_res (validate dg src srcres) D
        end
    | MChunks off =>
        match dg with
        | None => Panic
        | Some sz => if Nat.ltb sz off then Err code_invalid_argument
                     else to_res (validate dg src srcres) (skipn off D)
        end
    end.

  (** [eval n m]: the Buffer method [m] applied to [n] and consumed completely.
      [ustream n md]: toUnvalidatedChunkReader(0) / toUnvalidatedReader(0) read
      to the end: stream status and the error returned by Close. *)
  Fixpoint eval (n : node) (m : meth) {struct n} : res :=
    match n with
    | NBytes | NProto | NReaderAt => plain m
    | NErr c => match m with MDiscard => Ok [] | _ => Err c end
    | NReader dg src | NChunk dg src => streamkind dg src m
    | NCloned base dg src _ =>
        match m with
        | MSize => size_of dg
        | MDiscard => Ok []
        | MWriter | MReader => eval base (MChunks 0)
        | MReadAt len off =>
            match eval base (MChunks 0) with Ok _ => readat_pure len off | r => r end
        | MProto max | MSlice max =>
            match dg with
            | None => Panic
            | Some sz => if Nat.ltb max sz then Err code_invalid_argument else eval base (MChunks 0)
            end
        | MChunks off =>
            match eval base (MChunks 0) with Ok _ => Ok (skipn off D) | r => r end
        end
    | NTask base dg src _ terr =>
        match m with
        | MSize => size_of dg
        | MDiscard => match eval base MDiscard with Panic => Panic | _ => Ok [] end
        | _ => match eval base m with
               | Ok x => if Z.eqb terr 0 then Ok x else Err terr
               | r => r
               end
        end
    | NEH base h dg src =>
        match m with
        | MSize => size_of dg
        | MDiscard => eval base MDiscard
        | MProto _ | MSlice _ | MReadAt _ _ =>
            match eval base m with Err c => Err (tr h c) | r => r end
        | MWriter => to_res (validate dg src (map_err (tr h) (fst (ustream base ChunkMode)))) D
        | MChunks off =>
            match dg with
            | None => Panic
            | Some sz =>
                if Nat.ltb sz off then Err code_invalid_argument
                else to_res (validate dg src (map_err (tr h) (fst (ustream base ChunkMode)))) (skipn off D)
            end
        | MReader =>
            let sc := ustream base ReaderMode in
            match to_res (validate dg src (map_err (tr h) (fst sc))) D with
            | Ok x => if Z.eqb (snd sc) 0 then Ok x else Err (snd sc)
            | r => r
            end
        end
    end
  with ustream (n : node) (md : smode) {struct n} : sres * Z :=
    match n with
    | NBytes | NProto | NReaderAt => (SData true, 0)
    | NErr c => (SErr c, 0)
    | NReader _ _ | NChunk _ _ => (srcres, 0)
    | NCloned base _ _ nv =>
        if nv then (of_res (eval base (MChunks 0)), 0) else (fst (ustream base ChunkMode), 0)
    | NTask base _ _ _ terr =>
        let sc := ustream base md in
        match md with
        | ChunkMode =>
            (match fst sc with SData v => if Z.eqb terr 0 then SData v else SErr terr | s => s end, 0)
        | ReaderMode => (fst sc, if Z.eqb (snd sc) 0 then terr else snd sc)
        end
    | NEH base h _ _ => let sc := ustream base md in (map_err (tr h) (fst sc), snd sc)
    end.

  (** Background tasks a successful completing method has waited for. *)
  Fixpoint tasks (n : node) : list nat :=
    match n with
    | NCloned b _ _ _ | NEH b _ _ _ => tasks b
    | NTask b _ _ id _ => id :: tasks b
    | _ => []
    end.
  Fixpoint waits (n : node) (m : meth) {struct n} : list nat :=
    match n with
    | NCloned b _ _ _ =>
        match m with MSize | MDiscard => [] | _ => waits b (MChunks 0) end
    | NEH b _ _ _ => match m with MSize => [] | _ => waits b m end
    | NTask b _ _ id _ =>
        match m with MSize => [] | _ => id :: waits b m end
    | _ => []
    end.

  (** ---- constructors (the Go methods that build new buffers) ---- *)

  Definition decorate (dg : option nat) (src : option Z) (id : nat) (terr : Z) (r : node) : node :=
    if fixed then NTask r dg src id terr else NTask r None None id terr.

  (** CloneStream; [sv] = the sibling consumer needs validation.  Both halves
      are the same object. *)
  Fixpoint cloneStream (sv : bool) (n : node) : node :=
    match n with
    | NBytes | NProto | NErr _ | NReaderAt => n
    | NReader dg src | NChunk dg src | NEH _ _ dg src => NCloned n dg src sv
    | NCloned b dg src nv => NCloned b dg src (nv || sv)
    | NTask b dg src id terr => decorate dg src id terr (cloneStream sv b)
    end.

  Fixpoint cloneCopy (max : nat) (n : node) : bres :=
    match n with
    | NBytes | NProto | NErr _ | NReaderAt => BNode n
    | NTask b dg src id terr =>
        match cloneCopy max b with
        | BNode r => BNode (decorate dg src id terr r)
        | BPanic => BPanic
        end
    | _ => match eval n (MSlice max) with
           | Ok _ | Eof _ => BNode NBytes
           | Err c => BNode (NErr c)
           | Panic => BPanic
           end
    end.

  Definition withTask (id : nat) (terr : Z) (n : node) : node :=
    match n with
    | NBytes | NProto | NReaderAt => if Z.eqb terr 0 then n else NErr terr
    | NErr _ => n
    | _ => NTask n (node_dg n) (node_src n) id terr
    end.

  Definition withEH (h : Z) (n : node) : node :=
    match n with
    | NBytes | NProto | NReaderAt => n
    | NErr c => NErr (tr h c)
    | _ => NEH n h (node_dg n) (node_src n)
    end.

  Definition base_node (k : kind) : node :=
    match k with
    | KBytes => NBytes
    | KProto => NProto
    | KErr c => NErr c
    | KReaderAt => NReaderAt
    | KReader => NReader (Some dlen) (Some code_internal)
    | KChunk => NChunk (Some dlen) (Some code_internal)
    end.

  (** A handle that is only asked for its size is released with Discard. *)
  Definition needs_validation (m : meth) : bool :=
    match m with MDiscard | MSize => false | _ => true end.

  Definition bbind (b : bres) (f : node -> bres) : bres :=
    match b with BPanic => BPanic | BNode n => f n end.

  Fixpoint build (p : prog) : bres :=
    match p with
    | Base k => BNode (base_node k)
    | CloneStreamL q sib | CloneStreamR q sib =>
        bbind (build q) (fun n => BNode (cloneStream (needs_validation sib) n))
    | CloneCopyL q max _ | CloneCopyR q max _ => bbind (build q) (cloneCopy max)
    | WithTask q id terr => bbind (build q) (fun n => BNode (withTask id terr n))
    | WithEH q h => bbind (build q) (fun n => BNode (withEH h n))
    end.

  Definition run (p : prog) (m : meth) : res :=
    match build p with BPanic => Panic | BNode n => eval n m end.

  (** Handles handed to sibling consumers, innermost clone first, each with
      its method: the sibling of a clone is the same object as the kept half. *)
  Fixpoint siblings (p : prog) : list (bres * meth) :=
    match p with
    | Base _ => []
    | CloneStreamL q sib | CloneStreamR q sib => siblings q ++ [(build p, sib)]
    | CloneCopyL q _ sib | CloneCopyR q _ sib => siblings q ++ [(build p, sib)]
    | WithTask q _ _ | WithEH q _ => siblings q
    end.

  (** How often the underlying ReadCloser / ChunkReader / ReadAtCloser is
      closed when every handle is consumed.  A ReaderAt-backed buffer whose
      synchronously executed task fails is replaced by an error buffer without
      being released (validatedReaderBuffer.WithTask). *)
  Fixpoint readerat_dropped (p : prog) : bool :=
    match p with
    | Base _ => false
    | CloneStreamL q _ | CloneStreamR q _ | CloneCopyL q _ _ | CloneCopyR q _ _ | WithEH q _ =>
        readerat_dropped q
    | WithTask q _ terr =>
        readerat_dropped q ||
        match build q with BNode NReaderAt => negb (Z.eqb terr 0) | _ => false end
    end.
  Fixpoint base_kind (p : prog) : kind :=
    match p with
    | Base k => k
    | CloneStreamL q _ | CloneStreamR q _ | CloneCopyL q _ _ | CloneCopyR q _ _
    | WithTask q _ _ | WithEH q _ => base_kind q
    end.
  Definition closes (p : prog) : nat :=
    match base_kind p with
    | KBytes | KProto | KErr _ => 0
    | KReaderAt => if readerat_dropped p then 0 else 1
    | KReader | KChunk => 1
    end.

  (** Well-formedness: every digest-bearing node carries the base object's
      digest and source. *)
  Definition good (dg : option nat) (src : option Z) : Prop :=
    dg = Some dlen /\ src = Some code_internal.
  Fixpoint wf (n : node) : Prop :=
    match n with
    | NBytes | NProto | NErr _ | NReaderAt => True
    | NReader dg src | NChunk dg src => good dg src
    | NCloned b dg src _ | NTask b dg src _ _ | NEH b _ dg src => good dg src /\ wf b
    end.
End Sem.
