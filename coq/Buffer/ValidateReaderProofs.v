(** C09 — casValidatingReader over ANY underlying io.Reader whose remaining
    content is described by a function [cont] (what is still to come, and how
    it ends): completion implies validity, withholding, callback soundness,
    stickiness. *)
From Coq Require Import List ZArith NArith Bool Lia.
From BBS Require Import Buffer.Source Buffer.Validate Buffer.StreamProofs Buffer.ValidateProofs.
Import ListNotations.
Open Scope N_scope.

(** streams of an io.Reader: reads with arbitrary buffer sizes; data that
    comes together with the final error counts as received *)
Section ReaderStreams.
  Variable S : Type.
  Variable rd : N -> S -> (bytes * err) * S.
  Inductive rpulls : S -> bytes -> S -> Prop :=
  | rpulls_nil s : rpulls s [] s
  | rpulls_step cap s c s' bs s'' :
      rd cap s = ((c, ENone), s') -> rpulls s' bs s'' -> rpulls s (c ++ bs) s''.
  Inductive rdrains : S -> bytes -> err -> S -> Prop :=
  | rdrains_end cap s c e s' : rd cap s = ((c, e), s') -> e <> ENone -> rdrains s c e s'
  | rdrains_step cap s c s' bs e s'' :
      rd cap s = ((c, ENone), s') -> rdrains s' bs e s'' -> rdrains s (c ++ bs) e s''.
End ReaderStreams.
Arguments rpulls {S}. Arguments rdrains {S}.

Section VrProofs.
  Variable H : bytes -> bytes.
  Variable cfg : vcfg.
  Variable S : Type.
  Variable rd : N -> S -> (bytes * err) * S.
  Variable fuel : nat.

  (** what the underlying reader still has to deliver and how that ends *)
  Variable cont : S -> bytes * err.
  Hypothesis rd_spec : forall cap s c e s', rd cap s = ((c, e), s') ->
    match e with
    | ENone => cont s = (c ++ fst (cont s'), snd (cont s'))
    | _ => cont s = (c, e)
    end.

  Notation vrd := (vr_read H cfg rd fuel).

  Definition valid_reader (s0 : S) : Prop :=
    snd (cont s0) = EEof /\ lenN (fst (cont s0)) = g_size cfg /\ g_hash cfg = H (fst (cont s0)).
  Definition rcb_ok (s0 : S) (cbs : list bool) : Prop :=
    (In true cbs -> valid_reader s0) /\ (In false cbs -> ~ valid_reader s0).

  Lemma rcb_ok_true s0 cbs : rcb_ok s0 cbs -> valid_reader s0 -> rcb_ok s0 (cbs ++ [true]).
  Proof.
    intros [Ht Hf] Hv. split; intros Hin; [exact Hv|].
    apply in_app_or in Hin. destruct Hin as [Hin|[Hin|[]]]; [auto|discriminate].
  Qed.
  Lemma rcb_ok_false s0 cbs : rcb_ok s0 cbs -> ~ valid_reader s0 -> rcb_ok s0 (cbs ++ [false]).
  Proof.
    intros [Ht Hf] Hv. split; intros Hin; [|exact Hv].
    apply in_app_or in Hin. destruct Hin as [Hin|[Hin|[]]]; [auto|discriminate].
  Qed.

  Hypothesis rd_no_unexp : forall cap s c e s', rd cap s = ((c, e), s') -> e <> EUnexp.

  (** io.ReadFull(r, p[:1]) *)
  Lemma read_full_one f : forall s fin fe s',
    read_full_loop rd f 1 [] s = ((fin, fe), s') ->
    (exists rest, fst (cont s) = fin ++ rest) /\
    match fe with
    | ENone => fin <> []
    | EEof => fin = [] /\ cont s = ([], EEof)
    | EUnexp => False
    | _ => True
    end.
  Proof.
    induction f as [|f IH]; intros s fin fe s' Hr; cbn [read_full_loop] in Hr;
      change (1 <=? lenN []) with false in Hr; cbn iota in Hr.
    - inv Hr. split; [eexists; cbn [app]; reflexivity|exact I].
    - change (1 - lenN []) with 1 in Hr.
      destruct (rd 1 s) as [[c e] s1] eqn:Hrd. pose proof (rd_spec _ _ _ _ _ Hrd) as Hs.
      pose proof (rd_no_unexp _ _ _ _ _ Hrd) as Hnu. cbn [app] in Hr.
      destruct c as [|x c].
      + (* nothing read *)
        change (1 <=? lenN []) with false in Hr. cbn [is_nil] in Hr.
        destruct e; try congruence.
        * destruct (IH _ _ _ _ Hr) as ((rest & Hrest) & Hm). split.
          -- exists rest. rewrite Hs. cbn. exact Hrest.
          -- destruct fe; auto. destruct Hm as (-> & Hc). split; [reflexivity|]. rewrite Hs, Hc. reflexivity.
        * inv Hr. split; [exists []; rewrite Hs; reflexivity|auto].
        * inv Hr. split; [exists []; rewrite Hs; reflexivity|exact I].
        * inv Hr. split; [exists []; rewrite Hs; reflexivity|exact I].
      + assert (Hle : (1 <=? lenN (x :: c)) = true) by (apply N.leb_le; rewrite lenN_cons; lia).
        assert (Hpre : exists rest, fst (cont s) = (x :: c) ++ rest).
        { destruct e; rewrite Hs; cbn [fst]; try (exists []; now rewrite app_nil_r). eexists; reflexivity. }
        destruct e.
        * destruct f; cbn [read_full_loop] in Hr; rewrite Hle in Hr; inv Hr; (split; [exact Hpre|discriminate]).
        * rewrite Hle in Hr. inv Hr. split; [exact Hpre|discriminate].
        * congruence.
        * rewrite Hle in Hr. inv Hr. split; [exact Hpre|discriminate].
        * rewrite Hle in Hr. inv Hr. split; [exact Hpre|discriminate].
  Qed.

  Definition RInv (s0 : S) (st : vst S) (out : bytes) : Prop :=
    rcb_ok s0 (v_cbs st) /\
    match v_err st with
    | ENone => fst (cont s0) = out ++ fst (cont (v_u st)) /\ snd (cont s0) = snd (cont (v_u st)) /\
               v_acc st = out /\ v_rem st + lenN out = g_size cfg /\ (0 < v_rem st \/ out = [])
    | EEof => cont s0 = (out, EEof) /\ lenN out = g_size cfg /\ g_hash cfg = H out
    | _ => lenN out < g_size cfg \/ out = []
    end.

  Lemma RInv_init u0 : RInv u0 (vinit cfg u0) [].
  Proof.
    split; [split; intros []|]. cbn. rsplit; auto. unfold lenN; cbn; lia.
  Qed.

  Lemma too_long_invalid_r s0 pre rest : fst (cont s0) = pre ++ rest -> g_size cfg < lenN pre -> ~ valid_reader s0.
  Proof. intros E Hl (_ & Hs & _). rewrite E, lenN_app in Hs. lia. Qed.

  Lemma vr_compare_spec s0 (st1 : vst S) e' st2 :
    vr_compare H cfg st1 = (e', st2) -> cont s0 = (v_acc st1, EEof) -> lenN (v_acc st1) = g_size cfg ->
    (e' = ENone /\ st2 = st1 /\ valid_reader s0) \/
    (e' = ECode (g_code cfg) /\ st2 = v_notify st1 false /\ ~ valid_reader s0).
  Proof.
    unfold vr_compare. intros Hx Hc Hl.
    destruct (bytes_eqb (g_hash cfg) (H (v_acc st1))) eqn:Hh.
    - inv Hx. left. apply bytes_eqb_eq in Hh. rsplit; auto. unfold valid_reader. rewrite Hc. auto.
    - unfold v_fail in Hx. inv Hx. right. rsplit; auto.
      intros (_ & _ & Hh'). rewrite Hc in Hh'. cbn in Hh'. apply bytes_eqb_eq in Hh'. congruence.
  Qed.

  Lemma vr_finish s0 (st1 : vst S) d x (st' : vst S) out :
    (let '(e', st2) := vr_compare H cfg st1 in
     match e' with ENone => ((d, EEof), v_notify st2 true) | _ => (([], e'), st2) end) = (x, st') ->
    cont s0 = (v_acc st1, EEof) -> lenN (v_acc st1) = g_size cfg -> rcb_ok s0 (v_cbs st1) ->
    v_acc st1 = out ++ d -> (lenN out < g_size cfg \/ out = []) ->
    RInv s0 (v_set_err st' (snd x)) (out ++ fst x) /\
    (x = (d, EEof) \/ x = ([], ECode (g_code cfg))).
  Proof.
    intros Hx Hc Hl Hcb Hacc Hb.
    destruct (vr_compare H cfg st1) as [e' st2] eqn:Hcmp.
    destruct (vr_compare_spec _ _ _ _ Hcmp Hc Hl) as [(-> & -> & Hv)|(-> & -> & Hnv)]; inv Hx.
    - split; [|left; reflexivity]. cbn [fst snd]. split; [cbn; apply rcb_ok_true; assumption|].
      cbn. rewrite <- Hacc. destruct Hv as (_ & _ & Hh). rewrite Hc in Hh. auto.
    - split; [|right; reflexivity]. cbn [fst snd]. rewrite app_nil_r.
      split; [cbn; apply rcb_ok_false; assumption|]. cbn. assumption.
  Qed.

  Lemma vr_read_step s0 st out cap data e st' :
    RInv s0 st out -> vrd cap st = ((data, e), st') ->
    RInv s0 st' (out ++ data) /\ v_err st' = e /\ (e = ENone -> 0 < v_rem st') /\
    (e <> ENone -> e <> EEof -> data = []).
  Proof.
    intros [Hc Hi] Hr. unfold vr_read in Hr.
    destruct (v_err st) eqn:Herr;
      try (inv Hr; rewrite app_nil_r; rsplit; auto; try congruence; split; [assumption|]; rewrite Herr; assumption).
    destruct Hi as (Hfst & Hsnd & <- & Hl & Hpos).
    assert (Hbound : lenN (v_acc st) < g_size cfg \/ v_acc st = []) by (destruct Hpos; [left; lia|right; assumption]).
    unfold vr_do_read in Hr.
    destruct (rd cap (v_u st)) as [[d re] u'] eqn:Hrd. pose proof (rd_spec _ _ _ _ _ Hrd) as Hs.
    pose proof (rd_no_unexp _ _ _ _ _ Hrd) as Hnu.
    cbn [v_set_u v_rem v_u v_acc v_err v_cbs] in Hr.
    assert (Hpre : exists rest, fst (cont s0) = (v_acc st ++ d) ++ rest).
    { destruct re; rewrite Hfst, Hs; cbn [fst]; try (exists []; now rewrite app_nil_r).
      exists (fst (cont u')). now rewrite app_assoc. }
    destruct Hpre as (rest0 & Hpre).
    assert (Hfailed : forall c0, RInv s0 (v_set_err (v_notify (mkVst u' (v_rem st) (v_acc st) (v_err st) (v_cbs st)) false) (ECode c0))
                                      (v_acc st ++ []) -> True) by auto. clear Hfailed.
    destruct (v_rem st <? lenN d) eqn:Hbig.
    { apply N.ltb_lt in Hbig. cbn in Hr. inv Hr. cbn. rewrite app_nil_r. rsplit; auto; try congruence.
      split; [|cbn; assumption]. apply rcb_ok_false; [assumption|].
      eapply too_long_invalid_r; [exact Hpre|]. rewrite lenN_app. lia. }
    apply N.ltb_ge in Hbig.
    assert (Hl1 : v_rem st - lenN d + lenN (v_acc st ++ d) = g_size cfg) by (rewrite lenN_app; lia).
    Ltac norm Hr := cbn [v_set_u v_rem v_u v_acc v_err v_cbs] in Hr.
    destruct re; try congruence; norm Hr.
    - (* more may follow *)
      destruct (v_rem st - lenN d =? 0) eqn:Hz.
      + apply N.eqb_eq in Hz.
        destruct (read_full rd fuel 1 u') as [[fin fe] u''] eqn:Hrf. unfold read_full in Hrf.
        destruct (read_full_one _ _ _ _ _ Hrf) as ((rest & Hrest) & Hm). norm Hr.
        destruct fe; try contradiction; norm Hr.
        * (* a byte too many *)
          rewrite Hz in Hr. replace (0 <? lenN fin) with true in Hr.
          2:{ symmetry. apply N.ltb_lt. destruct fin; [congruence|rewrite lenN_cons; lia]. }
          cbn in Hr. inv Hr. cbn. rewrite app_nil_r. rsplit; auto; try congruence.
          split; [|cbn; assumption]. apply rcb_ok_false; [assumption|].
          eapply (too_long_invalid_r s0 ((v_acc st ++ d) ++ fin) rest).
          -- rewrite Hfst, Hs. cbn [fst]. rewrite Hrest, !app_assoc. reflexivity.
          -- rewrite lenN_app. destruct fin; [congruence|rewrite lenN_cons; lia].
        * destruct Hm as (-> & Hc0). rewrite Hz in Hr. change (0 <? lenN []) with false in Hr. cbn iota in Hr.
          assert (Hcont : cont s0 = (v_acc st ++ d, EEof)).
          { destruct (cont s0) as [c0 t0] eqn:Ec. cbn [fst snd] in *.
            rewrite Hs in Hsnd, Hfst. cbn [fst snd] in *. rewrite Hc0 in *. cbn [fst snd] in *.
            rewrite app_nil_r in Hfst. rewrite Hfst, Hsnd. reflexivity. }
          match type of Hr with (let '(_, _) := ?X in _) = _ => destruct X as [[dd ee] sst] eqn:Hx end.
          assert (Hlen : lenN (v_acc st ++ d) = g_size cfg) by lia.
          destruct (vr_finish s0 _ d (dd, ee) sst (v_acc st) Hx Hcont Hlen Hc eq_refl Hbound) as (HI & Hcase).
          inv Hr. cbn [fst snd] in HI. rsplit; auto.
          -- intros ->. destruct Hcase as [Hcase|Hcase]; inv Hcase.
          -- intros Hn1 Hn2. destruct Hcase as [Hcase|Hcase]; inv Hcase; congruence.
        * inv Hr. cbn. rewrite app_nil_r. rsplit; auto; try congruence. split; [assumption|]. cbn. assumption.
        * inv Hr. cbn. rewrite app_nil_r. rsplit; auto; try congruence. split; [assumption|]. cbn. assumption.
      + apply N.eqb_neq in Hz. inv Hr. cbn. rsplit; auto; try congruence; try lia.
        split; [assumption|]. cbn. rsplit; auto.
        * rewrite Hfst, Hs. cbn [fst]. now rewrite app_assoc.
        * rewrite Hsnd, Hs. reflexivity.
        * left. lia.
    - (* EOF together with the data *)
      assert (Hcont : cont s0 = (v_acc st ++ d, EEof)).
      { destruct (cont s0) as [c0 t0] eqn:Ec. cbn [fst snd] in *. rewrite Hs in Hsnd, Hfst. cbn in Hsnd, Hfst.
        rewrite Hfst, Hsnd. reflexivity. }
      destruct (v_rem st - lenN d =? 0) eqn:Hz; cbn [negb] in Hr.
      + apply N.eqb_eq in Hz.
        match type of Hr with (let '(_, _) := ?X in _) = _ => destruct X as [[dd ee] sst] eqn:Hx end.
        assert (Hlen : lenN (v_acc st ++ d) = g_size cfg) by lia.
        destruct (vr_finish s0 _ d (dd, ee) sst (v_acc st) Hx Hcont Hlen Hc eq_refl Hbound) as (HI & Hcase).
        inv Hr. cbn [fst snd] in HI. rsplit; auto.
        * intros ->. destruct Hcase as [Hcase|Hcase]; inv Hcase.
        * intros Hn1 Hn2. destruct Hcase as [Hcase|Hcase]; inv Hcase; congruence.
      + apply N.eqb_neq in Hz. unfold v_fail in Hr. inv Hr. cbn. rewrite app_nil_r. rsplit; auto; try congruence.
        split; [|cbn; assumption]. apply rcb_ok_false; [assumption|].
        intros (_ & Hs' & _). rewrite Hcont in Hs'. cbn in Hs'. lia.
    - inv Hr. cbn. rewrite app_nil_r. rsplit; auto; try congruence. split; [assumption|]. cbn. assumption.
    - inv Hr. cbn. rewrite app_nil_r. rsplit; auto; try congruence. split; [assumption|]. cbn. assumption.
  Qed.

  Lemma vr_rpulls s0 st out bs st' :
    RInv s0 st out -> rpulls vrd st bs st' -> RInv s0 st' (out ++ bs).
  Proof.
    intros Hi Hp. revert out Hi. induction Hp as [st|cap st c st1 bs st2 Hr _ IH]; intros out Hi.
    - now rewrite app_nil_r.
    - rewrite app_assoc. apply IH. exact (proj1 (vr_read_step _ _ _ _ _ _ _ Hi Hr)).
  Qed.
  Lemma vr_rdrains s0 st out bs e st' :
    RInv s0 st out -> rdrains vrd st bs e st' -> RInv s0 st' (out ++ bs) /\ v_err st' = e.
  Proof.
    intros Hi Hd. revert out Hi. induction Hd as [cap st c e st1 Hr Hne|cap st c st1 bs e st2 Hr _ IH]; intros out Hi.
    - destruct (vr_read_step _ _ _ _ _ _ _ Hi Hr) as (Hi' & He & _). auto.
    - rewrite app_assoc. apply IH. exact (proj1 (vr_read_step _ _ _ _ _ _ _ Hi Hr)).
  Qed.

  (** a consumer holding [size] bytes (or more) of a non-empty blob: the stream is valid and that is it *)
  Lemma RInv_full s0 st out :
    RInv s0 st out -> g_size cfg <= lenN out -> 0 < g_size cfg ->
    cont s0 = (out, EEof) /\ lenN out = g_size cfg /\ g_hash cfg = H out.
  Proof.
    intros [_ Hi] Hl Hpos. destruct (v_err st).
    - destruct Hi as (_ & _ & _ & Hrem & [Hr| ->]); [lia|unfold lenN in Hl; cbn in Hl; lia].
    - exact Hi.
    - destruct Hi as [Hi| ->]; [lia|unfold lenN in Hl; cbn in Hl; lia].
    - destruct Hi as [Hi| ->]; [lia|unfold lenN in Hl; cbn in Hl; lia].
    - destruct Hi as [Hi| ->]; [lia|unfold lenN in Hl; cbn in Hl; lia].
  Qed.

  Theorem vr_complete_implies_valid u0 out st' :
    rdrains vrd (vinit cfg u0) out EEof st' ->
    cont u0 = (out, EEof) /\ lenN out = g_size cfg /\ g_hash cfg = H out.
  Proof.
    intros Hd. destruct (vr_rdrains _ _ _ _ _ _ (RInv_init u0) Hd) as [[_ Hi] He]. rewrite He in Hi. exact Hi.
  Qed.

  Theorem vr_withhold u0 out e st' :
    rpulls vrd (vinit cfg u0) out st' \/ rdrains vrd (vinit cfg u0) out e st' ->
    ~ valid_reader u0 -> lenN out < g_size cfg \/ out = [].
  Proof.
    intros Hp Hnv.
    assert (Hi : RInv u0 st' out).
    { destruct Hp as [Hp|Hp]; [exact (vr_rpulls _ _ _ _ _ (RInv_init u0) Hp)|exact (proj1 (vr_rdrains _ _ _ _ _ _ (RInv_init u0) Hp))]. }
    destruct Hi as [_ Hi]. destruct (v_err st'); try tauto.
    - destruct Hi as (_ & _ & _ & Hl & [Hpos|Hn]); [left; lia|right; assumption].
    - exfalso. apply Hnv. destruct Hi as (Hc & Hl & Hh). unfold valid_reader. rewrite Hc. auto.
  Qed.

  Theorem vr_callback_sound u0 out e st' :
    rpulls vrd (vinit cfg u0) out st' \/ rdrains vrd (vinit cfg u0) out e st' ->
    (In true (v_cbs st') -> valid_reader u0) /\ (In false (v_cbs st') -> ~ valid_reader u0).
  Proof.
    intros [Hp|Hp]; [exact (proj1 (vr_rpulls _ _ _ _ _ (RInv_init u0) Hp))|exact (proj1 (proj1 (vr_rdrains _ _ _ _ _ _ (RInv_init u0) Hp)))].
  Qed.

  Theorem vr_sticky st cap d e st' :
    vrd cap st = ((d, e), st') -> e <> ENone -> forall cap', vrd cap' st' = (([], e), st').
  Proof.
    intros Hr Hne cap'. unfold vr_read in Hr. destruct (v_err st) eqn:Herr.
    - destruct (vr_do_read H cfg rd fuel cap st) as [[d1 e1] st1]. inv Hr.
      unfold vr_read. cbn. destruct e; try congruence; reflexivity.
    - inv Hr. unfold vr_read. now rewrite Herr.
    - inv Hr. unfold vr_read. now rewrite Herr.
    - inv Hr. unfold vr_read. now rewrite Herr.
    - inv Hr. unfold vr_read. now rewrite Herr.
  Qed.

  (** io.ReadFull over the validated reader keeps the invariant *)
  Lemma read_full_vr s0 pre : forall f want got st res e st',
    RInv s0 st (pre ++ got) -> read_full_loop vrd f want got st = ((res, e), st') ->
    RInv s0 st' (pre ++ res) /\ (e = ENone -> want <= lenN res).
  Proof.
    induction f as [|f IH]; intros want got st res e st' Hi Hr; cbn [read_full_loop] in Hr;
      destruct (want <=? lenN got) eqn:Hw; try (inv Hr; split; [assumption|intros _; now apply N.leb_le]).
    - inv Hr. split; [assumption|discriminate].
    - destruct (vrd (want - lenN got) st) as [[c e0] s1] eqn:Hv.
      destruct (vr_read_step _ _ _ _ _ _ _ Hi Hv) as (Hi1 & _). rewrite <- app_assoc in Hi1.
      destruct e0; try (destruct (want <=? lenN (got ++ c)) eqn:Hw2;
                        [inv Hr; split; [assumption|intros _; now apply N.leb_le]|]).
      + eapply IH; eassumption.
      + destruct (is_nil (got ++ c)); inv Hr; (split; [assumption|discriminate]).
      + inv Hr. split; [assumption|discriminate].
      + inv Hr. split; [assumption|discriminate].
      + inv Hr. split; [assumption|discriminate].
  Qed.

  (** ** io.CopyN(io.Discard), io.ReadFull and io.Copy around the validated reader *)
  Hypothesis rd_cap : forall cap s c e s', rd cap s = ((c, e), s') -> lenN c <= cap.

  Lemma vr_read_shape cap st d e st' :
    vrd cap st = ((d, e), st') -> v_err st <> EUnexp -> lenN d <= cap /\ e <> EUnexp.
  Proof.
    unfold vr_read, vr_do_read. intros Hr Hnu.
    assert (Hnil : lenN [] <= cap) by (unfold lenN; cbn; lia).
    destruct (v_err st); try (inv Hr; split; [assumption|congruence]).
    destruct (rd cap (v_u st)) as [[data re] u'] eqn:Hrd.
    pose proof (rd_cap _ _ _ _ _ Hrd) as Hc. pose proof (rd_no_unexp _ _ _ _ _ Hrd) as Hn.
    cbn [v_set_u v_rem v_u v_acc v_err v_cbs] in Hr.
    destruct (v_rem st <? lenN data); [cbn in Hr; inv Hr; split; [assumption|congruence]|].
    destruct re; cbn [v_rem v_u] in Hr; try congruence.
    - destruct (v_rem st - lenN data =? 0).
      + destruct (read_full rd fuel 1 u') as [[fin fe] u''].
        destruct fe; cbn in Hr;
          try (destruct (_ <? lenN fin); [inv Hr; split; [assumption|congruence]|];
               unfold vr_compare in Hr; cbn in Hr; destruct (bytes_eqb _ _); inv Hr; split; (assumption || congruence));
          inv Hr; split; (assumption || congruence).
      + inv Hr; split; [assumption|congruence].
    - cbn in Hr. destruct (negb _); [inv Hr; split; [assumption|congruence]|].
      unfold vr_compare in Hr. cbn in Hr. destruct (bytes_eqb _ _); inv Hr; split; (assumption || congruence).
    - inv Hr; split; [assumption|congruence].
    - inv Hr; split; [assumption|congruence].
  Qed.

  Definition RInv2 (s0 : S) (st : vst S) (out : bytes) : Prop := RInv s0 st out /\ v_err st <> EUnexp.
  Lemma RInv2_init u0 : RInv2 u0 (vinit cfg u0) [].
  Proof. split; [apply RInv_init|cbn; congruence]. Qed.
  Lemma vr_step2 s0 st out cap d e st' :
    RInv2 s0 st out -> vrd cap st = ((d, e), st') ->
    RInv2 s0 st' (out ++ d) /\ v_err st' = e /\ lenN d <= cap /\ e <> EUnexp /\
    (e <> ENone -> e <> EEof -> d = []).
  Proof.
    intros [Hi Hn] Hr. destruct (vr_read_step _ _ _ _ _ _ _ Hi Hr) as (Hi' & He & _ & Hd).
    destruct (vr_read_shape _ _ _ _ _ Hr Hn) as (Hc & Hne). rsplit; auto. split; [exact Hi'|congruence].
  Qed.

  Lemma copy_n_vr s0 : forall f left st e st' pre,
    RInv2 s0 st pre -> copy_n_loop vrd f left st = (e, st') ->
    exists D, RInv2 s0 st' (pre ++ D) /\ (e = ENone -> lenN D = left) /\
              (e = EEof -> lenN D < left /\ v_err st' = EEof).
  Proof.
    induction f as [|f IH]; intros left st e st' pre Hi Hr; cbn [copy_n_loop] in Hr; destruct (left =? 0) eqn:E0;
      try (apply N.eqb_eq in E0; subst; inv Hr; exists []; rewrite app_nil_r; rsplit; auto; congruence).
    - inv Hr. exists []. rewrite app_nil_r. rsplit; auto; congruence.
    - apply N.eqb_neq in E0.
      destruct (vrd (N.min discard_buf left) st) as [[c e0] s1] eqn:Hv.
      destruct (vr_step2 _ _ _ _ _ _ _ Hi Hv) as (Hi1 & He1 & Hcap & Hnu & Hd).
      destruct e0; try congruence.
      + destruct (IH _ _ _ _ _ Hi1 Hr) as (D & HiD & Hok & Heof). exists (c ++ D). rewrite app_assoc.
        rsplit; auto.
        * intros He. rewrite lenN_app, (Hok He). lia.
        * intros He. destruct (Heof He) as (Hlt & Hv'). rewrite lenN_app. split; [lia|assumption].
      + destruct (left - lenN c =? 0) eqn:Ez; inv Hr; exists c; rsplit; auto; try congruence.
        all: intros _; first [apply N.eqb_eq in Ez; lia | apply N.eqb_neq in Ez; split; [lia|assumption]].
      + rewrite (Hd ltac:(congruence) ltac:(congruence)) in *. rewrite lenN_nil, N.sub_0_r in Hr.
        apply N.eqb_neq in E0. destruct (left =? 0) eqn:E1; [apply N.eqb_eq in E1; lia|].
        inv Hr. exists []. rsplit; auto; congruence.
      + rewrite (Hd ltac:(congruence) ltac:(congruence)) in *. rewrite lenN_nil, N.sub_0_r in Hr.
        apply N.eqb_neq in E0. destruct (left =? 0) eqn:E1; [apply N.eqb_eq in E1; lia|].
        inv Hr. exists []. rsplit; auto; congruence.
  Qed.

  Lemma read_full_vr2 s0 pre : forall f want got st res e st',
    RInv2 s0 st (pre ++ got) -> lenN got <= want ->
    read_full_loop vrd f want got st = ((res, e), st') ->
    RInv2 s0 st' (pre ++ res) /\ (e = ENone -> lenN res = want) /\
    (e = EEof \/ e = EUnexp -> v_err st' = EEof /\ lenN res < want).
  Proof.
    induction f as [|f IH]; intros want got st res e st' Hi Hg Hr; cbn [read_full_loop] in Hr;
      destruct (want <=? lenN got) eqn:Hw;
      try (apply N.leb_le in Hw; inv Hr; rsplit; auto; [intros _; lia|intros [?|?]; congruence]).
    - inv Hr. rsplit; auto; [congruence|intros [?|?]; congruence].
    - apply N.leb_gt in Hw.
      destruct (vrd (want - lenN got) st) as [[c e0] s1] eqn:Hv.
      destruct (vr_step2 _ _ _ _ _ _ _ Hi Hv) as (Hi1 & He1 & Hcap & Hnu & Hd). rewrite <- app_assoc in Hi1.
      assert (Hg1 : lenN (got ++ c) <= want) by (rewrite lenN_app; lia).
      destruct e0; try congruence.
      + eapply IH; eassumption.
      + destruct (want <=? lenN (got ++ c)) eqn:Hw2.
        * apply N.leb_le in Hw2. inv Hr. rsplit; auto; [intros _; lia|intros [?|?]; congruence].
        * apply N.leb_gt in Hw2. destruct (is_nil (got ++ c)); inv Hr; (rsplit; auto; congruence).
      + rewrite (Hd ltac:(congruence) ltac:(congruence)) in *. rewrite app_nil_r in *.
        replace (want <=? lenN got) with false in Hr by (symmetry; apply N.leb_gt; lia).
        inv Hr. rsplit; auto; [congruence|intros [?|?]; congruence].
      + rewrite (Hd ltac:(congruence) ltac:(congruence)) in *. rewrite app_nil_r in *.
        replace (want <=? lenN got) with false in Hr by (symmetry; apply N.leb_gt; lia).
        inv Hr. rsplit; auto; [congruence|intros [?|?]; congruence].
  Qed.

  Lemma copy_vr s0 cap : forall f w st w' e' st' pre,
    RInv2 s0 st pre -> copy_loop vrd f cap w st = ((w', e'), st') ->
    exists R, w' = w ++ R /\ RInv2 s0 st' (pre ++ R) /\ (e' = ENone -> v_err st' = EEof).
  Proof.
    induction f as [|f IH]; intros w st w' e' st' pre Hi Hr; cbn [copy_loop] in Hr.
    - inv Hr. exists []. rewrite !app_nil_r. rsplit; auto. congruence.
    - destruct (vrd cap st) as [[c e0] s1] eqn:Hv.
      destruct (vr_step2 _ _ _ _ _ _ _ Hi Hv) as (Hi1 & He1 & _ & _ & _).
      destruct e0; try (inv Hr; exists c; rsplit; auto; congruence).
      destruct (IH _ _ _ _ _ _ Hi1 Hr) as (R & -> & HiR & He). exists (c ++ R). rewrite !app_assoc. rsplit; auto.
  Qed.

  (** a state in which the validated reader has reported io.EOF *)
  Lemma RInv2_eof s0 st out :
    RInv2 s0 st out -> v_err st = EEof -> cont s0 = (out, EEof) /\ lenN out = g_size cfg /\ g_hash cfg = H out.
  Proof. intros [[_ Hi] _] He. rewrite He in Hi. exact Hi. Qed.
End VrProofs.
Arguments valid_reader H cfg {S}.
