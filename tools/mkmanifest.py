#!/usr/bin/env python3
"""Regenerates MANIFEST.json from manifest.d/Cxx.json ({"text":..., "note":...}) (run after adding a property).
Properties not claimed go into manifest.d/NOT_APPLICABLE.json ({"Cxx": "reason"})."""
import json, os
ROOT = os.path.normpath(os.path.join(os.path.dirname(os.path.abspath(__file__)), ".."))
BASE = "for m in $(cat /w/out/gomods.txt); do MF=$(cd /repo/$m && . /w/out/goenv.sh && gomodflag); (cd /repo/$m && go test $MF -json -vet=off -count=1 -timeout 25m ./...); done"
TECH = "machine-checked proof in Rocq (Coq 8.16.1) over an executable model + extraction-based correspondence check against the Go code"
T = {}
for f in sorted(__import__("glob").glob(os.path.join(ROOT, "manifest.d", "C*.json"))):
    d = json.load(open(f))
    T[os.path.basename(f)[:-5]] = (d["text"], d["note"])
NA = {}
if os.path.exists(os.path.join(ROOT, "manifest.d", "NOT_APPLICABLE.json")):
    NA = json.load(open(os.path.join(ROOT, "manifest.d", "NOT_APPLICABLE.json")))
def main():
    props = sorted(T)
    m = dict(version=1, setup_cmd="bin/setup",
      hooks=dict(guard="verif", enable="the harness is built with -tags verif against /repo's working tree; no source hooks exist (source_commits is empty)", baseline_off_cmd=BASE, source_commits=[], add_only=True),
      engines=[dict(name="coq-model-plus-correspondence", path="bin/check", serves_properties=props,
                    kind_free_text="Rocq/Coq 8.16.1 theorems over hand-written executable models (constants regenerated from source); extracted models and monitors judged against the Go implementation by a differential harness")],
      checks=[], notes="See DESIGN.md. KNOWN_FINDINGS lists fixed/known findings.",
      not_applicable=[dict(property_id=k, reason=v) for k, v in sorted(NA.items())])
    for p in props:
        m["checks"].append(dict(property_id=p, quick_cmd="bin/check %s quick" % p, thorough_cmd="bin/check %s thorough" % p,
           evidence_file="evidence/%s.json" % p, replay_cmd_template="bin/check %s --replay {path}" % p, engine="coq-model-plus-correspondence",
           level_claimed=dict(category="proof", text=T[p][0], design_ref="DESIGN.md section 5 (%s)" % p), level_note=T[p][1], technique=TECH))
    json.dump(m, open(os.path.join(ROOT, "MANIFEST.json"), "w"), indent=1)
main()
