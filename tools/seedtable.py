#!/usr/bin/env python3
"""Regenerates section 9 of DESIGN.md (between the markers) from seeded/*/meta.json."""
import glob, json, os, re
ROOT = os.path.normpath(os.path.join(os.path.dirname(os.path.abspath(__file__)), ".."))
rows = []
for f in sorted(glob.glob(os.path.join(ROOT, "seeded", "*", "meta.json"))):
    m = json.load(open(f))
    d = os.path.dirname(f)
    what = m.get("summary", "")
    if not what:
        rep = open(os.path.join(d, "SEED_REPORT.md")).read() if os.path.exists(os.path.join(d, "SEED_REPORT.md")) else ""
        what = " ".join(rep.split())[:0]
    how = []
    for r in m["ran"]:
        p = r["check"].split()[0]
        if r["exit"] == 1:
            sigs = [s[0].replace("# signature=", "") for s in r["replays"].values() if s]
            nofail = any("no-failing-input-found" in l for l in r["lines"])
            how.append("%s: %s" % (p, "DIFF/proof only (no-failing-input-found)" if nofail and not sigs else "monitor " + ", ".join(sorted(set(sigs)))[:120]))
        else:
            how.append("%s: **missed**" % p)
    rows.append("| %s | %s | %s | %s | %s |" % (m["id"], m.get("where", ""), m.get("needs", ""), "yes" if m["confirmed"] else "no", "; ".join(how) + ((" — " + m["followup"]) if m.get("followup") else "")))
table = "\n".join(["| id | change (file: function) | needs, to manifest | confirmed (demo fails with / passes without; builds; baseline tests pass) | quick check result on the changed tree |",
                   "|----|----|----|----|----|"] + rows)
p = os.path.join(ROOT, "DESIGN.md")
s = open(p).read()
block = "<!-- SEEDTABLE BEGIN -->\n" + table + "\n<!-- SEEDTABLE END -->"
if "<!-- SEEDTABLE BEGIN -->" in s:
    s = re.sub(r"<!-- SEEDTABLE BEGIN -->.*?<!-- SEEDTABLE END -->", lambda _: block, s, flags=re.S)
else:
    s = s.replace("## 10. Alarms raised by the machinery itself", "## 9. Seeded breaking changes and which checks catch them\n\nEach change was written by a fresh sub-agent that was given only the text of one property and its own\nscratch worktree of bb-storage (nothing from `/verif`), asked for a realistic change that breaks the property,\nstill compiles, still passes the runnable tests, and needs something specific to manifest, with a demonstration\nprogram.  Each was confirmed by `tools/seedtest.py` (demo FAIL with / PASS without the change; build; baseline\ntests) and the property's quick check was run against the changed tree (`VERIF_REPO=<worktree>`; none of these\nchanges was ever applied to or committed in `/repo`).  Patch, demonstration, report and `meta.json` are in\n`seeded/<id>/`.\n\n" + block + "\n\n## 10. Alarms raised by the machinery itself", 1)
open(p, "w").write(s)
print(table)
