#!/usr/bin/env python3
"""tools/c03hyps.py [-n N] [-seed S] [-tier quick|thorough]

Evaluates the store-level hypotheses of the C03 monitor-vs-model theorems (Props/C03.v:
mon03_silent_on_accepted_partial2, mon03_obligations_sound_chain) on observations of the REAL code:
generates N cases with the harness (out/harness, built by bin/setup / bin/check), turns inputs and
observations into Coq terms and lets Coq compute, per case,
    is_marker, replay03 = [], u_obs, r_obs, forallb all_restored_h, mon03 = [].
Prints the number of cases on which each fails (expected: 0 everywhere on the unchanged tree).
Needs the compiled development (coq/**/*.vo).  ~25 s per 100 cases.
"""
import sys, os, re, subprocess, tempfile, argparse

VERIF = os.path.dirname(os.path.dirname(os.path.abspath(__file__)))

def parse(s):
    toks = re.findall(r'\(|\)|-?\d+', s)
    pos = 0
    def p():
        nonlocal pos
        t = toks[pos]; pos += 1
        if t == '(':
            l = []
            while toks[pos] != ')':
                l.append(p())
            pos += 1
            return l
        return int(t)
    return p()

def coq(x):
    if isinstance(x, int):
        return "A (%d)" % x if x < 0 else "A %d" % x
    return "L [" + "; ".join(coq(y) for y in x) + "]"

def main():
    ap = argparse.ArgumentParser()
    ap.add_argument("-n", type=int, default=200)
    ap.add_argument("-seed", type=int, default=4242)
    ap.add_argument("-tier", default="quick")
    a = ap.parse_args()
    env = dict(os.environ, GOFLAGS="-mod=mod", GOPROXY="off", GOSUMDB="off", GOTOOLCHAIN="local")
    with tempfile.TemporaryDirectory() as d:
        out = os.path.join(d, "cases.txt")
        subprocess.run([os.path.join(VERIF, "out", "harness"), "-prop", "C03", "-out", out, "-tier", a.tier,
                        "-seed", str(a.seed), "-n", str(a.n)], cwd=VERIF, env=env, check=True,
                       stdout=subprocess.DEVNULL, stderr=subprocess.DEVNULL, timeout=3600)
        lines = [l for l in open(out).read().split("\n") if l.strip()]
        items = []
        for l in lines:
            f = l.split("\t")
            items.append("(" + coq(parse(f[0])) + ", " + coq(parse(f[1])) + ")")
        v = ["From BBS Require Import Common.Sx Run.R03 Run.R03MonAck Run.R03MonObs Run.R03MonInherit Run.R03MonCopies Run.R03MonReadback.",
             "Open Scope Z_scope.",
             "Definition cases : list (sx * sx) := [", ";\n".join(items), "].",
             "Definition cnt (f : sx -> sx -> bool) : nat := length (filter (fun c => negb (f (fst c) (snd c))) cases).",
             "Eval vm_compute in (length cases, cnt (fun i o => negb (is_marker o)),",
             "  cnt (fun i o => match replay03 i o with [] => true | _ => false end), cnt u_obs, cnt r_obs,",
             "  cnt (fun i o => forallb all_restored_h (sx_list o)), cnt (fun i o => match mon03 i o with [] => true | _ => false end))."]
        vf = os.path.join(d, "C03Hyps.v")
        open(vf, "w").write("\n".join(v))
        r = subprocess.run(["coqc", "-q", "-Q", os.path.join(VERIF, "coq"), "BBS", "-Q", d, "Tmp", vf],
                           capture_output=True, text=True, timeout=7200)
        txt = r.stdout + r.stderr
        m = re.search(r"=\s*\(([^)]*)\)", txt.replace("%nat", ""))
        if not m:
            print(txt[-2000:]); sys.exit(2)
        vals = [int(x) for x in m.group(1).replace("\n", " ").split(",")]
        names = ["cases", "marker (panic/hang)", "replay03 <> []", "u_obs false", "r_obs false", "all_restored false", "mon03 <> []"]
        for n_, v_ in zip(names, vals):
            print("%-22s %d" % (n_, v_))
        sys.exit(0 if all(x == 0 for x in vals[1:]) else 1)

if __name__ == "__main__":
    main()
