#!/bin/bash
# tools/seedrecheck_par.sh [N]: regression run of all kept seeded changes, N trees in parallel.
# Run from a BUILT tree (after bin/setup).  Copies the tree N-1 times under $SEED_TMP (default /var/tmp),
# runs tools/seedrecheck.py on a share of the seeds in each, merges the results into seeded/RECHECK.json.
set -u
N=${1:-4}
TMP=${SEED_TMP:-/var/tmp}
HERE=$(cd "$(dirname "$0")/.." && pwd)
ids=($(ls "$HERE/seeded" | while read d; do [ -f "$HERE/seeded/$d/patch.diff" ] && echo "$d"; done | sort))
rm -f "$HERE/seeded/RECHECK.json"
pids=()
for k in $(seq 0 $((N-1))); do
  if [ "$k" = 0 ]; then T="$HERE"; else T="$TMP/seedrc-$$-$k"; rm -rf "$T"; cp -a "$HERE" "$T"; rm -rf "$T/.git"; rm -f "$T/seeded/RECHECK.json"; fi
  share=(); i=0
  for s in "${ids[@]}"; do [ $((i % N)) = "$k" ] && share+=("$s"); i=$((i+1)); done
  ( cd "$T" && python3 tools/seedrecheck.py "${share[@]}" > "$TMP/seedrc-$$-$k.log" 2>&1 ) &
  pids+=($!)
done
for p in "${pids[@]}"; do wait "$p"; done
python3 - "$HERE" "$TMP" "$$" "$N" <<'PY'
import json, sys, os
here, tmp, pid, n = sys.argv[1], sys.argv[2], sys.argv[3], int(sys.argv[4])
res = {}
for k in range(n):
    t = here if k == 0 else os.path.join(tmp, "seedrc-%s-%d" % (pid, k))
    try:
        res.update(json.load(open(os.path.join(t, "seeded", "RECHECK.json"))))
    except Exception as e:
        print("no results from tree", k, e)
json.dump(res, open(os.path.join(here, "seeded", "RECHECK.json"), "w"), indent=1, sort_keys=True)
missed = [s for s, e in res.items() if "error" in e or not any(v.get("exit") == 1 for v in e.values())]
print("seeds rechecked: %d, not caught by any of their checks: %s" % (len(res), missed or "none"))
PY
cat "$TMP"/seedrc-$$-*.log | grep " exit " | sort
for k in $(seq 1 $((N-1))); do rm -rf "$TMP/seedrc-$$-$k"; done
