#!/usr/bin/env python3
"""tools/seedtest.py <seed-id> <worktree> <prop> [<prop>...]

Confirms a seeded breaking change produced in a scratch worktree of /repo and runs our checks
against it (through VERIF_REPO, so /repo itself is not touched while other work uses it):
  1. extracts the source change (git diff HEAD, without cmd/seeddemo and SEED_REPORT.md) to seeded/<id>/patch.diff,
     copies the demonstration and the report;
  2. with the change: go build, the runnable baseline tests, demo must FAIL; without it: demo must PASS;
  3. runs `bin/check <prop> quick` for every listed property against the changed tree and records
     exit code and VIOLATION lines in seeded/<id>/meta.json.
"""
import json, os, shutil, subprocess, sys, time
VERIF = os.path.normpath(os.path.join(os.path.dirname(os.path.abspath(__file__)), ".."))
sid, wt, props = sys.argv[1], sys.argv[2], sys.argv[3:]
env = dict(os.environ, GOFLAGS="-mod=mod", GOPROXY="off", GOSUMDB="off", GOTOOLCHAIN="local",
           PATH="/opt/veriftools/go1.26.8/bin:" + os.environ["PATH"])
out = os.path.join(VERIF, "seeded", sid)
os.makedirs(out, exist_ok=True)


def run(cmd, cwd=wt, timeout=1800, e=env):
    p = subprocess.run(cmd, cwd=cwd, env=e, shell=isinstance(cmd, str), stdout=subprocess.PIPE, stderr=subprocess.STDOUT, text=True, timeout=timeout)
    return p.returncode, p.stdout


rc, patch = run("git diff HEAD -- . ':!cmd/seeddemo' ':!SEED_REPORT.md'")
open(os.path.join(out, "patch.diff"), "w").write(patch)
for src, dst in [("cmd/seeddemo/main.go", "demo_main.go"), ("SEED_REPORT.md", "SEED_REPORT.md")]:
    if os.path.exists(os.path.join(wt, src)):
        shutil.copyfile(os.path.join(wt, src), os.path.join(out, dst))
old = {}
try:
    old = json.load(open(os.path.join(out, "meta.json")))
except Exception:
    pass
meta = dict(id=sid, properties_targeted=props, ran=[], patch_lines=len([l for l in patch.split("\n") if l.startswith(("+", "-")) and not l.startswith(("+++", "---"))]))
rc, o = run("go build ./pkg/... ./cmd/seeddemo/")
meta["build_with_change"] = rc == 0
rc, o = run("go test -vet=off -count=1 ./pkg/blockdevice/... ./pkg/eviction/... ./pkg/filesystem/... ./pkg/random/... ./pkg/zstd/... 2>&1 | grep -E '^(--- FAIL|FAIL|ok)'")
fails = [l for l in o.split("\n") if l.startswith("--- FAIL") and "TestLocalDirectoryIsWritable" not in l]
meta["baseline_tests_pass_with_change"] = not fails
meta["baseline_output"] = o.strip().split("\n")[-8:]
rc1, o1 = run("go run ./cmd/seeddemo", timeout=600)
meta["demo_with_change"] = dict(exit=rc1, tail=o1.strip().split("\n")[-3:])
run("git apply -R " + os.path.join(out, "patch.diff"))
rc0, o0 = run("go run ./cmd/seeddemo", timeout=600)
meta["demo_without_change"] = dict(exit=rc0, tail=o0.strip().split("\n")[-3:])
run("git apply " + os.path.join(out, "patch.diff"))
meta["confirmed"] = bool(meta["build_with_change"] and meta["baseline_tests_pass_with_change"] and rc1 != 0 and rc0 == 0)
for p in props:
    t0 = time.time()
    e2 = dict(env, VERIF_REPO=wt)
    rc, o = run([os.path.join(VERIF, "bin", "check"), p, "quick"], cwd=VERIF, timeout=3600, e=e2)
    lines = [l for l in o.split("\n") if l.startswith(("VIOLATION", "KNOWN-FINDING", "check "))]
    rep = {}
    for l in lines:
        if l.startswith("VIOLATION") and "replay=" in l:
            rp = l.split("replay=")[1].split()[0]
            try:
                txt = open(os.path.join(VERIF, rp)).read()
                rep[rp] = [x for x in txt.split("\n") if x.startswith("# signature") or x.startswith("# what no longer")][:2]
            except OSError:
                pass
    meta["ran"].append(dict(check=p + " quick (VERIF_REPO=" + wt + ")", exit=rc, lines=lines, replays=rep, wall_s=round(time.time() - t0, 1)))
    # restore evidence written against the changed tree
    subprocess.run(["git", "checkout", "--", "evidence/%s.json" % p], cwd=VERIF)
meta["caught_by"] = [r["check"].split()[0] for r in meta["ran"] if r["exit"] == 1]
for k in ("where", "needs", "followup", "earlier_runs"):
    if k in old:
        meta[k] = old[k]
if old.get("ran"):
    meta.setdefault("earlier_runs", []).append([dict(check=r["check"], exit=r["exit"]) for r in old["ran"]])
json.dump(meta, open(os.path.join(out, "meta.json"), "w"), indent=1)
print(json.dumps({k: meta[k] for k in ("id", "confirmed", "caught_by", "demo_with_change", "demo_without_change")}, indent=1))
for r in meta["ran"]:
    print(r["check"], "exit", r["exit"], r["lines"][-3:], list(r["replays"].values())[:2])
