"""Constants used by the C13 model: Tree field numbers (pkg/blobstore/cas_read_buffer_factory.go)
and the header peek size of VisitProtoBytesFields (pkg/util/proto.go)."""
import re


def emit(read, must, goint):
    lines = []
    src = read("pkg/blobstore/cas_read_buffer_factory.go")
    m = must(re.search(r"TreeRootFieldNumber\s+protowire\.Number\s*=\s*(\d+)", src), "TreeRootFieldNumber")
    lines.append("Definition c13_tree_root_field : N := %d." % int(m.group(1)))
    m = must(re.search(r"TreeChildrenFieldNumber\s+protowire\.Number\s*=\s*(\d+)", src), "TreeChildrenFieldNumber")
    lines.append("Definition c13_tree_children_field : N := %d." % int(m.group(1)))
    src = read("pkg/util/proto.go")
    m = must(re.search(r"br\.Peek\((\d+)\)", src), "VisitProtoBytesFields header peek size")
    lines.append("Definition c13_peek_size : nat := %d." % int(m.group(1)))
    lines.append("")
    return lines
