"""Constants of pkg/blobstore/local/location_record_key.go and
block_device_backed_location_record_array.go (C06)."""
import re


def emit(read, must, goint):
    lines = []
    # ---- location_record_key.go: FNV-1a over key bytes, then the attempt little endian
    src = read("pkg/blobstore/local/location_record_key.go")
    m = must(re.search(r"func \(k \*LocationRecordKey\) Hash\(hashInitialization uint64\) uint64 \{(.*?)\n\}", src, re.S), "LocationRecordKey.Hash")
    body = m.group(1)
    primes = [goint(x) for x in re.findall(r"h \*= (\d+|0x[0-9a-fA-F]+)", body)]
    if len(primes) != 2 or primes[0] != primes[1]:
        must(None, "LocationRecordKey.Hash: two multiplications by the same FNV prime")
    order = re.findall(r"h (\^=|\*=)", body)
    if order != ["^=", "*=", "^=", "*="]:
        must(None, "LocationRecordKey.Hash statement order (xor, then multiply)")
    must(re.search(r"h := hashInitialization", body), "LocationRecordKey.Hash initialisation")
    m = must(re.search(r"for i := 0; i < (\d+); i\+\+ \{\s*h \^= uint64\(attempt & 0x([0-9a-fA-F]+)\)\s*h \*= \d+\s*attempt >>= (\d+)", body),
             "LocationRecordKey.Hash attempt loop")
    lines.append("Definition klm_fnv_prime : N := %d." % primes[0])
    lines.append("Definition klm_attempt_bytes : nat := %d." % int(m.group(1)))
    lines.append("Definition klm_attempt_mask : N := %d." % int(m.group(2), 16))
    lines.append("Definition klm_attempt_shift : N := %d." % int(m.group(3)))

    # ---- block_device_backed_location_record_array.go: record layout and checksum
    src = read("pkg/blobstore/local/block_device_backed_location_record_array.go")
    m = must(re.search(r"BlockDeviceBackedLocationRecordSize = ([^\n]+)", src), "BlockDeviceBackedLocationRecordSize")
    terms = [t.strip() for t in m.group(1).split("+")]
    vals = []
    for t in terms:
        if t == "sha256.Size":
            vals.append(32)
        else:
            vals.append(goint(t))
    if len(vals) != 7:
        must(None, "record layout: seven fields")
    names = ["epoch", "bfl", "key", "attempt", "offset", "size", "checksum"]
    for nme, v in zip(names, vals):
        lines.append("Definition bdlra_%s_bytes : nat := %d." % (nme, v))
    lines.append("Definition bdlra_record_size : nat := %d." % sum(vals))
    m = must(re.search(r"func computeChecksumForRecord\(.*?\{(.*?)\n\}", src, re.S), "computeChecksumForRecord")
    cb = m.group(1)
    pm = must(re.search(r"h \*= (\d+)", cb), "checksum prime")
    lines.append("Definition bdlra_fnv_prime : N := %d." % goint(pm.group(1)))
    rng = must(re.search(r"for i := ([0-9+ ]+); i < ([0-9a-zA-Z.+ ]+); i\+\+", cb), "checksum range")

    def ev(e):
        return sum(32 if t.strip() == "sha256.Size" else goint(t.strip()) for t in e.split("+"))
    lines.append("Definition bdlra_checksum_from : nat := %d." % ev(rng.group(1)))
    lines.append("Definition bdlra_checksum_to : nat := %d." % ev(rng.group(2)))
    lines.append("")
    return lines
