"""Literal tables of pkg/digest (C20): supported functions (enum value, hash size, lower-case
name), getBareFunction's two switches, reserved instance name keywords, compressor names,
shortestSupportedHashStringSize and the "enum > N" midfix rule.  Enum numbers and names come from
the remote-apis module in the Go module cache (version pinned by go.mod)."""
import os, re, subprocess

# sizes of the Go standard library that bare_function.go refers to by name
STD_SIZES = {"md5.Size": 16, "sha1.Size": 20, "sha256.Size": 32, "sha256.Size224": 28,
             "sha512.Size": 64, "sha512.Size384": 48, "sha512.Size256": 32, "sha512.Size224": 28}


def modcache():
    c = os.environ.get("GOMODCACHE")
    if c and os.path.isdir(c):
        return c
    for go in ("/usr/local/bin/go1.26.8", "go"):
        try:
            o = subprocess.run([go, "env", "GOMODCACHE"], stdout=subprocess.PIPE, stderr=subprocess.DEVNULL,
                               text=True, timeout=30).stdout.strip()
            if o and os.path.isdir(o):
                return o
        except Exception:
            pass
    return os.path.expanduser("~/go/pkg/mod")


def bstr(s):
    return "[" + "; ".join(str(b) for b in s.encode()) + "]"


def emit(read, must, goint):
    lines = []
    gomod = read("go.mod")
    mc = modcache()

    def modfile(mod, rel):
        m = must(re.search(r"^\s*%s\s+(\S+)" % re.escape(mod), gomod, re.M), "go.mod version of " + mod)
        return read(os.path.join(mc, mod + "@" + m.group(1), rel))

    # ---- enum tables of the REv2 protocol
    pb = modfile("github.com/bazelbuild/remote-apis", "build/bazel/remote/execution/v2/remote_execution.pb.go")

    def enum_table(name):
        m = must(re.search(r"%s_name = map\[int32\]string\{(.*?)\n\t\}" % name, pb, re.S), name + "_name")
        return {n: int(v) for v, n in re.findall(r"(\d+):\s*\"([A-Za-z0-9_]+)\"", m.group(1))}
    dfn = enum_table("DigestFunction_Value")
    comp = enum_table("Compressor_Value")

    # ---- bare_function.go
    bf = read("pkg/digest/bare_function.go")
    sizes = dict(STD_SIZES)
    tree = modfile("github.com/buildbarn/go-sha256tree", "hasher.go")
    m = must(re.search(r"const Size = ([A-Za-z0-9_.]+)", tree), "sha256tree.Size")
    sizes["sha256tree.Size"] = sizes[m.group(1)] if m.group(1) in sizes else goint(m.group(1))

    def size_of(expr):
        expr = expr.strip()
        m = re.fullmatch(r"([A-Za-z0-9_.]+)\s*\*\s*(\d+)", expr)
        if m:
            return size_of(m.group(1)) * int(m.group(2))
        if expr in sizes:
            return sizes[expr]
        return goint(expr)

    m = must(re.search(r"var SupportedDigestFunctions = \[\]remoteexecution\.DigestFunction_Value\{(.*?)\n\}", bf, re.S),
             "SupportedDigestFunctions")
    supported = re.findall(r"remoteexecution\.DigestFunction_([A-Z0-9]+)", m.group(1))
    must(supported, "entries of SupportedDigestFunctions")
    m = must(re.search(r"const shortestSupportedHashStringSize = ([^\n]+)", bf), "shortestSupportedHashStringSize")
    lines.append("Definition c20_shortest_hash_string_size : N := %d." % size_of(m.group(1)))

    # the bareFunction variables: name -> (enum name, hash bytes)
    bare = {}
    for v, body in re.findall(r"\n\t(\w+BareFunction) = bareFunction\{(.*?)\n\t\}", bf, re.S):
        e = must(re.search(r"enumValue:\s*remoteexecution\.DigestFunction_([A-Z0-9]+)", body), v + ".enumValue")
        h = must(re.search(r"hashBytesSize:\s*([^,\n]+),", body), v + ".hashBytesSize")
        bare[v] = (e.group(1), size_of(h.group(1)))
    must(bare, "bareFunction variables")

    # getBareFunction: outer switch on the enum, inner switch on the hash string size
    g = must(re.search(r"func getBareFunction\(.*?\n\}", bf, re.S), "getBareFunction").group(0)
    inner = must(re.search(r"switch hashStringSize \{(.*?)\n\t\t\}", g, re.S), "switch hashStringSize").group(1)
    infer = []
    for sz, v in re.findall(r"case ([^:]+):\s*return &(\w+)", inner):
        infer.append((size_of(sz), dfn[bare[v][0]], bare[v][1]))
    outer = g.replace(inner, "")
    byenum = []
    for e, v in re.findall(r"case remoteexecution\.DigestFunction_([A-Z0-9]+):\s*return &(\w+)", outer):
        byenum.append((dfn[e], dfn[bare[v][0]], bare[v][1]))
    must(infer and byenum, "cases of getBareFunction")
    lines.append("(* SupportedDigestFunctions, in source order: (enum value, lower-case name) *)")
    lines.append("Definition c20_supported : list (N * list N) := [%s]." %
                 "; ".join("(%d, %s)" % (dfn[s], bstr(s.lower())) for s in supported))
    lines.append("(* getBareFunction, explicit enum: (requested enum, (enumValue, hashBytesSize) of the returned bareFunction) *)")
    lines.append("Definition c20_bare_by_enum : list (N * (N * N)) := [%s]." %
                 "; ".join("(%d, (%d, %d))" % t for t in byenum))
    lines.append("(* getBareFunction, UNKNOWN: (hash string size, (enumValue, hashBytesSize)) *)")
    lines.append("Definition c20_bare_by_size : list (N * (N * N)) := [%s]." %
                 "; ".join("(%d, (%d, %d))" % t for t in infer))
    lines.append("Definition c20_enum_unknown : N := %d." % dfn["UNKNOWN"])

    # ---- digest.go: midfix rule and compressor midfixes
    dg = read("pkg/digest/digest.go")
    m = must(re.search(r"if digestFunction > (\d+) \{", dg), "digest function midfix rule")
    lines.append("Definition c20_midfix_above : N := %d." % int(m.group(1)))
    m = must(re.search(r"remoteexecution\.Compressor_([A-Z]+):\s*\"([a-z-]+)\",", dg), "identity midfix")
    must(m.group(1) == "IDENTITY", "identity compressor entry")
    lines.append("Definition c20_compressor_identity : N := %d." % comp["IDENTITY"])
    lines.append("Definition c20_blobs : list N := %s." % bstr(m.group(2)))
    m = must(re.search(r"compressorEnumToMidfix\[enum\] = \"([a-z-]+)/\" \+ lowerName", dg), "compressed midfix")
    lines.append("Definition c20_compressed_blobs : list N := %s." % bstr(m.group(1)))
    lines.append("(* compressors other than IDENTITY: (enum value, lower-case name) *)")
    lines.append("Definition c20_compressors : list (N * list N) := [%s]." %
                 "; ".join("(%d, %s)" % (v, bstr(n.lower())) for n, v in sorted(comp.items(), key=lambda kv: kv[1])
                           if n != "IDENTITY"))
    m = must(re.search(r"for fields\[split\] != \"([a-z]+)\" \{", dg), "write path keyword")
    lines.append("Definition c20_uploads : list N := %s." % bstr(m.group(1)))

    # ---- instance_name.go
    inn = read("pkg/digest/instance_name.go")
    m = must(re.search(r"var reservedInstanceNameKeywords = map\[string\]bool\{(.*?)\n\}", inn, re.S), "reserved keywords")
    kws = re.findall(r"\"([^\"]+)\":\s*true", m.group(1))
    must(kws, "reserved keyword entries")
    lines.append("Definition c20_reserved : list (list N) := [%s]." % "; ".join(bstr(k) for k in kws))
    return lines
