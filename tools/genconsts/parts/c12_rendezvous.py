"""Constants of pkg/blobstore/sharding/rendezvous_shard_selector.go (C12)."""
import re


def emit(read, must, goint):
    lines = []
    # ---- pkg/blobstore/sharding/rendezvous_shard_selector.go
    src = read("pkg/blobstore/sharding/rendezvous_shard_selector.go")
    m = must(re.search(r"lutEntryBits\s*=\s*(\d+)", src), "lutEntryBits")
    lines.append("Definition lut_entry_bits : N := %d." % int(m.group(1)))
    m = must(re.search(r"var lut = \[[^\]]*\]uint16\{(.*?)\n\}", src, re.S), "lut")
    body = re.sub(r"//[^\n]*", "", m.group(1))
    vals = [goint(t) for t in re.findall(r"0x[0-9a-fA-F]+|\d+", body)]
    lines.append("Definition lut : list N := [%s]." % "; ".join(str(v) for v in vals))
    m = must(re.search(r"func splitmix64\(x uint64\) uint64 \{(.*?)\n\}", src, re.S), "splitmix64")
    sm = m.group(1)
    shifts = [int(x) for x in re.findall(r"x \^= x >> (\d+)", sm)]
    muls = [goint(x) for x in re.findall(r"x \*= (0x[0-9a-fA-F]+)", sm)]
    if len(shifts) != 3 or len(muls) != 2:
        must(None, "splitmix64 structure (3 xor-shifts, 2 multiplications)")
    # the order of statements is part of the translation: xs, mul, xs, mul, xs
    order = re.findall(r"x (\^=|\*=)", sm)
    if order != ["^=", "*=", "^=", "*=", "^="]:
        must(None, "splitmix64 statement order")
    lines.append("Definition sm_shift1 : N := %d." % shifts[0])
    lines.append("Definition sm_mul1 : N := %d." % muls[0])
    lines.append("Definition sm_shift2 : N := %d." % shifts[1])
    lines.append("Definition sm_mul2 : N := %d." % muls[1])
    lines.append("Definition sm_shift3 : N := %d." % shifts[2])
    m = must(re.search(r"logFixed := uint64\((\d+)\)<<(\d+) - Log2Fixed\(x\)", src), "score logFixed")
    lines.append("Definition score_int_bits : N := %d." % int(m.group(1)))
    lines.append("Definition score_frac_bits : N := %d." % int(m.group(2)))
    m = must(re.search(r"weightFixed := uint64\(weight\) << (\d+)", src), "score weightFixed")
    lines.append("Definition score_weight_shift : N := %d." % int(m.group(1)))
    lines.append("")
    return lines
