#!/usr/bin/env python3
"""tools/diffcase.py <prop> <casefile> [line]: side-by-side per-event view of implementation vs model for the store-type cases."""
import sys, subprocess, os
sys.path.insert(0, os.path.join(os.path.dirname(os.path.abspath(__file__)), "..", "lib"))
from checklib import parse_sx, show_sx, VERIF
prop, f = sys.argv[1], sys.argv[2]
want = int(sys.argv[3]) if len(sys.argv) > 3 else None
out = subprocess.run([os.path.join(VERIF, "ocaml/driver"), prop, f], capture_output=True, text=True).stdout.split("\n")
lines = [l for l in open(f) if l.strip() and not l.startswith("#")]
for n, (l, v) in enumerate(zip(lines, out), 1):
    if (want is None and v.endswith("AGREE")) or (want is not None and n != want):
        continue
    inp, obs = l.split("\t")[:2]
    model = v.split("model=")[1].split(" detail=")[0] if "model=" in v else None
    ti, to = parse_sx(inp), parse_sx(obs)
    tm = parse_sx(model) if model else to
    print("case", n, v.split(" model=")[0], "detail=", v.split("detail=")[-1])
    print(" cfg", show_sx(ti[0]), "objs", show_sx(ti[1]), "anc", show_sx(ti[2]))
    for k, op in enumerate(ti[3]):
        a = show_sx(to[k]) if k < len(to) else "-"
        b = show_sx(tm[k]) if k < len(tm) else "-"
        print("  %2d %-40s impl %-36s %s" % (k, show_sx(op)[:40], a[:36], "" if a.split(" ")[:7] == b.split(" ")[:7] or a[:-4]==b[:-4] else "MODEL " + b))
    if want is None:
        break
