#!/usr/bin/env python3
"""tools/seedrecheck.py [<seed-id>...]

Regression run of the checks against every kept seeded change (seeded/<id>/patch.diff): one scratch
worktree of /repo (outside /repo and /verif, removed at the end), each patch applied in turn, the quick
checks named in meta.json `caught_by` (or `properties_targeted`) run through VERIF_REPO.  Writes
seeded/RECHECK.json: per seed, per check, exit code and signatures.  /repo itself is never touched.
"""
import json, os, subprocess, sys, time, tempfile, shutil
VERIF = os.path.normpath(os.path.join(os.path.dirname(os.path.abspath(__file__)), ".."))
REPO = os.environ.get("SEED_REPO", "/repo")
env = dict(os.environ, GOFLAGS="-mod=mod", GOPROXY="off", GOSUMDB="off", GOTOOLCHAIN="local",
           PATH="/opt/veriftools/go1.26.8/bin:" + os.environ["PATH"])


def sh(cmd, cwd=None, e=env, timeout=3600):
    p = subprocess.run(cmd, cwd=cwd, env=e, shell=isinstance(cmd, str), stdout=subprocess.PIPE,
                       stderr=subprocess.STDOUT, text=True, timeout=timeout)
    return p.returncode, p.stdout


ids = sys.argv[1:] or sorted(d for d in os.listdir(os.path.join(VERIF, "seeded"))
                             if os.path.exists(os.path.join(VERIF, "seeded", d, "patch.diff")))
wt = tempfile.mkdtemp(prefix="seedre-", dir=os.environ.get("SEED_TMP", "/var/tmp"))
os.rmdir(wt)
rc, o = sh(["git", "-C", REPO, "worktree", "add", "--detach", wt, "HEAD"])
assert rc == 0, o
res_path = os.path.join(VERIF, "seeded", "RECHECK.json")
try:
    results = json.load(open(res_path))
except Exception:
    results = {}
try:
    for sid in ids:
        d = os.path.join(VERIF, "seeded", sid)
        meta = json.load(open(os.path.join(d, "meta.json")))
        props = meta.get("caught_by") or meta.get("properties_targeted") or [sid.split("-")[0]]
        props = [p for p in props if p.startswith("C")]
        rc, o = sh(["git", "apply", os.path.join(d, "patch.diff")], cwd=wt)
        if rc != 0:
            results[sid] = dict(error="patch does not apply: " + o[-300:])
            continue
        entry = {}
        for p in props:
            t0 = time.time()
            rc, o = sh([os.path.join(VERIF, "bin", "check"), p, "quick"], cwd=VERIF, e=dict(env, VERIF_REPO=wt))
            sigs = []
            for l in o.split("\n"):
                if l.startswith("VIOLATION") and "replay=" in l:
                    rp = l.split("replay=")[1].split()[0]
                    try:
                        for x in open(os.path.join(VERIF, rp)).read().split("\n")[:4]:
                            if x.startswith("# signature="):
                                sigs.append(x[len("# signature="):])
                    except Exception:
                        pass
                    if l.rstrip().endswith("no-failing-input-found"):
                        sigs.append("DIFF-only")
            entry[p] = dict(exit=rc, signatures=sigs, wall_s=round(time.time() - t0, 1),
                            summary=[l for l in o.split("\n") if l.startswith("check ")][-1:])
            print(sid, p, "exit", rc, sigs, flush=True)
        results[sid] = entry
        sh(["git", "checkout", "--", "."], cwd=wt)
        sh(["git", "clean", "-fdq"], cwd=wt)
        json.dump(results, open(res_path, "w"), indent=1, sort_keys=True)
finally:
    sh(["git", "-C", REPO, "worktree", "remove", "--force", wt])
    shutil.rmtree(wt, ignore_errors=True)
    sh(["git", "-C", REPO, "worktree", "prune"])
missed = [s for s, e in results.items() if "error" in e or not any(v.get("exit") == 1 for v in e.values())]
print("seeds rechecked: %d, not caught by any of their checks: %s" % (len(results), missed or "none"))
sys.exit(1 if missed else 0)
